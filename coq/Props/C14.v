(* C14 — list and vector procedures match their specification and preserve identity.
   Only statements, each closed by [exact] of a lemma of Proofs/ListVecProofs.v, with
   its assumptions printed.  Model: Model/ListVec.v (the Rust builtins as written, after
   the fix: commits listed in known_findings.json); specification: Model/ListVecSpec.v
   (abstract store of pair and vector locations, [abs], [values_are_refs]).

   Reading guide.  [called_with s args]: the machine is about to run a builtin on the
   argument values [args].  [absv s v]: the abstract value (immediate or LOCATION) a
   machine value denotes; [a_pair (abs s) p] / [a_vec (abs s) vid]: contents of the pair
   at location p / of the vector with Rc id vid.  Every theorem has three parts:
   refinement (the R7RS result, or an error exactly in the listed cases), frame (no
   other location changes: [pres], or the explicit "forall q <> p" clauses) and
   preservation of [values_are_refs].  [render_fail]: an error was reported, up to the
   rendering of the error payload (Model/Heap.get_as_cell: NoFuel on circular data and
   panic sites 10/13/14 on an ill-formed machine are C06's display_err_total).      *)
From MW Require Import Model.Base Model.F64 Model.Num Model.Datum Model.TransformDef
  Model.VmTypes Model.Heap Model.VmBase Model.ListVec Model.PreludeLists Model.ListVecSpec Proofs.ListVecProofs
  Proofs.PreludeMemProofs Proofs.PreludeMapProofs Proofs.PreludeMapProofs2.
Open Scope N_scope.

(* ------------------------------------------------------------------ car cdr *)
Theorem C14_car_refines : forall fuel s v,
  called_with s [v] ->
  match absv s v with
  | ALoc (LPair p) =>
      exists x d r s', a_pair (abs s) p = Some (x, d) /\ car fuel s = ROk r s' /\
                       absv s' r = x /\ hp s' = hp s /\ st s' = st s
  | _ => val_ok s v -> render_fail (car fuel s)
  end.
Proof. exact car_refines. Qed.
Print Assumptions C14_car_refines.

Theorem C14_cdr_refines : forall fuel s v,
  called_with s [v] ->
  match absv s v with
  | ALoc (LPair p) =>
      exists x d r s', a_pair (abs s) p = Some (x, d) /\ cdr fuel s = ROk r s' /\
                       absv s' r = d /\ hp s' = hp s /\ st s' = st s
  | _ => val_ok s v -> render_fail (cdr fuel s)
  end.
Proof. exact cdr_refines. Qed.
Print Assumptions C14_cdr_refines.

(* --------------------------------------------------------------------- cons *)
(* a NEW location (not live before) holding exactly the two arguments; [pres]: every
   old object exists unchanged afterwards *)
Theorem C14_cons_refines : forall s a b,
  values_are_refs s -> val_ok s a -> val_ok s b -> called_with s [a; b] ->
  exists p s', call_builtin cons_ s = ROk (VPtr p) s' /\
    ~ live (hp s) p /\
    a_pair (abs s') p = Some (absv s a, absv s b) /\
    pres s s' /\ values_are_refs s' /\ target_ok s' p /\ st s' = st s.
Proof. exact cons_refines. Qed.
Print Assumptions C14_cons_refines.

(* what [pres] means for the abstract store: frame *)
Theorem C14_pres_frame : forall s s',
  values_are_refs s -> pres s s' ->
  (forall q, live (hp s) q -> a_pair (abs s') q = a_pair (abs s) q) /\
  (forall vid l, tget (vecs (st s)) vid = Some l -> a_vec (abs s') vid = a_vec (abs s) vid) /\
  (forall v, val_ok s v -> val_ok s' v /\ absv s' v = absv s v).
Proof.
  intros s s' W P. repeat split.
  - intros q Hq. now apply pres_a_pair.
  - intros vid l Hl. eapply pres_a_vec; eauto.
  - eapply pres_val_ok; eauto.
  - eapply pres_absv; eauto.
Qed.
Print Assumptions C14_pres_frame.

(* --------------------------------------------------------- set-car! set-cdr! *)
Theorem C14_set_car_refines : forall s pv o,
  values_are_refs s -> val_ok s pv -> val_ok s o -> called_with s [pv; o] ->
  match absv s pv with
  | ALoc (LPair p) =>
      exists x d s', a_pair (abs s) p = Some (x, d) /\ set_car s = ROk VVoid s' /\
        a_pair (abs s') p = Some (absv s o, d) /\
        (forall q, q <> p -> live (hp s) q -> a_pair (abs s') q = a_pair (abs s) q) /\
        (forall vid l, tget (vecs (st s)) vid = Some l -> a_vec (abs s') vid = a_vec (abs s) vid) /\
        (forall v, val_ok s v -> val_ok s' v /\ absv s' v = absv s v) /\
        values_are_refs s'
  | _ => exists s', set_car s = RErr E_OTHER [] s'
  end.
Proof. exact set_car_refines. Qed.
Print Assumptions C14_set_car_refines.

Theorem C14_set_cdr_refines : forall s pv o,
  values_are_refs s -> val_ok s pv -> val_ok s o -> called_with s [pv; o] ->
  match absv s pv with
  | ALoc (LPair p) =>
      exists x d s', a_pair (abs s) p = Some (x, d) /\ set_cdr s = ROk VVoid s' /\
        a_pair (abs s') p = Some (x, absv s o) /\
        (forall q, q <> p -> live (hp s) q -> a_pair (abs s') q = a_pair (abs s) q) /\
        (forall vid l, tget (vecs (st s)) vid = Some l -> a_vec (abs s') vid = a_vec (abs s) vid) /\
        (forall v, val_ok s v -> val_ok s' v /\ absv s' v = absv s v) /\
        values_are_refs s'
  | _ => exists s', set_cdr s = RErr E_OTHER [] s'
  end.
Proof. exact set_cdr_refines. Qed.
Print Assumptions C14_set_cdr_refines.

(* ------------------------------------------------------------------ vectors *)
Theorem C14_vector_refines : forall s args,
  values_are_refs s -> Forall (val_ok s) args -> called_with s args ->
  exists p vid s', call_builtin vector s = ROk (VPtr p) s' /\
    absv s' (VPtr p) = ALoc (LVec vid) /\ a_vec (abs s) vid = None /\
    a_vec (abs s') vid = Some (map (absv s) args) /\
    pres s s' /\ values_are_refs s' /\ ~ live (hp s) p /\ target_ok s' p.
Proof. exact vector_refines. Qed.
Print Assumptions C14_vector_refines.

Theorem C14_vector_length_refines : forall s v,
  values_are_refs s -> val_ok s v -> called_with s [v] ->
  match absv s v with
  | ALoc (LVec vid) =>
      exists xs s', a_vec (abs s) vid = Some xs /\
        vector_length s = ROk (VNum (Fixnum (Z.of_nat (length xs)))) s' /\ hp s' = hp s /\ st s' = st s
  | _ => exists s', vector_length s = RErr E_OTHER [] s'
  end.
Proof. exact vector_length_refines. Qed.
Print Assumptions C14_vector_length_refines.

(* an error exactly when the second argument is not an index or is out of range *)
Theorem C14_vector_ref_refines : forall s v k,
  values_are_refs s -> val_ok s v -> val_ok s k -> called_with s [v; k] ->
  match absv s v with
  | ALoc (LVec vid) =>
      exists xs, a_vec (abs s) vid = Some xs /\
        match aindex (absv s k) with
        | Some i =>
            match nth_error xs (N.to_nat i) with
            | Some x => exists r s', vector_ref s = ROk r s' /\ absv s' r = x /\ val_ok s' r /\
                                     hp s' = hp s /\ st s' = st s
            | None => exists s', vector_ref s = RErr E_OTHER [] s'
            end
        | None => exists s', vector_ref s = RErr E_OTHER [] s'
        end
  | _ => exists s', vector_ref s = RErr E_OTHER [] s'
  end.
Proof. exact vector_ref_refines. Qed.
Print Assumptions C14_vector_ref_refines.

(* includes the empty vector (fix F2): every index is out of range, an error, no panic *)
Theorem C14_vector_set_refines : forall s v k x,
  values_are_refs s -> val_ok s v -> val_ok s k -> val_ok s x -> called_with s [v; k; x] ->
  match absv s v, aindex (absv s k) with
  | ALoc (LVec vid), Some i =>
      exists xs, a_vec (abs s) vid = Some xs /\
        if i <? N.of_nat (length xs) then
          exists s', vector_set s = ROk VVoid s' /\
            a_vec (abs s') vid = Some (list_set_nat xs (N.to_nat i) (absv s x)) /\
            (forall u, u <> vid -> a_vec (abs s') u = a_vec (abs s) u) /\
            (forall q, a_pair (abs s') q = a_pair (abs s) q) /\
            hp s' = hp s /\ values_are_refs s'
        else exists s', vector_set s = RErr E_OTHER [] s'
  | _, _ => exists s', vector_set s = RErr E_OTHER [] s'
  end.
Proof. exact vector_set_refines. Qed.
Print Assumptions C14_vector_set_refines.

(* fix F7: every slot holds the argument itself (its abstract value, i.e. its location) *)
Theorem C14_vector_fill_refines : forall s v x,
  values_are_refs s -> val_ok s v -> val_ok s x -> called_with s [v; x] ->
  match absv s v with
  | ALoc (LVec vid) =>
      exists xs s', a_vec (abs s) vid = Some xs /\ vector_fill s = ROk VVoid s' /\
        a_vec (abs s') vid = Some (map (fun _ => absv s x) xs) /\
        (forall u, u <> vid -> a_vec (abs s') u = a_vec (abs s) u) /\
        (forall q, a_pair (abs s') q = a_pair (abs s) q) /\
        hp s' = hp s /\ values_are_refs s'
  | _ => exists s', vector_fill s = RErr E_OTHER [] s'
  end.
Proof. exact vector_fill_refines. Qed.
Print Assumptions C14_vector_fill_refines.

(* make-vector with a fill: a NEW vector whose every slot is the fill argument itself.
   (Sizes beyond MAX_VEC make the Rust `vec![fill; len]` abort: C06.) *)
Theorem C14_make_vector_refines : forall s k fill,
  values_are_refs s -> val_ok s k -> val_ok s fill -> called_with s [k; fill] ->
  match aindex (absv s k) with
  | Some i =>
      i <= MAX_VEC ->
      exists p vid s', call_builtin make_vector s = ROk (VPtr p) s' /\
        absv s' (VPtr p) = ALoc (LVec vid) /\ a_vec (abs s) vid = None /\
        a_vec (abs s') vid = Some (repeat (absv s fill) (N.to_nat i)) /\
        pres s s' /\ values_are_refs s' /\ ~ live (hp s) p /\ target_ok s' p
  | None => exists s', call_builtin make_vector s = RErr E_OTHER [] s'
  end.
Proof. exact make_vector_refines. Qed.
Print Assumptions C14_make_vector_refines.

(* vector-copy with a start index (the end argument is excluded by the property's
   quantifier): a NEW vector holding the suffix; start = length gives #() (fix F2) *)
Theorem C14_vector_copy_refines : forall s v k,
  values_are_refs s -> val_ok s v -> val_ok s k -> called_with s [v; k] ->
  match absv s v, aindex (absv s k) with
  | ALoc (LVec vid0), Some i =>
      exists xs, a_vec (abs s) vid0 = Some xs /\
        if i <=? N.of_nat (length xs) then
          exists p vid s', call_builtin vector_copy s = ROk (VPtr p) s' /\
            absv s' (VPtr p) = ALoc (LVec vid) /\ a_vec (abs s) vid = None /\
            a_vec (abs s') vid = Some (skipn (N.to_nat i) xs) /\
            pres s s' /\ values_are_refs s' /\ ~ live (hp s) p /\ target_ok s' p
        else exists s', call_builtin vector_copy s = RErr E_OTHER [] s'
  | _, _ => exists s', call_builtin vector_copy s = RErr E_OTHER [] s'
  end.
Proof. exact vector_copy_refines. Qed.
Print Assumptions C14_vector_copy_refines.

(* vector-copy! (fixes F2, F8 and the overlap fix).  [vmc_post s r start end to at from]:
   with from, to vectors and at an index, the call succeeds iff
   at <= |to|, start <= end <= |from| and at + (end - start) <= |to|, and then [copied]:
   positions at .. at+(end-start) of to hold the OLD elements start .. end of from (also
   when to and from are the same vector), every other position, every other vector and
   every pair is unchanged; otherwise an error.  No usize underflow on any input. *)
Theorem C14_vector_copy_mut3 : forall s tov atv fromv,
  values_are_refs s -> val_ok s tov -> val_ok s atv -> val_ok s fromv ->
  called_with s [tov; atv; fromv] ->
  vmc_post s (vector_mut_copy s) None None tov atv fromv.
Proof. exact vector_copy_mut_refines3. Qed.
Print Assumptions C14_vector_copy_mut3.

Theorem C14_vector_copy_mut4 : forall s tov atv fromv startv,
  values_are_refs s -> val_ok s tov -> val_ok s atv -> val_ok s fromv -> val_ok s startv ->
  called_with s [tov; atv; fromv; startv] ->
  match aindex (absv s startv) with
  | Some b => vmc_post s (vector_mut_copy s) (Some b) None tov atv fromv
  | None => exists s', vector_mut_copy s = RErr E_OTHER [] s'
  end.
Proof. exact vector_copy_mut_refines4. Qed.
Print Assumptions C14_vector_copy_mut4.

Theorem C14_vector_copy_mut5 : forall s tov atv fromv startv endv,
  values_are_refs s -> val_ok s tov -> val_ok s atv -> val_ok s fromv ->
  val_ok s startv -> val_ok s endv ->
  called_with s [tov; atv; fromv; startv; endv] ->
  match aindex (absv s endv), aindex (absv s startv) with
  | Some e, Some b => vmc_post s (vector_mut_copy s) (Some b) (Some e) tov atv fromv
  | _, _ => exists s', vector_mut_copy s = RErr E_OTHER [] s'
  end.
Proof. exact vector_copy_mut_refines5. Qed.
Print Assumptions C14_vector_copy_mut5.

(* the meaning of [vmc_post] spelled out (so that the three statements above cannot be
   weakened by editing a definition in Proofs/) *)
Theorem C14_vmc_post_meaning : forall s r start end_ tov atv fromv,
  vmc_post s r start end_ tov atv fromv <->
  match absv s fromv, aindex (absv s atv), absv s tov with
  | ALoc (LVec fid), Some at_, ALoc (LVec tid) =>
      exists fxs txs, a_vec (abs s) fid = Some fxs /\ a_vec (abs s) tid = Some txs /\
        let sv := match start with Some x => x | None => 0 end in
        let ev := match end_ with Some x => x | None => N.of_nat (length fxs) end in
        if (at_ <=? N.of_nat (length txs)) && (sv <=? N.of_nat (length fxs)) &&
           (ev <=? N.of_nat (length fxs)) && (sv <=? ev) &&
           (at_ + (ev - sv) <=? N.of_nat (length txs))
        then exists s' txs', r = ROk VVoid s' /\
               a_vec (abs s') tid = Some txs' /\
               (length txs' = length txs /\
                forall j, nth_error txs' j =
                  if ((N.to_nat at_ <=? j) && (j <? N.to_nat at_ + N.to_nat (ev - sv)))%nat
                  then nth_error fxs (N.to_nat sv + (j - N.to_nat at_)) else nth_error txs j) /\
               (forall u, u <> tid -> a_vec (abs s') u = a_vec (abs s) u) /\
               (forall q, a_pair (abs s') q = a_pair (abs s) q) /\
               hp s' = hp s /\ values_are_refs s'
        else exists s', r = RErr E_OTHER [] s'
  | _, _, _ => exists s', r = RErr E_OTHER [] s'
  end.
Proof. intros. reflexivity. Qed.
Print Assumptions C14_vmc_post_meaning.

(* ------------------------------------------------- lists: finite chains of pairs *)
(* [achain (abs s) v xs e]: v is a finite chain of pairs with elements xs ending in e
   (e = () for a proper list).  Circular lists have no chain and are outside these
   statements (C06).  A fuel proportional to the length suffices, whatever the index. *)
Theorem C14_list_tail_refines : forall fuel s v k xs e,
  values_are_refs s -> val_ok s v -> val_ok s k -> called_with s [v; k] ->
  achain (abs s) (absv s v) xs e -> (length xs + 1 < fuel)%nat ->
  match aindex (absv s k) with
  | Some i =>
      if (i <=? N.of_nat (length xs)) && is_listy (absv s v) then
        exists r s', list_tail fuel s = ROk r s' /\
          atail (abs s) (absv s v) (N.to_nat i) (absv s r) /\ val_ok s r /\
          hp s' = hp s /\ st s' = st s
      else render_fail (list_tail fuel s)
  | None => exists s', list_tail fuel s = RErr E_OTHER [] s'
  end.
Proof. exact list_tail_refines. Qed.
Print Assumptions C14_list_tail_refines.

Theorem C14_list_ref_refines : forall fuel s v k xs e,
  values_are_refs s -> val_ok s v -> val_ok s k -> called_with s [v; k] ->
  achain (abs s) (absv s v) xs e -> (length xs + 1 < fuel)%nat ->
  match aindex (absv s k) with
  | Some i =>
      match nth_error xs (N.to_nat i) with
      | Some x => exists r s', list_ref fuel s = ROk r s' /\ absv s r = x /\ val_ok s r /\
                               hp s' = hp s /\ st s' = st s
      | None => render_fail (list_ref fuel s)
      end
  | None => exists s', list_ref fuel s = RErr E_OTHER [] s'
  end.
Proof. exact list_ref_refines. Qed.
Print Assumptions C14_list_ref_refines.

(* list->vector: a NEW vector with exactly the elements (the same abstract values, i.e.
   the same locations); an improper list is an error (fix F16) *)
Theorem C14_list_to_vector_refines : forall fuel s v xs e,
  values_are_refs s -> val_ok s v -> called_with s [v] ->
  achain (abs s) (absv s v) xs e -> (length xs < fuel)%nat ->
  (e = AImm VNil ->
     exists p vid s', call_builtin (list_to_vector fuel) s = ROk (VPtr p) s' /\
       absv s' (VPtr p) = ALoc (LVec vid) /\ a_vec (abs s) vid = None /\
       a_vec (abs s') vid = Some xs /\
       pres s s' /\ values_are_refs s' /\ ~ live (hp s) p /\ target_ok s' p) /\
  (e <> AImm VNil -> render_fail (call_builtin (list_to_vector fuel) s)).
Proof. exact list_to_vector_refines. Qed.
Print Assumptions C14_list_to_vector_refines.

(* vector->list and reverse: a NEWLY ALLOCATED proper list ([aprefix ... locs xs ()] with
   every location in [locs] not live before) holding the same element values *)
Theorem C14_vector_to_list_refines : forall s v,
  values_are_refs s -> val_ok s v -> called_with s [v] ->
  match absv s v with
  | ALoc (LVec vid) =>
      exists xs r s' locs, a_vec (abs s) vid = Some xs /\
        call_builtin vector_to_list s = ROk r s' /\
        aprefix (abs s') (absv s' r) locs xs (AImm VNil) /\ fresh_in s locs /\
        pres s s' /\ values_are_refs s' /\ val_ok s' r
  | _ => exists s', call_builtin vector_to_list s = RErr E_OTHER [] s'
  end.
Proof. exact vector_to_list_refines. Qed.
Print Assumptions C14_vector_to_list_refines.

Theorem C14_reverse_refines : forall fuel s v xs e,
  values_are_refs s -> val_ok s v -> called_with s [v] ->
  achain (abs s) (absv s v) xs e -> (length xs + 1 < fuel)%nat ->
  (e = AImm VNil ->
     exists r s' locs, call_builtin (reverse fuel) s = ROk r s' /\
       aprefix (abs s') (absv s' r) locs (rev xs) (AImm VNil) /\ fresh_in s locs /\
       pres s s' /\ values_are_refs s' /\ val_ok s' r) /\
  (e <> AImm VNil -> render_fail (call_builtin (reverse fuel) s)).
Proof. exact reverse_refines. Qed.
Print Assumptions C14_reverse_refines.

(* ------------------------------------------------- store / retrieve identity *)
Theorem C14_identity_cons : forall fuel s a b,
  values_are_refs s -> val_ok s a -> val_ok s b -> called_with s [a; b] ->
  exists p s', call_builtin cons_ s = ROk (VPtr p) s' /\ values_are_refs s' /\
    forall t, hp t = hp s' -> called_with t [VPtr p] ->
      (exists r t', car fuel t = ROk r t' /\ absv t' r = absv s a) /\
      (exists r t', cdr fuel t = ROk r t' /\ absv t' r = absv s b).
Proof. exact cons_then_car_cdr. Qed.
Print Assumptions C14_identity_cons.

(* mutation through one alias is visible through all: [alias] is any value denoting the
   same location as the pair that was mutated *)
Theorem C14_identity_set_car : forall fuel s pv o p,
  values_are_refs s -> val_ok s pv -> val_ok s o -> called_with s [pv; o] ->
  absv s pv = ALoc (LPair p) ->
  exists s', set_car s = ROk VVoid s' /\ values_are_refs s' /\
    forall t alias, hp t = hp s' -> val_ok s alias -> absv s alias = ALoc (LPair p) ->
      called_with t [alias] ->
      exists r t', car fuel t = ROk r t' /\ absv t' r = absv s o.
Proof. exact set_car_then_car. Qed.
Print Assumptions C14_identity_set_car.

Theorem C14_identity_set_cdr : forall fuel s pv o p,
  values_are_refs s -> val_ok s pv -> val_ok s o -> called_with s [pv; o] ->
  absv s pv = ALoc (LPair p) ->
  exists s', set_cdr s = ROk VVoid s' /\ values_are_refs s' /\
    forall t alias, hp t = hp s' -> val_ok s alias -> absv s alias = ALoc (LPair p) ->
      called_with t [alias] ->
      exists r t', cdr fuel t = ROk r t' /\ absv t' r = absv s o.
Proof. exact set_cdr_then_cdr. Qed.
Print Assumptions C14_identity_set_cdr.

Theorem C14_identity_vector_set : forall s v k x vid i,
  values_are_refs s -> val_ok s v -> val_ok s k -> val_ok s x -> called_with s [v; k; x] ->
  absv s v = ALoc (LVec vid) -> aindex (absv s k) = Some i ->
  forall xs, a_vec (abs s) vid = Some xs -> i < N.of_nat (length xs) ->
  exists s', vector_set s = ROk VVoid s' /\ values_are_refs s' /\
    forall t alias k', hp t = hp s' -> st t = st s' ->
      val_ok s alias -> absv s alias = ALoc (LVec vid) ->
      val_ok s k' -> aindex (absv s k') = Some i ->
      called_with t [alias; k'] ->
      exists r t', vector_ref t = ROk r t' /\ absv t' r = absv s x.
Proof. exact vector_set_then_ref. Qed.
Print Assumptions C14_identity_vector_set.

Theorem C14_identity_vector_fill : forall s v x vid,
  values_are_refs s -> val_ok s v -> val_ok s x -> called_with s [v; x] ->
  absv s v = ALoc (LVec vid) ->
  forall xs, a_vec (abs s) vid = Some xs ->
  exists s', vector_fill s = ROk VVoid s' /\ values_are_refs s' /\
    forall t alias k' i, hp t = hp s' -> st t = st s' ->
      val_ok s alias -> absv s alias = ALoc (LVec vid) ->
      val_ok s k' -> aindex (absv s k') = Some i -> i < N.of_nat (length xs) ->
      called_with t [alias; k'] ->
      exists r t', vector_ref t = ROk r t' /\ absv t' r = absv s x.
Proof. exact vector_fill_then_ref. Qed.
Print Assumptions C14_identity_vector_fill.

Theorem C14_identity_vector : forall s args,
  values_are_refs s -> Forall (val_ok s) args -> called_with s args ->
  exists p s', call_builtin vector s = ROk (VPtr p) s' /\ values_are_refs s' /\
    forall t k' i a, hp t = hp s' -> st t = st s' ->
      val_ok s k' -> aindex (absv s k') = Some i -> nth_error args (N.to_nat i) = Some a ->
      called_with t [VPtr p; k'] ->
      exists r t', vector_ref t = ROk r t' /\ absv t' r = absv s a.
Proof. exact vector_then_ref. Qed.
Print Assumptions C14_identity_vector.

Theorem C14_identity_make_vector : forall s k fill n,
  values_are_refs s -> val_ok s k -> val_ok s fill -> called_with s [k; fill] ->
  aindex (absv s k) = Some n -> n <= MAX_VEC ->
  exists p s', call_builtin make_vector s = ROk (VPtr p) s' /\ values_are_refs s' /\
    forall t k' i, hp t = hp s' -> st t = st s' ->
      val_ok s k' -> aindex (absv s k') = Some i -> i < n ->
      called_with t [VPtr p; k'] ->
      exists r t', vector_ref t = ROk r t' /\ absv t' r = absv s fill.
Proof. exact make_vector_then_ref. Qed.
Print Assumptions C14_identity_make_vector.

Theorem C14_identity_list_to_vector : forall fuel s v xs,
  values_are_refs s -> val_ok s v -> called_with s [v] ->
  achain (abs s) (absv s v) xs (AImm VNil) -> (length xs < fuel)%nat ->
  exists p s', call_builtin (list_to_vector fuel) s = ROk (VPtr p) s' /\ values_are_refs s' /\
    forall t k' i x, hp t = hp s' -> st t = st s' ->
      val_ok s k' -> aindex (absv s k') = Some i -> nth_error xs (N.to_nat i) = Some x ->
      called_with t [VPtr p; k'] ->
      exists r t', vector_ref t = ROk r t' /\ absv t' r = x.
Proof. exact list_to_vector_then_ref. Qed.
Print Assumptions C14_identity_list_to_vector.

(* append: a NEWLY ALLOCATED list ([aprefix] through the fresh locations [locs]) holding the
   elements of all arguments but the last, whose tail is the last argument ITSELF (shared
   structure, as R7RS specifies); no object that existed before changes ([pres]) *)
Theorem C14_append_refines : forall fuel s lists last xss,
  values_are_refs s -> Forall (val_ok s) lists -> val_ok s last ->
  called_with s (lists ++ [last]) ->
  Forall2 (fun l xs => achain (abs s) (absv s l) xs (AImm VNil) /\ (length xs + 2 < fuel)%nat) lists xss ->
  exists r s' locs, call_builtin (append fuel) s = ROk r s' /\
    aprefix (abs s') (absv s' r) locs (concat xss) (absv s last) /\ fresh_in s locs /\
    pres s s' /\ values_are_refs s' /\ val_ok s' r.
Proof. exact append_refines. Qed.
Print Assumptions C14_append_refines.

(* list?: #t exactly for finite chains ending in (), #f for every other finite chain; the
   second cursor of the cycle detection (fix F11) never fires on a finite list *)
Theorem C14_is_list_refines : forall fuel s v xs e,
  values_are_refs s -> val_ok s v -> called_with s [v] ->
  achain (abs s) (absv s v) xs e -> (length xs + 3 < fuel)%nat ->
  exists s', is_list fuel s = ROk (VBool (match e with AImm VNil => true | _ => false end)) s' /\
             hp s' = hp s /\ st s' = st s.
Proof. exact is_list_refines. Qed.
Print Assumptions C14_is_list_refines.

(* list? on circular lists (fix F11).  A circular list seen unrolled is an infinite
   sequence of pair cells c 0, c 1, ... = (car address, cdr address) in which the cdr of
   cell i is the address of cell i+1.  Whenever cells 2*t0 and t0 coincide for some
   t0 >= 1 — true of every circular list: take the least multiple of the cycle length that
   is at least the length of the handle — list? answers #f, with fuel 2*t0.  The two
   corollaries instantiate it for cycles of one and of two pairs. *)
Theorem C14_is_list_circular : forall fuel s v (c : nat -> N * N) t0,
  val_ok s v -> called_with s [v] ->
  heap_deref (hp s) v = Ok (VPair (fst (c O)) (snd (c O))) ->
  (forall i, heap_deref (hp s) (VPtr (snd (c i))) = Ok (VPair (fst (c (S i))) (snd (c (S i))))) ->
  (1 <= t0)%nat -> c (2 * t0)%nat = c t0 -> (2 * t0 <= fuel)%nat ->
  exists s', is_list fuel s = ROk (VBool false) s' /\ hp s' = hp s /\ st s' = st s.
Proof. exact is_list_circular. Qed.
Print Assumptions C14_is_list_circular.

Theorem C14_is_list_cycles : forall fuel s p q a b,
  target_ok s p -> called_with s [VPtr p] -> (4 <= fuel)%nat ->
  (heap_get (hp s) p = Ok (VPair a p) -> exists s', is_list fuel s = ROk (VBool false) s') /\
  (heap_get (hp s) p = Ok (VPair a q) -> heap_get (hp s) q = Ok (VPair b p) ->
     exists s', is_list fuel s = ROk (VBool false) s').
Proof.
  intros fuel s p q a b T H Hf. split.
  - intros Hg. eapply is_list_self_loop; eauto. Lia.lia.
  - intros Hp Hq. eapply is_list_two_cycle; eauto.
Qed.
Print Assumptions C14_is_list_cycles.

(* append with an improper list among the copied arguments is an error.  [bad] is the last
   improper argument (finite chain ending in something other than ()); the arguments after
   it are proper lists, those before it are never examined *)
Theorem C14_append_improper : forall fuel s before bad after last xss xsb e,
  values_are_refs s -> Forall (val_ok s) (before ++ bad :: after) -> val_ok s last ->
  called_with s ((before ++ bad :: after) ++ [last]) ->
  Forall2 (fun l xs => achain (abs s) (absv s l) xs (AImm VNil) /\ (length xs + 2 < fuel)%nat) after xss ->
  achain (abs s) (absv s bad) xsb e -> e <> AImm VNil -> (length xsb + 2 < fuel)%nat ->
  render_fail (call_builtin (append fuel) s).
Proof. exact append_improper. Qed.
Print Assumptions C14_append_improper.

(* ---------------------------------------------------------------------- equal? *)
(* equal_spec.  On finite plain data ([adatum s x n]: booleans, characters, (), numbers,
   symbols, strings, pairs, vectors; n bounds the depth, so the data is acyclic), with
   interned symbols, equal? terminates with a fuel linear in the depth and answers #t
   exactly when the two values are structurally equal ([aequal]: pairs and vectors by
   contents, strings by text, numbers by eqv? — exact and inexact numbers are never equal,
   fix F17 —, improper lists by their final cdr, the compare_pair fix). *)
Theorem C14_equal_spec : forall s l r n fuel,
  values_are_refs s -> sym_interned s -> val_ok s l -> val_ok s r ->
  adatum s (absv s l) n -> adatum s (absv s r) n -> (2 * n + 2 < fuel)%nat ->
  exists b, equal fuel l r s = ROk b s /\ (b = true <-> aequal s (absv s l) (absv s r)).
Proof. exact equal_spec. Qed.
Print Assumptions C14_equal_spec.

Theorem C14_equal_builtin : forall fuel s a b n,
  values_are_refs s -> sym_interned s -> val_ok s a -> val_ok s b ->
  adatum s (absv s a) n -> adatum s (absv s b) n -> (2 * n + 2 < fuel)%nat ->
  called_with s [a; b] ->
  exists res s', equal_b fuel s = ROk (VBool res) s' /\
    (res = true <-> aequal s (absv s b) (absv s a)) /\ hp s' = hp s /\ st s' = st s.
Proof. exact equal_b_refines. Qed.
Print Assumptions C14_equal_builtin.

(* ------------------------------------------------------------------ predicates *)
(* the type predicates answer a function of the abstract value and change nothing *)
Theorem C14_predicates : forall s v, val_ok s v -> called_with s [v] ->
  (exists s', is_pair_b s = ROk (VBool (akind_pair (absv s v))) s' /\ hp s' = hp s /\ st s' = st s) /\
  (exists s', is_null s = ROk (VBool (akind_null (absv s v))) s' /\ hp s' = hp s /\ st s' = st s) /\
  (exists s', is_vector s = ROk (VBool (akind_vector (absv s v))) s' /\ hp s' = hp s /\ st s' = st s) /\
  (exists s', is_string s = ROk (VBool (akind_string (absv s v))) s' /\ hp s' = hp s /\ st s' = st s) /\
  (exists s', is_symbol s = ROk (VBool (akind_symbol (absv s v))) s' /\ hp s' = hp s /\ st s' = st s) /\
  (exists s', is_boolean s = ROk (VBool (akind_boolean (absv s v))) s' /\ hp s' = hp s /\ st s' = st s) /\
  (exists s', is_char s = ROk (VBool (akind_char (absv s v))) s' /\ hp s' = hp s /\ st s' = st s) /\
  (exists s', is_number s = ROk (VBool (akind_number (absv s v))) s' /\ hp s' = hp s /\ st s' = st s).
Proof.
  intros s v Hv H. repeat split.
  - exact (pair_p_refines s v Hv H). - exact (null_p_refines s v Hv H).
  - exact (vector_p_refines s v Hv H). - exact (string_p_refines s v Hv H).
  - exact (symbol_p_refines s v Hv H). - exact (boolean_p_refines s v Hv H).
  - exact (char_p_refines s v Hv H). - exact (number_p_refines s v Hv H).
Qed.
Print Assumptions C14_predicates.

(* ------------------------------------------------ from the CALL to called_with *)
(* [apply_builtin b args] = push the arguments left to right, push their count, run the
   builtin through the CALL wrapper (compile.rs:530-560, run.rs:149-156).  On any machine
   whose stack pointer is below the stack capacity (sp < scap, the Vec length of stack.rs) this establishes [called_with] without
   touching heap or tables, so every theorem above applies to the real calling sequence;
   [C14_apply_cons] is the instance for cons. *)
Theorem C14_apply_builtin_called : forall b args s,
  sp s < scap s ->
  exists s1, apply_builtin b args s = call_builtin b s1 /\ called_with s1 args /\
             hp s1 = hp s /\ st s1 = st s.
Proof. exact apply_builtin_called. Qed.
Print Assumptions C14_apply_builtin_called.

Theorem C14_apply_cons : forall s a b,
  sp s < scap s -> values_are_refs s -> val_ok s a -> val_ok s b ->
  exists p s', apply_builtin cons_ [a; b] s = ROk (VPtr p) s' /\
    ~ live (hp s) p /\ a_pair (abs s') p = Some (absv s a, absv s b) /\
    pres s s' /\ values_are_refs s' /\ target_ok s' p.
Proof. exact apply_cons. Qed.
Print Assumptions C14_apply_cons.

(* ======================================================================== OPEN *)
(* What is claimed in this file cannot be mistaken for the whole of C14: every theorem of the
   hand-model section below is about the HAND model of prelude.scm (Model/PreludeLists.v,
   validated by the correspondence check, interface 40), to be re-established over the
   generated prelude run by the VM model.  Within the hand model every procedure now has a
   theorem: list length cadr (work package lv), memq memv member assq assv assoc (c19b),
   caar cdar cddr map for-each (c19c, at the end of this file).  Still not proved: an
   abstract (R7RS eqv?) reading of memv / assv for immediate keys; map / for-each on
   argument lists whose shortest one is improper (an error is reported: not stated). *)

(* ==========================================================================
   HAND MODEL SECTION.  The theorem below is about Model/PreludeLists.v, the hand
   model of prelude.scm:147-258 that is validated by the correspondence check only; it is
   to be re-established over the generated prelude run by the VM model.
   ========================================================================== *)
Theorem C14_handmodel_list : forall s args,
  values_are_refs s -> Forall (val_ok s) args ->
  exists r s' locs, MW.Model.PreludeLists.p_list args s = ROk r s' /\
    aprefix (abs s') (absv s' r) locs (map (absv s) args) (AImm VNil) /\ fresh_in s locs /\
    pres s s' /\ values_are_refs s'.
Proof. exact prelude_list_spec. Qed.
Print Assumptions C14_handmodel_list.

Theorem C14_handmodel_length : forall fuel s v xs e,
  values_are_refs s -> val_ok s v -> sp s < scap s ->
  achain (abs s) (absv s v) xs e -> (length xs + 1 <= fuel)%nat ->
  (e = AImm VNil ->
     exists s', MW.Model.PreludeLists.p_length fuel [v] s = ROk (VNum (Fixnum (Z.of_nat (length xs)))) s' /\
                hp s' = hp s /\ st s' = st s) /\
  (e <> AImm VNil -> render_fail (MW.Model.PreludeLists.p_length fuel [v] s)).
Proof. exact prelude_length_spec. Qed.
Print Assumptions C14_handmodel_length.

Theorem C14_handmodel_cadr : forall fuel s o a d a2 d2,
  sp s < scap s ->
  heap_deref (hp s) o = Ok (VPair a d) -> heap_get (hp s) d = Ok (VPair a2 d2) ->
  exists s', MW.Model.PreludeLists.p_cadr fuel [o] s = ROk (VPtr a2) s' /\ hp s' = hp s /\ st s' = st s.
Proof. exact prelude_cadr_spec. Qed.
Print Assumptions C14_handmodel_cadr.

(* ---- memq memv member assq assv assoc (prelude.scm:159-196; Proofs/PreludeMemProofs.v).
   member: on a proper list of plain data (the fuel covers the depth of the data and the
   length of the list) the result is #f and no element is equal? to the key, or it is the
   i-th tail of the list, the i-th element is equal? to the key and no earlier one is; the
   heap is unchanged.  This is the statement that was kept OPEN as [prelude_member_stmt]. *)
Theorem C14_handmodel_member : forall fuel s x l xs e,
  values_are_refs s -> sym_interned s -> val_ok s x -> val_ok s l -> sp s < scap s ->
  achain (abs s) (absv s l) xs e -> (forall n, In n xs -> exists k, adatum s n k /\ (2 * k + 2 < fuel)%nat) ->
  (exists k, adatum s (absv s x) k /\ (2 * k + 2 < fuel)%nat) -> (length xs + 1 < fuel)%nat ->
  e = AImm VNil ->
  exists r s', MW.Model.PreludeLists.p_mem fuel (equal_b fuel) [x; l] s = ROk r s' /\ hp s' = hp s /\
    ((forall n, In n xs -> ~ aequal s n (absv s x)) /\ absv s r = AImm (VBool false) \/
     exists i, atail (abs s) (absv s l) i (absv s r) /\
       (exists n, nth_error xs i = Some n /\ aequal s n (absv s x)) /\
       (forall j n, (j < i)%nat -> nth_error xs j = Some n -> ~ aequal s n (absv s x))).
Proof. exact prelude_member_spec. Qed.
Print Assumptions C14_handmodel_member.

(* assoc: the first ELEMENT that is a pair whose car is equal? to the key (elements that are
   not pairs are skipped, prelude.scm:177-196), or #f; [akey_hit s x n]: n is a pair location
   whose car is equal? to x *)
Theorem C14_handmodel_assoc : forall fuel s x al xs e,
  values_are_refs s -> sym_interned s -> val_ok s x -> val_ok s al -> sp s < scap s ->
  achain (abs s) (absv s al) xs e ->
  (forall n p k v, In n xs -> n = ALoc (LPair p) -> a_pair (abs s) p = Some (k, v) ->
     exists d, adatum s k d /\ (2 * d + 2 < fuel)%nat) ->
  (exists k, adatum s (absv s x) k /\ (2 * k + 2 < fuel)%nat) -> (length xs + 1 < fuel)%nat ->
  e = AImm VNil ->
  exists r s', MW.Model.PreludeLists.p_ass fuel (equal_b fuel) [x; al] s = ROk r s' /\ hp s' = hp s /\
    ((forall n, In n xs -> ~ akey_hit s (absv s x) n) /\ absv s r = AImm (VBool false) \/
     exists i n, nth_error xs i = Some n /\ absv s r = n /\ akey_hit s (absv s x) n /\
       (forall j m, (j < i)%nat -> nth_error xs j = Some m -> ~ akey_hit s (absv s x) m)).
Proof. exact prelude_assoc_spec. Qed.
Print Assumptions C14_handmodel_assoc.

(* memq / memv and assq / assv ([eq_b] and [eqv_b] are the same function, predicate.rs:130-149).
   marwood's eqv? is not R7RS eqv? on every value (documented above: two distinct pairs with
   identical field cells, two equal strings), so these are stated against the machine's own
   decision [eqv_true s x a] := "eqv x a answers #t in s" (eqv reads heap and string table
   only), on the concrete chain of pair cells [pchain] ((car address, cdr address) per pair):
   the result is the i-th tail / the i-th element for the FIRST i whose car (key) is eqv? to
   x, or #f when none is; heap and tables unchanged. *)
Theorem C14_handmodel_memv : forall fuel s x l cells e,
  values_are_refs s -> sym_interned s -> val_ok s x -> val_ok s l -> sp s < scap s ->
  pchain (hp s) l cells e -> heap_deref (hp s) e = Ok VNil ->
  Forall (fun ad => exists k, adatum s (absv s (VPtr (fst ad))) k) cells ->
  (exists k, adatum s (absv s x) k) -> (length cells + 1 <= fuel)%nat ->
  exists r s', MW.Model.PreludeLists.p_mem fuel eqv_b [x; l] s = ROk r s' /\ hp s' = hp s /\ st s' = st s /\
    ((forall ad, In ad cells -> ~ eqv_true s x (VPtr (fst ad))) /\ r = VBool false \/
     exists i ad, nth_error cells i = Some ad /\ r = tail_at l cells i /\
       atail (abs s) (absv s l) i (absv s r) /\ eqv_true s x (VPtr (fst ad)) /\
       (forall j ad', (j < i)%nat -> nth_error cells j = Some ad' -> ~ eqv_true s x (VPtr (fst ad')))).
Proof. exact prelude_memv_spec. Qed.
Print Assumptions C14_handmodel_memv.

Theorem C14_handmodel_assv : forall fuel s x al cells e,
  values_are_refs s -> sym_interned s -> val_ok s x -> val_ok s al -> sp s < scap s ->
  pchain (hp s) al cells e -> heap_deref (hp s) e = Ok VNil ->
  (forall ad k v, In ad cells -> heap_get (hp s) (fst ad) = Ok (VPair k v) ->
     exists d, adatum s (absv s (VPtr k)) d) ->
  (exists k, adatum s (absv s x) k) -> (length cells + 1 <= fuel)%nat ->
  exists r s', MW.Model.PreludeLists.p_ass fuel eqv_b [x; al] s = ROk r s' /\ hp s' = hp s /\ st s' = st s /\
    ((forall ad, In ad cells -> ~ entry_hit s (eqv_true s x) ad) /\ r = VBool false \/
     exists i ad, nth_error cells i = Some ad /\ r = VPtr (fst ad) /\ entry_hit s (eqv_true s x) ad /\
       (forall j ad', (j < i)%nat -> nth_error cells j = Some ad' -> ~ entry_hit s (eqv_true s x) ad')).
Proof. exact prelude_assv_spec. Qed.
Print Assumptions C14_handmodel_assv.
Example C14_memq_is_memv : eq_b = eqv_b. Proof. reflexivity. Qed.

(* the generic form behind the four theorems: ANY comparison builtin that decides a predicate
   P on the element it is called with (and leaves heap and tables alone) makes mem_go return
   the first tail whose car satisfies P; an improper list without a hit is an error *)
Theorem C14_handmodel_mem_generic : forall fuel s0 cmp obj (ok P : vcell -> Prop),
  (forall s a, ok a -> hp s = hp s0 -> st s = st s0 -> sp s < scap s ->
     exists b s', MW.Model.PreludeLists.callb cmp [a; obj] s = ROk (VBool b) s' /\ hp s' = hp s /\ st s' = st s /\
                  sp s' < scap s' /\ (b = true <-> P a)) ->
  forall l cells e, pchain (hp s0) l cells e ->
  forall s f ce, hp s = hp s0 -> st s = st s0 -> sp s < scap s -> (length cells + 1 <= f)%nat ->
    Forall (fun ad => ok (VPtr (fst ad))) cells ->
    heap_deref (hp s0) e = Ok ce ->
    (exists i, first_hit P cells i /\
       exists s', MW.Model.PreludeLists.mem_go fuel cmp f obj l s = ROk (tail_at l cells i) s' /\ hp s' = hp s0 /\ st s' = st s0)
    \/ (no_hit P cells /\
        if is_nil ce
        then exists s', MW.Model.PreludeLists.mem_go fuel cmp f obj l s = ROk (VBool false) s' /\ hp s' = hp s0 /\ st s' = st s0
        else render_fail (MW.Model.PreludeLists.mem_go fuel cmp f obj l s)).
Proof. exact mem_go_spec. Qed.
Print Assumptions C14_handmodel_mem_generic.

(* non-vacuity: (member 2 (list 1 2 3)) = (2 3), (memv 3 (list 1 2 3)) = (3), (member 9 ..) = #f,
   (assoc 2 (list (cons 1 10) (cons 2 20))) = (2 . 20), (assv 5 ..) = #f on the model machine *)
Definition ex_num (z : Z) : vcell := VNum (Fixnum z).
Definition ex_show (r : res vcell) : option cell :=
  match r with
  | ROk v s => match get_as_cell builtin_name_default (hp s) (st s) 50 v with Ok c => Some c | _ => None end
  | _ => None
  end.
Example C14_member_runs :
  match MW.Model.PreludeLists.p_list [ex_num 1; ex_num 2; ex_num 3] (vm_empty 64) with
  | ROk l s1 =>
      ex_show (MW.Model.PreludeLists.p_mem 50 (equal_b 50) [ex_num 2; l] s1)
        = Some (new_list [CNum (Fixnum 2); CNum (Fixnum 3)]) /\
      ex_show (MW.Model.PreludeLists.p_mem 50 eqv_b [ex_num 3; l] s1) = Some (new_list [CNum (Fixnum 3)]) /\
      ex_show (MW.Model.PreludeLists.p_mem 50 (equal_b 50) [ex_num 9; l] s1) = Some (CBool false)
  | _ => False
  end.
Proof. vm_compute. repeat split. Qed.
Example C14_assoc_runs :
  match (dom e1 <- apply_builtin cons_ [ex_num 1; ex_num 10];
         dom e2 <- apply_builtin cons_ [ex_num 2; ex_num 20];
         MW.Model.PreludeLists.p_list [e1; e2]) (vm_empty 64) with
  | ROk al s1 =>
      ex_show (MW.Model.PreludeLists.p_ass 50 (equal_b 50) [ex_num 2; al] s1)
        = Some (CPair (CNum (Fixnum 2)) (CNum (Fixnum 20))) /\
      ex_show (MW.Model.PreludeLists.p_ass 50 eqv_b [ex_num 5; al] s1) = Some (CBool false)
  | _ => False
  end.
Proof. vm_compute. repeat split. Qed.

(* ----------------------------------------------------------------- non-vacuity *)
(* the hypotheses are satisfiable: the empty machine satisfies the invariant, and the
   machine that has just pushed two arguments is [called_with] them *)
Example C14_invariant_inhabited : values_are_refs (vm_empty 8192).
Proof. apply wf_empty. reflexivity. Qed.

Example C14_called_with_inhabited :
  let args := [VNum (Fixnum 1); VNil] in
  values_are_refs (ex_state args) /\ called_with (ex_state args) args /\
  Forall (val_ok (ex_state args)) args.
Proof.
  cbv zeta. split; [apply ex_state_ok; reflexivity|]. split.
  - vm_compute. repeat split; discriminate.
  - repeat constructor.
Qed.

(* and the conclusion is not trivially true: on that machine cons really runs *)
Example C14_cons_runs :
  exists p s', apply_builtin cons_ [VNum (Fixnum 1); VNil] (vm_empty 16) = ROk (VPtr p) s' /\
               a_pair (abs s') p = Some (AImm (VNum (Fixnum 1)), AImm VNil).
Proof. eexists. eexists. split; vm_compute; reflexivity. Qed.

(* ==========================================================================
   HAND MODEL, work package c19c: caar cdar cddr, map, for-each
   (Proofs/PreludeMapProofs.v, Proofs/PreludeMapProofs2.v).
   Vocabulary.  [inv s] = values_are_refs s /\ sp s < scap s.  [same s s']: only the stack
   moved (heap equal, and [rest]: st, globals, bp ep ip acc, out_log equal).  [quiet s s']:
   [pres s s'] (every live cell, vector, string unchanged: only fresh cells were written) and
   [rest] equal.  [anil] = AImm VNil.
   ========================================================================== *)
(* ---- caar cdar cddr (and cadr) on the abstract view: the field of the field *)
Theorem C14_handmodel_caar : forall fuel s o p x d q y e,
  inv s -> val_ok s o -> absv s o = ALoc (LPair p) -> a_pair (abs s) p = Some (x, d) ->
  x = ALoc (LPair q) -> a_pair (abs s) q = Some (y, e) ->
  exists r s', MW.Model.PreludeLists.p_caar fuel [o] s = ROk r s' /\ same s s' /\ sp s' < scap s' /\
               val_ok s r /\ absv s r = y.
Proof. exact prelude_caar_spec. Qed.
Print Assumptions C14_handmodel_caar.
Theorem C14_handmodel_cdar : forall fuel s o p x d q y e,
  inv s -> val_ok s o -> absv s o = ALoc (LPair p) -> a_pair (abs s) p = Some (x, d) ->
  x = ALoc (LPair q) -> a_pair (abs s) q = Some (y, e) ->
  exists r s', MW.Model.PreludeLists.p_cdar fuel [o] s = ROk r s' /\ same s s' /\ sp s' < scap s' /\
               val_ok s r /\ absv s r = e.
Proof. exact prelude_cdar_spec. Qed.
Print Assumptions C14_handmodel_cdar.
Theorem C14_handmodel_cddr : forall fuel s o p x d q y e,
  inv s -> val_ok s o -> absv s o = ALoc (LPair p) -> a_pair (abs s) p = Some (x, d) ->
  d = ALoc (LPair q) -> a_pair (abs s) q = Some (y, e) ->
  exists r s', MW.Model.PreludeLists.p_cddr fuel [o] s = ROk r s' /\ same s s' /\ sp s' < scap s' /\
               val_ok s r /\ absv s r = e.
Proof. exact prelude_cddr_spec. Qed.
Print Assumptions C14_handmodel_cddr.
Theorem C14_handmodel_cadr_abs : forall fuel s o p x d q y e,
  inv s -> val_ok s o -> absv s o = ALoc (LPair p) -> a_pair (abs s) p = Some (x, d) ->
  d = ALoc (LPair q) -> a_pair (abs s) q = Some (y, e) ->
  exists r s', MW.Model.PreludeLists.p_cadr fuel [o] s = ROk r s' /\ same s s' /\ sp s' < scap s' /\
               val_ok s r /\ absv s r = y.
Proof. exact prelude_cadr_abs_spec. Qed.
Print Assumptions C14_handmodel_cadr_abs.
(* an error is reported when the argument, or the field the inner accessor selects, is not a pair *)
Theorem C14_handmodel_cxxr_fail : forall fuel s o,
  inv s -> val_ok s o ->
  ((forall p, absv s o <> ALoc (LPair p)) ->
     render_fail (MW.Model.PreludeLists.p_caar fuel [o] s) /\ render_fail (MW.Model.PreludeLists.p_cadr fuel [o] s) /\
     render_fail (MW.Model.PreludeLists.p_cdar fuel [o] s) /\ render_fail (MW.Model.PreludeLists.p_cddr fuel [o] s)) /\
  (forall p x d, absv s o = ALoc (LPair p) -> a_pair (abs s) p = Some (x, d) ->
     ((forall q, x <> ALoc (LPair q)) ->
        render_fail (MW.Model.PreludeLists.p_caar fuel [o] s) /\ render_fail (MW.Model.PreludeLists.p_cdar fuel [o] s)) /\
     ((forall q, d <> ALoc (LPair q)) ->
        render_fail (MW.Model.PreludeLists.p_cadr fuel [o] s) /\ render_fail (MW.Model.PreludeLists.p_cddr fuel [o] s))).
Proof. exact prelude_cxxr_fail. Qed.
Print Assumptions C14_handmodel_cxxr_fail.
Example C14_cxxr_runs :
  match (dom e1 <- apply_builtin cons_ [ex_num 1; ex_num 2];
         dom e2 <- apply_builtin cons_ [ex_num 3; ex_num 4];
         apply_builtin cons_ [e1; e2]) (vm_empty 64) with
  | ROk o s1 =>
      ex_show (MW.Model.PreludeLists.p_caar 9 [o] s1) = Some (CNum (Fixnum 1)) /\
      ex_show (MW.Model.PreludeLists.p_cdar 9 [o] s1) = Some (CNum (Fixnum 2)) /\
      ex_show (MW.Model.PreludeLists.p_cadr 9 [o] s1) = Some (CNum (Fixnum 3)) /\
      ex_show (MW.Model.PreludeLists.p_cddr 9 [o] s1) = Some (CNum (Fixnum 4)) /\
      render_fail (MW.Model.PreludeLists.p_caar 9 [ex_num 5] s1)
  | _ => False
  end.
Proof. vm_compute. repeat split. Qed.
(* the hypotheses of caar / cdar are satisfiable: a machine holding ((1 . 2) . 3) *)
Example C14_cxxr_hyps_inhabited :
  exists s o p x d q y e,
    inv s /\ val_ok s o /\ absv s o = ALoc (LPair p) /\ a_pair (abs s) p = Some (x, d) /\
    x = ALoc (LPair q) /\ a_pair (abs s) q = Some (y, e) /\ y = AImm (VNum (Fixnum 1)).
Proof. exact cxxr_hyps_inhabited. Qed.

(* ---- map and for-each (prelude.scm:222-253).  The procedure argument is abstract,
   [fn : list vcell -> M vcell], under the hypothesis that on well-formed argument values whose
   abstract values satisfy [Pre] it returns a value and keeps the invariant and every live
   object ([pres]); it may allocate and may change registers and tables otherwise.
   [amap_rows a vs rows]: the argument lists (abstract values vs) seen row by row — while no
   list is () every list is a pair, the row is the list of the cars, the walk goes on with the
   cdrs; it stops at the first () (the shortest list; the others need not even be proper).
   [calls fn s rows ys s']: the run from s to s' is bookkeeping ([quiet]: stack moves and fresh
   cells only), then fn on argument values denoting the first row (abstract result y1, every
   live object kept), bookkeeping, fn on the second row, ... IN THIS ORDER, nothing else.
   map: the result is a NEWLY ALLOCATED proper list ([aprefix .. locs ys anil], its pairs [locs]
   not live before) of the results y1 ... yn.  for-each: the result is #<void>. *)
Theorem C14_handmodel_map : forall fuel (fn : list vcell -> M vcell) (Pre : list aval -> Prop),
  (forall s args, values_are_refs s -> sp s < scap s -> Forall (val_ok s) args -> Pre (map (absv s) args) ->
     exists r s', fn args s = ROk r s' /\ pres s s' /\ values_are_refs s' /\ sp s' < scap s' /\ val_ok s' r) ->
  forall s lists rows,
  inv s -> Forall (val_ok s) lists -> amap_rows (abs s) (map (absv s) lists) rows ->
  (length lists + 1 <= fuel)%nat -> (length rows + 1 <= fuel)%nat -> Forall Pre rows ->
  exists r s' ys locs, MW.Model.PreludeLists.p_map fuel fn lists s = ROk r s' /\ calls fn s rows ys s' /\
    inv s' /\ val_ok s' r /\ aprefix (abs s') (absv s' r) locs ys anil /\ fresh_in s locs.
Proof. exact prelude_map_spec. Qed.
Print Assumptions C14_handmodel_map.

Theorem C14_handmodel_for_each : forall fuel (fn : list vcell -> M vcell) (Pre : list aval -> Prop),
  (forall s args, values_are_refs s -> sp s < scap s -> Forall (val_ok s) args -> Pre (map (absv s) args) ->
     exists r s', fn args s = ROk r s' /\ pres s s' /\ values_are_refs s' /\ sp s' < scap s' /\ val_ok s' r) ->
  forall s lists rows,
  inv s -> Forall (val_ok s) lists -> amap_rows (abs s) (map (absv s) lists) rows ->
  (length lists + 1 <= fuel)%nat -> (length rows + 1 <= fuel)%nat -> Forall Pre rows ->
  exists s' ys, MW.Model.PreludeLists.p_for_each fuel fn lists s = ROk VVoid s' /\ calls fn s rows ys s' /\ inv s'.
Proof. exact prelude_for_each_spec. Qed.
Print Assumptions C14_handmodel_for_each.

(* what the trace gives: every live object survives the whole run, one result per row *)
Theorem C14_calls_pres : forall fn s rows ys s', calls fn s rows ys s' -> pres s s'.
Proof. exact calls_pres. Qed.
Print Assumptions C14_calls_pres.
Theorem C14_calls_lengths : forall fn s rows ys s', calls fn s rows ys s' -> length ys = length rows.
Proof. exact calls_lengths. Qed.
Print Assumptions C14_calls_lengths.

(* the one-list form: l a proper list x1 ... xn ([row1 x] = [x]) *)
Theorem C14_handmodel_map_one : forall fuel (fn : list vcell -> M vcell) (Pre : list aval -> Prop),
  (forall s args, values_are_refs s -> sp s < scap s -> Forall (val_ok s) args -> Pre (map (absv s) args) ->
     exists r s', fn args s = ROk r s' /\ pres s s' /\ values_are_refs s' /\ sp s' < scap s' /\ val_ok s' r) ->
  forall s l xs,
  inv s -> val_ok s l -> achain (abs s) (absv s l) xs anil ->
  (length xs + 2 <= fuel)%nat -> Forall (fun x => Pre [x]) xs ->
  exists r s' ys locs, MW.Model.PreludeLists.p_map fuel fn [l] s = ROk r s' /\ calls fn s (map row1 xs) ys s' /\
    inv s' /\ val_ok s' r /\ aprefix (abs s') (absv s' r) locs ys anil /\ fresh_in s locs /\
    length ys = length xs.
Proof. exact prelude_map_one. Qed.
Print Assumptions C14_handmodel_map_one.

(* the two-list form ([row2 (x, y)] = [x; y]): stops at the shorter list *)
Theorem C14_handmodel_map_two : forall fuel (fn : list vcell -> M vcell) (Pre : list aval -> Prop),
  (forall s args, values_are_refs s -> sp s < scap s -> Forall (val_ok s) args -> Pre (map (absv s) args) ->
     exists r s', fn args s = ROk r s' /\ pres s s' /\ values_are_refs s' /\ sp s' < scap s' /\ val_ok s' r) ->
  forall s l1 l2 xs ys,
  inv s -> val_ok s l1 -> val_ok s l2 ->
  achain (abs s) (absv s l1) xs anil -> achain (abs s) (absv s l2) ys anil ->
  (3 <= fuel)%nat -> (Nat.min (length xs) (length ys) + 1 <= fuel)%nat ->
  Forall (fun xy => Pre (row2 xy)) (combine xs ys) ->
  exists r s' zs locs, MW.Model.PreludeLists.p_map fuel fn [l1; l2] s = ROk r s' /\
    calls fn s (map row2 (combine xs ys)) zs s' /\
    inv s' /\ val_ok s' r /\ aprefix (abs s') (absv s' r) locs zs anil /\ fresh_in s locs /\
    length zs = Nat.min (length xs) (length ys).
Proof. exact prelude_map_two. Qed.
Print Assumptions C14_handmodel_map_two.

Theorem C14_handmodel_for_each_one : forall fuel (fn : list vcell -> M vcell) (Pre : list aval -> Prop),
  (forall s args, values_are_refs s -> sp s < scap s -> Forall (val_ok s) args -> Pre (map (absv s) args) ->
     exists r s', fn args s = ROk r s' /\ pres s s' /\ values_are_refs s' /\ sp s' < scap s' /\ val_ok s' r) ->
  forall s l xs,
  inv s -> val_ok s l -> achain (abs s) (absv s l) xs anil ->
  (length xs + 2 <= fuel)%nat -> Forall (fun x => Pre [x]) xs ->
  exists s' ys, MW.Model.PreludeLists.p_for_each fuel fn [l] s = ROk VVoid s' /\
    calls fn s (map row1 xs) ys s' /\ inv s'.
Proof. exact prelude_for_each_one. Qed.
Print Assumptions C14_handmodel_for_each_one.

Theorem C14_handmodel_for_each_two : forall fuel (fn : list vcell -> M vcell) (Pre : list aval -> Prop),
  (forall s args, values_are_refs s -> sp s < scap s -> Forall (val_ok s) args -> Pre (map (absv s) args) ->
     exists r s', fn args s = ROk r s' /\ pres s s' /\ values_are_refs s' /\ sp s' < scap s' /\ val_ok s' r) ->
  forall s l1 l2 xs ys,
  inv s -> val_ok s l1 -> val_ok s l2 ->
  achain (abs s) (absv s l1) xs anil -> achain (abs s) (absv s l2) ys anil ->
  (3 <= fuel)%nat -> (Nat.min (length xs) (length ys) + 1 <= fuel)%nat ->
  Forall (fun xy => Pre (row2 xy)) (combine xs ys) ->
  exists s' zs, MW.Model.PreludeLists.p_for_each fuel fn [l1; l2] s = ROk VVoid s' /\
    calls fn s (map row2 (combine xs ys)) zs s' /\ inv s'.
Proof. exact prelude_for_each_two. Qed.
Print Assumptions C14_handmodel_for_each_two.

(* non-vacuity.  The hypothesis on fn holds of a procedure that allocates, (lambda (a b) (cons a b))
   entered as a direct call of the builtin ([fn_cons], Pre = two arguments), and of the identity *)
Theorem C14_map_fn_inhabited : forall s args,
  values_are_refs s -> sp s < scap s -> Forall (val_ok s) args -> two_args (map (absv s) args) ->
  exists r s', fn_cons args s = ROk r s' /\ pres s s' /\ values_are_refs s' /\ sp s' < scap s' /\ val_ok s' r.
Proof. exact fn_cons_ok. Qed.
Print Assumptions C14_map_fn_inhabited.
(* ... the hypotheses on the lists hold on a machine that built (1 2 3) and (4 5) *)
Example C14_map_hyps_inhabited :
  exists s l1 l2 xs ys,
    inv s /\ val_ok s l1 /\ val_ok s l2 /\
    achain (abs s) (absv s l1) xs anil /\ achain (abs s) (absv s l2) ys anil /\
    length xs = 3%nat /\ length ys = 2%nat /\ Forall (fun xy => two_args (row2 xy)) (combine xs ys).
Proof. exact map_hyps_inhabited. Qed.
(* ... and the model really runs: (map cons '(1 2 3) '(4 5)) = ((1 . 4) (2 . 5)), (map id '(1 2 3)) =
   (1 2 3), (for-each cons ..) = #<void> *)
Example C14_map_runs :
  match (dom l1 <- MW.Model.PreludeLists.p_list [ex_num 1; ex_num 2; ex_num 3];
         dom l2 <- MW.Model.PreludeLists.p_list [ex_num 4; ex_num 5];
         ret (l1, l2)) (vm_empty 64) with
  | ROk (l1, l2) s1 =>
      ex_show (MW.Model.PreludeLists.p_map 9 fn_cons [l1; l2] s1)
        = Some (new_list [CPair (CNum (Fixnum 1)) (CNum (Fixnum 4)); CPair (CNum (Fixnum 2)) (CNum (Fixnum 5))]) /\
      ex_show (MW.Model.PreludeLists.p_map 9 fn_id [l1] s1)
        = Some (new_list [CNum (Fixnum 1); CNum (Fixnum 2); CNum (Fixnum 3)]) /\
      ex_show (MW.Model.PreludeLists.p_for_each 9 fn_cons [l1; l2] s1) = Some CVoid
  | _ => False
  end.
Proof. vm_compute. repeat split. Qed.
