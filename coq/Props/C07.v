(* C07 — a failed evaluation leaves no trace beyond its completed effects.
   Statements only (proofs: Proofs/RunProofs.v).  Model: Model/Vm.v [run_loop] /
   [run_count] (marwood/src/vm/run.rs after the fixes f6f5af0 and 9a27905), for
   ANY table of builtin procedures [ob].                                         *)
From MW Require Import Model.Base Model.Datum Model.VmTypes Model.VmBase Model.Vm Proofs.RunProofs.
Open Scope N_scope.

(* Whatever instruction failed, at whatever call depth, inside or outside a
   continuation: after the failure the stack pointer, base pointer, environment
   pointer and accumulator are those of a machine that has just completed an
   evaluation, every stack slot is wiped (the table of slots is empty: all Undefined) (no dead frame is a GC root, no later stack
   trace can list a frame of the failed evaluation), and heap, Rc payloads, globals
   and output log are exactly those at the failing instruction [s0]: the completed
   effects and nothing else.  Hence k consecutive failures leave sp = 0 for every k:
   nothing accumulates. *)
Theorem C07_failed_exit_canonical : forall ob fuel cyc count s e msg tr s',
  run_loop ob fuel cyc count s = ROk (Failed e msg tr) s' ->
  sp s' = 0 /\ bp s' = 0 /\ ep s' = USIZE_MAX /\ acc s' = VUndef /\
  stack s' = tempty /\
  exists s0, scap s' = scap s0 /\ hp s' = hp s0 /\ st s' = st s0 /\
             g_bind s' = g_bind s0 /\ g_slots s' = g_slots s0 /\ out_log s' = out_log s0.
Proof. exact failed_exit_canonical. Qed.
Print Assumptions C07_failed_exit_canonical.

(* a completed evaluation wipes the stack as well *)
Theorem C07_done_stack_wiped : forall ob fuel cyc count s c s',
  run_loop ob fuel cyc count s = ROk (Done c) s' -> stack s' = tempty.
Proof. exact done_stack_wiped. Qed.
Print Assumptions C07_done_stack_wiped.

(* an evaluation that fails before it runs (compile error) reports no stack trace:
   it cannot show the trace of an earlier failure (fix 9a27905) *)
Theorem C07_compile_failure_has_no_trace : forall ob fuel e s code msg s1,
  prepare_eval e s = RErr code msg s1 ->
  eval ob fuel e s = ROk (Failed code msg None) s1.
Proof. intros ob fuel e s code msg s1 H. unfold eval. rewrite H. reflexivity. Qed.
Print Assumptions C07_compile_failure_has_no_trace.
