(* C07 — a failed evaluation leaves no trace beyond its completed effects.
   Statements only (proofs: Proofs/RunProofs.v).  Model: Model/Vm.v [run_loop] /
   [run_count] (marwood/src/vm/run.rs after the fixes f6f5af0 and 9a27905), for
   ANY table of builtin procedures [ob].                                         *)
From MW Require Import Model.Base Model.Datum Model.VmTypes Model.VmBase Model.Vm Model.Builtins
  Proofs.RunProofs Proofs.RunProofs2.
Open Scope N_scope.

(* Whatever instruction failed, at whatever call depth, inside or outside a
   continuation: after the failure the stack pointer, base pointer, environment
   pointer and accumulator are those of a machine that has just completed an
   evaluation, every stack slot is wiped (the table of slots is empty: all Undefined) (no dead frame is a GC root, no later stack
   trace can list a frame of the failed evaluation), and heap, Rc payloads, globals
   and output log are exactly those at the failing instruction [s0]: the completed
   effects and nothing else.  Hence k consecutive failures leave sp = 0 for every k:
   nothing accumulates. *)
Theorem C07_failed_exit_canonical : forall ob fuel cyc count s e msg tr s',
  run_loop ob fuel cyc count s = ROk (Failed e msg tr) s' ->
  sp s' = 0 /\ bp s' = 0 /\ ep s' = USIZE_MAX /\ acc s' = VUndef /\
  stack s' = tempty /\
  exists s0, scap s' = scap s0 /\ hp s' = hp s0 /\ st s' = st s0 /\
             g_bind s' = g_bind s0 /\ g_slots s' = g_slots s0 /\ out_log s' = out_log s0.
Proof. exact failed_exit_canonical. Qed.
Print Assumptions C07_failed_exit_canonical.

(* a completed evaluation wipes the stack as well *)
Theorem C07_done_stack_wiped : forall ob fuel cyc count s c s',
  run_loop ob fuel cyc count s = ROk (Done c) s' -> stack s' = tempty.
Proof. exact done_stack_wiped. Qed.
Print Assumptions C07_done_stack_wiped.

(* an evaluation that fails before it runs (compile error) reports no stack trace:
   it cannot show the trace of an earlier failure (fix 9a27905) *)
Theorem C07_compile_failure_has_no_trace : forall ob fuel e s code msg s1,
  prepare_eval e s = RErr code msg s1 ->
  eval ob fuel e s = ROk (Failed code msg None) s1.
Proof. intros ob fuel e s code msg s1 H. unfold eval. rewrite H. reflexivity. Qed.
Print Assumptions C07_compile_failure_has_no_trace.


(* =================================================================================
   The failure exit as a state EQUATION (proofs: Proofs/RunProofs2.v).
   [reset_regs s] = s with the stack cleared, sp = 0, bp = 0, ep = usize::MAX,
   acc = Undefined — the five assignments of the error arm of run_count (run.rs:44-55) —
   and every other field (heap, Rc store, global bindings and slots, stack capacity, ip,
   output log) untouched.
   ================================================================================= *)
Theorem C07_reset_regs_unfold : forall s,
  reset_regs s = with_acc (with_ep (with_bp (with_stack s tempty 0) 0) USIZE_MAX) VUndef /\
  reset_regs s = mk_vm (hp s) (st s) (g_bind s) (g_slots s) tempty (scap s) 0 0 USIZE_MAX (ip s) VUndef (out_log s).
Proof. intros s. split; reflexivity. Qed.
Print Assumptions C07_reset_regs_unfold.

(* A run that ends in a failure decomposes exactly: n instructions completed (steps n s =
   Some s_n: none of them halted or failed), instruction n+1 returned Err in the state s_f
   (the Rust mutates the Vm in place: s_f is the machine at the point where run_one gave up —
   what that instruction had already done, e.g. operands popped by a builtin, is part of the
   "completed effects"), the stack trace is the one of s_f, and the machine the caller gets
   back IS reset_regs s_f.  So what a failed evaluation leaves changed is what the executed
   instructions changed, with the registers and the stack reset: nothing else. *)
Theorem C07_failure_state_equation : forall ob fuel cyc count s e msg tr s',
  run_loop ob fuel cyc count s = ROk (Failed e msg tr) s' ->
  exists n s_n s_f t, (n < fuel)%nat /\ steps ob n s = Some s_n /\ run_one ob s_n = RErr e msg s_f /\
    stack_trace s_f = Ok t /\ tr = Some t /\ s' = reset_regs s_f.
Proof. exact failed_exit_equation. Qed.
Print Assumptions C07_failure_state_equation.

(* conversely (uninterrupted run): every such decomposition IS the outcome *)
Theorem C07_failure_state_converse : forall ob fuel cyc s n s_n s_f e msg t,
  (n < fuel)%nat -> steps ob n s = Some s_n -> run_one ob s_n = RErr e msg s_f -> stack_trace s_f = Ok t ->
  run_loop ob fuel cyc None s = ROk (Failed e msg (Some t)) (reset_regs s_f).
Proof. exact failed_exit_converse. Qed.
Print Assumptions C07_failure_state_converse.

(* globals, heap contents, Rc payloads, output log, stack capacity: those of the failing
   instruction's state; registers and stack: those of a machine between evaluations *)
Theorem C07_failure_preserves_globals_and_heap_contents : forall ob fuel cyc count s e msg tr s',
  run_loop ob fuel cyc count s = ROk (Failed e msg tr) s' ->
  exists n s_n s_f, steps ob n s = Some s_n /\ run_one ob s_n = RErr e msg s_f /\
    hp s' = hp s_f /\ st s' = st s_f /\ g_bind s' = g_bind s_f /\ g_slots s' = g_slots s_f /\
    out_log s' = out_log s_f /\ scap s' = scap s_f /\ ip s' = ip s_f /\
    sp s' = 0 /\ bp s' = 0 /\ ep s' = USIZE_MAX /\ acc s' = VUndef /\ stack s' = tempty.
Proof. exact failure_preserves. Qed.
Print Assumptions C07_failure_preserves_globals_and_heap_contents.

(* the same for Vm::eval (run-time failures carry a trace; a compile-time failure is
   C07_compile_failure_has_no_trace) *)
Theorem C07_eval_failure_state_equation : forall ob fuel c s e msg t s',
  eval ob fuel c s = ROk (Failed e msg (Some t)) s' ->
  exists p n s_n s_f, prepare_eval c s = ROk tt p /\ (n < fuel)%nat /\ steps ob n p = Some s_n /\
    run_one ob s_n = RErr e msg s_f /\ stack_trace s_f = Ok t /\ s' = reset_regs s_f.
Proof. exact eval_failed_equation. Qed.
Print Assumptions C07_eval_failure_state_equation.

(* k consecutive failing evaluations — any forms, any fuel, each started on the machine the
   previous one left ([fail_seq]) — leave sp = 0, bp = 0, ep = usize::MAX, acc = Undefined and
   an empty stack, for every k >= 1: nothing accumulates *)
Theorem C07_fail_seq_unfold : forall ob k s s',
  fail_seq ob k s s' <->
  match k with
  | O => s' = s
  | S k' => exists s1 fuel c e msg t,
      eval ob fuel c s = ROk (Failed e msg (Some t)) s1 /\ fail_seq ob k' s1 s'
  end.
Proof.
  intros ob k s s'. split.
  - intros H. destruct H as [s|k s s1 s2 fuel c e msg t He Hs]; [reflexivity|].
    exists s1, fuel, c, e, msg, t. auto.
  - destruct k as [|k]; [intros ->; constructor|].
    intros (s1 & fuel & c & e & msg & t & He & Hs). econstructor; eassumption.
Qed.
Print Assumptions C07_fail_seq_unfold.

Theorem C07_k_failures_no_accumulation : forall ob k s s',
  fail_seq ob k s s' -> (0 < k)%nat ->
  sp s' = 0 /\ bp s' = 0 /\ ep s' = USIZE_MAX /\ acc s' = VUndef /\ stack s' = tempty.
Proof. exact k_failures_no_accumulation. Qed.
Print Assumptions C07_k_failures_no_accumulation.

(* the stack CAPACITY (Stack.stack.len()).  The error arm does not touch it (equation above:
   scap s' = scap s_f).  [cap_monotone ob]: no instruction and no compilation shrinks the
   vector — stack.rs only ever grows it (push doubles); this is a HYPOTHESIS here (OPEN: it has
   to be established for the builtin table, instruction by instruction).  Under it the
   capacity after a failed evaluation is the MAXIMUM over every state the evaluation went
   through (it grew only where an instruction grew it, never by the failure), and it is
   monotone along k failing evaluations. *)
Theorem C07_failure_capacity_is_max : forall ob fuel c s e msg t s',
  cap_monotone ob ->
  eval ob fuel c s = ROk (Failed e msg (Some t)) s' ->
  scap s <= scap s' /\
  exists p n, prepare_eval c s = ROk tt p /\ scap p <= scap s' /\
    forall j s_j, (j <= n)%nat -> steps ob j p = Some s_j -> scap s_j <= scap s'.
Proof. exact failure_capacity_is_max. Qed.
Print Assumptions C07_failure_capacity_is_max.

Theorem C07_k_failures_capacity : forall ob k s s',
  cap_monotone ob -> fail_seq ob k s s' -> scap s <= scap s'.
Proof. exact k_failures_capacity. Qed.
Print Assumptions C07_k_failures_capacity.

(* non-vacuity on vm_empty 8192 with the real builtin table:
   (if (define x '(#t)) (nosuch 1) 2) completes the definition of x, then fails (nosuch is
   unbound) at call depth 1: the global x stays bound to its value, sp = bp = 0, the stack is
   empty, the capacity is the initial 256; three such evaluations in a row form a fail_seq *)
Example C07_example_failure :
  match eval other_builtin 100 rx_fail (vm_empty 8192) with
  | ROk (Failed _ _ (Some t)) s' =>
      length t = 2%nat /\ sp s' = 0 /\ bp s' = 0 /\ stack s' = tempty /\ scap s' = 256 /\
      g_slots (vm_empty 8192) = [] /\ (exists p, g_slots s' = [VPtr p; VUndef])
  | _ => False
  end.
Proof. vm_compute. repeat split. eexists; reflexivity. Qed.

Example C07_example_three_failures :
  exists s3, fail_seq other_builtin 3 (vm_empty 8192) s3 /\ sp s3 = 0 /\ bp s3 = 0 /\ scap s3 = 256.
Proof.
  eexists. split.
  - eapply (fs_S other_builtin _ _ _ _ 100%nat rx_fail); [vm_compute; reflexivity|].
    eapply (fs_S other_builtin _ _ _ _ 100%nat rx_fail); [vm_compute; reflexivity|].
    eapply (fs_S other_builtin _ _ _ _ 100%nat rx_fail); [vm_compute; reflexivity|]. apply fs_0.
  - vm_compute. auto.
Qed.
