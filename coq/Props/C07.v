(* C07 — a failed evaluation leaves no trace beyond its completed effects.
   Statements only (proofs: Proofs/RunProofs.v).  Model: Model/Vm.v [run_loop] /
   [run_count] (marwood/src/vm/run.rs after the fixes f6f5af0 and 9a27905), for
   ANY table of builtin procedures [ob].                                         *)
From MW Require Import Model.Base Model.Datum Model.VmTypes Model.VmBase Model.Vm Model.Builtins
  Proofs.RunProofs Proofs.RunProofs2 Proofs.MonoBase Proofs.MonoCompile Proofs.MonoStep Proofs.MonoBuiltins
  Proofs.MonoAll Proofs.MonoExample.
Open Scope N_scope.

(* Whatever instruction failed, at whatever call depth, inside or outside a
   continuation: after the failure the stack pointer, base pointer, environment
   pointer and accumulator are those of a machine that has just completed an
   evaluation, every stack slot is wiped (the table of slots is empty: all Undefined) (no dead frame is a GC root, no later stack
   trace can list a frame of the failed evaluation), and heap, Rc payloads, globals
   and output log are exactly those at the failing instruction [s0]: the completed
   effects and nothing else.  Hence k consecutive failures leave sp = 0 for every k:
   nothing accumulates. *)
Theorem C07_failed_exit_canonical : forall ob fuel cyc count s e msg tr s',
  run_loop ob fuel cyc count s = ROk (Failed e msg tr) s' ->
  sp s' = 0 /\ bp s' = 0 /\ ep s' = USIZE_MAX /\ acc s' = VUndef /\
  stack s' = tempty /\
  exists s0, scap s' = scap s0 /\ hp s' = hp s0 /\ st s' = st s0 /\
             g_bind s' = g_bind s0 /\ g_slots s' = g_slots s0 /\ out_log s' = out_log s0.
Proof. exact failed_exit_canonical. Qed.
Print Assumptions C07_failed_exit_canonical.

(* a completed evaluation wipes the stack as well *)
Theorem C07_done_stack_wiped : forall ob fuel cyc count s c s',
  run_loop ob fuel cyc count s = ROk (Done c) s' -> stack s' = tempty.
Proof. exact done_stack_wiped. Qed.
Print Assumptions C07_done_stack_wiped.

(* an evaluation that fails before it runs (compile error) reports no stack trace:
   it cannot show the trace of an earlier failure (fix 9a27905) *)
Theorem C07_compile_failure_has_no_trace : forall ob fuel e s code msg s1,
  prepare_eval e s = RErr code msg s1 ->
  eval ob fuel e s = ROk (Failed code msg None) s1.
Proof. intros ob fuel e s code msg s1 H. unfold eval. rewrite H. reflexivity. Qed.
Print Assumptions C07_compile_failure_has_no_trace.


(* =================================================================================
   The failure exit as a state EQUATION (proofs: Proofs/RunProofs2.v).
   [reset_regs s] = s with the stack cleared, sp = 0, bp = 0, ep = usize::MAX,
   acc = Undefined — the five assignments of the error arm of run_count (run.rs:44-55) —
   and every other field (heap, Rc store, global bindings and slots, stack capacity, ip,
   output log) untouched.
   ================================================================================= *)
Theorem C07_reset_regs_unfold : forall s,
  reset_regs s = with_acc (with_ep (with_bp (with_stack s tempty 0) 0) USIZE_MAX) VUndef /\
  reset_regs s = mk_vm (hp s) (st s) (g_bind s) (g_slots s) tempty (scap s) 0 0 USIZE_MAX (ip s) VUndef (out_log s).
Proof. intros s. split; reflexivity. Qed.
Print Assumptions C07_reset_regs_unfold.

(* A run that ends in a failure decomposes exactly: n instructions completed (steps n s =
   Some s_n: none of them halted or failed), instruction n+1 returned Err in the state s_f
   (the Rust mutates the Vm in place: s_f is the machine at the point where run_one gave up —
   what that instruction had already done, e.g. operands popped by a builtin, is part of the
   "completed effects"), the stack trace is the one of s_f, and the machine the caller gets
   back IS reset_regs s_f.  So what a failed evaluation leaves changed is what the executed
   instructions changed, with the registers and the stack reset: nothing else. *)
Theorem C07_failure_state_equation : forall ob fuel cyc count s e msg tr s',
  run_loop ob fuel cyc count s = ROk (Failed e msg tr) s' ->
  exists n s_n s_f t, (n < fuel)%nat /\ steps ob n s = Some s_n /\ run_one ob s_n = RErr e msg s_f /\
    stack_trace s_f = Ok t /\ tr = Some t /\ s' = reset_regs s_f.
Proof. exact failed_exit_equation. Qed.
Print Assumptions C07_failure_state_equation.

(* conversely (uninterrupted run): every such decomposition IS the outcome *)
Theorem C07_failure_state_converse : forall ob fuel cyc s n s_n s_f e msg t,
  (n < fuel)%nat -> steps ob n s = Some s_n -> run_one ob s_n = RErr e msg s_f -> stack_trace s_f = Ok t ->
  run_loop ob fuel cyc None s = ROk (Failed e msg (Some t)) (reset_regs s_f).
Proof. exact failed_exit_converse. Qed.
Print Assumptions C07_failure_state_converse.

(* globals, heap contents, Rc payloads, output log, stack capacity: those of the failing
   instruction's state; registers and stack: those of a machine between evaluations *)
Theorem C07_failure_preserves_globals_and_heap_contents : forall ob fuel cyc count s e msg tr s',
  run_loop ob fuel cyc count s = ROk (Failed e msg tr) s' ->
  exists n s_n s_f, steps ob n s = Some s_n /\ run_one ob s_n = RErr e msg s_f /\
    hp s' = hp s_f /\ st s' = st s_f /\ g_bind s' = g_bind s_f /\ g_slots s' = g_slots s_f /\
    out_log s' = out_log s_f /\ scap s' = scap s_f /\ ip s' = ip s_f /\
    sp s' = 0 /\ bp s' = 0 /\ ep s' = USIZE_MAX /\ acc s' = VUndef /\ stack s' = tempty.
Proof. exact failure_preserves. Qed.
Print Assumptions C07_failure_preserves_globals_and_heap_contents.

(* the same for Vm::eval (run-time failures carry a trace; a compile-time failure is
   C07_compile_failure_has_no_trace) *)
Theorem C07_eval_failure_state_equation : forall ob fuel c s e msg t s',
  eval ob fuel c s = ROk (Failed e msg (Some t)) s' ->
  exists p n s_n s_f, prepare_eval c s = ROk tt p /\ (n < fuel)%nat /\ steps ob n p = Some s_n /\
    run_one ob s_n = RErr e msg s_f /\ stack_trace s_f = Ok t /\ s' = reset_regs s_f.
Proof. exact eval_failed_equation. Qed.
Print Assumptions C07_eval_failure_state_equation.

(* k consecutive failing evaluations — any forms, any fuel, each started on the machine the
   previous one left ([fail_seq]) — leave sp = 0, bp = 0, ep = usize::MAX, acc = Undefined and
   an empty stack, for every k >= 1: nothing accumulates *)
Theorem C07_fail_seq_unfold : forall ob k s s',
  fail_seq ob k s s' <->
  match k with
  | O => s' = s
  | S k' => exists s1 fuel c e msg t,
      eval ob fuel c s = ROk (Failed e msg (Some t)) s1 /\ fail_seq ob k' s1 s'
  end.
Proof.
  intros ob k s s'. split.
  - intros H. destruct H as [s|k s s1 s2 fuel c e msg t He Hs]; [reflexivity|].
    exists s1, fuel, c, e, msg, t. auto.
  - destruct k as [|k]; [intros ->; constructor|].
    intros (s1 & fuel & c & e & msg & t & He & Hs). econstructor; eassumption.
Qed.
Print Assumptions C07_fail_seq_unfold.

Theorem C07_k_failures_no_accumulation : forall ob k s s',
  fail_seq ob k s s' -> (0 < k)%nat ->
  sp s' = 0 /\ bp s' = 0 /\ ep s' = USIZE_MAX /\ acc s' = VUndef /\ stack s' = tempty.
Proof. exact k_failures_no_accumulation. Qed.
Print Assumptions C07_k_failures_no_accumulation.

(* the stack CAPACITY (Stack.stack.len()).  The error arm does not touch it (equation above:
   scap s' = scap s_f).  [cap_monotone ob]: no instruction and no compilation shrinks the
   vector — stack.rs only ever grows it (push doubles); this is a HYPOTHESIS here (OPEN: it has
   to be established for the builtin table, instruction by instruction).  Under it the
   capacity after a failed evaluation is the MAXIMUM over every state the evaluation went
   through (it grew only where an instruction grew it, never by the failure), and it is
   monotone along k failing evaluations. *)
Theorem C07_failure_capacity_is_max : forall ob fuel c s e msg t s',
  cap_monotone ob ->
  eval ob fuel c s = ROk (Failed e msg (Some t)) s' ->
  scap s <= scap s' /\
  exists p n, prepare_eval c s = ROk tt p /\ scap p <= scap s' /\
    forall j s_j, (j <= n)%nat -> steps ob j p = Some s_j -> scap s_j <= scap s'.
Proof. exact failure_capacity_is_max. Qed.
Print Assumptions C07_failure_capacity_is_max.

Theorem C07_k_failures_capacity : forall ob k s s',
  cap_monotone ob -> fail_seq ob k s s' -> scap s <= scap s'.
Proof. exact k_failures_capacity. Qed.
Print Assumptions C07_k_failures_capacity.

(* non-vacuity on vm_empty 8192 with the real builtin table:
   (if (define x '(#t)) (nosuch 1) 2) completes the definition of x, then fails (nosuch is
   unbound) at call depth 1: the global x stays bound to its value, sp = bp = 0, the stack is
   empty, the capacity is the initial 256; three such evaluations in a row form a fail_seq *)
Example C07_example_failure :
  match eval other_builtin 100 rx_fail (vm_empty 8192) with
  | ROk (Failed _ _ (Some t)) s' =>
      length t = 2%nat /\ sp s' = 0 /\ bp s' = 0 /\ stack s' = tempty /\ scap s' = 256 /\
      g_slots (vm_empty 8192) = [] /\ (exists p, g_slots s' = [VPtr p; VUndef])
  | _ => False
  end.
Proof. vm_compute. repeat split. eexists; reflexivity. Qed.

Example C07_example_three_failures :
  exists s3, fail_seq other_builtin 3 (vm_empty 8192) s3 /\ sp s3 = 0 /\ bp s3 = 0 /\ scap s3 = 256.
Proof.
  eexists. split.
  - eapply (fs_S other_builtin _ _ _ _ 100%nat rx_fail); [vm_compute; reflexivity|].
    eapply (fs_S other_builtin _ _ _ _ 100%nat rx_fail); [vm_compute; reflexivity|].
    eapply (fs_S other_builtin _ _ _ _ 100%nat rx_fail); [vm_compute; reflexivity|]. apply fs_0.
  - vm_compute. auto.
Qed.


(* =================================================================================
   The stack capacity, UNCONDITIONALLY for the real builtin table [other_builtin]
   (proofs: Proofs/MonoBase.v, MonoCompile.v, MonoStep.v, MonoBuiltins.v, MonoAll.v).
   [cap_monotone other_builtin] is PROVED: every instruction of run_one (on its success and
   on its error exit), every builtin of Model/Builtins.v + procedure.rs/ports.rs, the compiler
   and prepare_eval leave `Stack.stack.len()` at least as large as it was.  Only Stack::push
   changes it (doubling); invoking a continuation (restore_continuation) keeps it EXACTLY
   (the model would panic 47 — split_at_mut — if the saved stack were longer than the vector;
   it never is: C05_captured_live_later).  Nothing in the model can shrink the capacity.
   ================================================================================= *)
Theorem C07_cap_monotone :
  (forall s r s', run_one other_builtin s = ROk r s' -> scap s <= scap s') /\
  (forall s e m s', run_one other_builtin s = RErr e m s' -> scap s <= scap s') /\
  (forall c s u s', prepare_eval c s = ROk u s' -> scap s <= scap s').
Proof. exact cap_monotone_other. Qed.
Print Assumptions C07_cap_monotone.

(* the hypothesis of C07_failure_capacity_is_max / C07_k_failures_capacity, discharged *)
Theorem C07_cap_monotone_other_builtin : cap_monotone other_builtin.
Proof. exact cap_monotone_other. Qed.
Print Assumptions C07_cap_monotone_other_builtin.

Theorem C07_failure_capacity_is_max_unconditional : forall fuel c s e msg t s',
  eval other_builtin fuel c s = ROk (Failed e msg (Some t)) s' ->
  scap s <= scap s' /\
  exists p n, prepare_eval c s = ROk tt p /\ scap p <= scap s' /\
    forall j s_j, (j <= n)%nat -> steps other_builtin j p = Some s_j -> scap s_j <= scap s'.
Proof. exact failure_capacity_is_max_other. Qed.
Print Assumptions C07_failure_capacity_is_max_unconditional.

Theorem C07_k_failures_capacity_unconditional : forall k s s',
  fail_seq other_builtin k s s' -> scap s <= scap s'.
Proof. exact k_failures_capacity_other. Qed.
Print Assumptions C07_k_failures_capacity_unconditional.

(* every exit of one instruction and of a whole Vm::eval (value, run-time failure,
   compile-time failure, or the model's own Err exit) *)
Theorem C07_step_capacity : forall s,
  match run_one other_builtin s with
  | ROk _ s' => scap s <= scap s' | RErr _ _ s' => scap s <= scap s' | _ => True end.
Proof. exact step_capacity. Qed.
Print Assumptions C07_step_capacity.

Theorem C07_eval_capacity : forall fuel c s,
  match eval other_builtin fuel c s with
  | ROk _ s' => scap s <= scap s' | RErr _ _ s' => scap s <= scap s' | _ => True end.
Proof. exact eval_capacity. Qed.
Print Assumptions C07_eval_capacity.

(* each builtin procedure, run on any machine *)
Theorem C07_builtin_capacity : forall b s,
  match run_builtin other_builtin b s with
  | ROk _ s' => scap s <= scap s' | RErr _ _ s' => scap s <= scap s' | _ => True end.
Proof.
  intros b s. pose proof (km_run_builtin other_builtin km_other_builtin b s) as H.
  destruct (run_builtin other_builtin b s); unfold rpost in H; try exact I; exact (km_cap _ _ H).
Qed.
Print Assumptions C07_builtin_capacity.

Theorem C07_restore_continuation_keeps_capacity : forall cid s u s',
  restore_continuation cid s = ROk u s' -> scap s' = scap s.
Proof. exact restore_continuation_capacity. Qed.
Print Assumptions C07_restore_continuation_keeps_capacity.

(* =================================================================================
   The ERROR path of prepare_eval (read/compile failure; vm/mod.rs:99-107 returns before
   `self.ip = ...`).  The compiler works on the heap, the Rc tables and the global
   environment only: stack contents, capacity, sp, bp, ep, ip, acc and the output log are
   UNTOUCHED; what a failed compilation does leave behind: heap cells (interned symbols,
   quoted data, already finished inner lambdas), fresh Rc objects, and fresh global slots
   holding Undefined appended for the global symbols met before the error — no existing
   global slot changes, no continuation object is touched.
   ================================================================================= *)
Theorem C07_prepare_eval_error_frame : forall e s code msg s',
  prepare_eval e s = RErr code msg s' ->
  stack s' = stack s /\ scap s' = scap s /\ sp s' = sp s /\ bp s' = bp s /\ ep s' = ep s /\
  ip s' = ip s /\ acc s' = acc s /\ out_log s' = out_log s /\
  (exists k, g_slots s' = g_slots s ++ repeat VUndef k) /\ (exists nb, g_bind s' = nb ++ g_bind s) /\
  next_id (st s) <= next_id (st s') /\
  (forall j, j < next_id (st s) -> tget (conts (st s')) j = tget (conts (st s)) j).
Proof.
  intros e s code msg s' H. apply prepare_eval_err_sframe in H.
  destruct H as [A1 A2 A3 A4 A5 A6 A7 A8 [A9 A9'] A10 A11]. auto 12.
Qed.
Print Assumptions C07_prepare_eval_error_frame.

(* a successful prepare_eval changes %ip and nothing else among registers and stack *)
Theorem C07_prepare_eval_ok_frame : forall e s u s',
  prepare_eval e s = ROk u s' ->
  stack s' = stack s /\ scap s' = scap s /\ sp s' = sp s /\ bp s' = bp s /\ ep s' = ep s /\
  acc s' = acc s /\ out_log s' = out_log s.
Proof.
  intros e s u s' H. destruct (prepare_eval_ok_frame e s u s' H) as (A1 & A2 & A3 & A4 & A5 & A6 & A7 & _).
  auto 8.
Qed.
Print Assumptions C07_prepare_eval_ok_frame.

(* at the level of Vm::eval: Failed with NO trace = the compile-time failure *)
Theorem C07_compile_failure_is_prepare_error : forall ob fuel c s e msg s1,
  eval ob fuel c s = ROk (Failed e msg None) s1 <-> prepare_eval c s = RErr e msg s1.
Proof.
  intros ob fuel c s e msg s1. split; [apply eval_compile_failure_inv|].
  intros H. unfold eval. rewrite H. reflexivity.
Qed.
Print Assumptions C07_compile_failure_is_prepare_error.

Theorem C07_same_regs_stack_unfold : forall s s',
  same_regs_stack s s' <->
  (stack s' = stack s /\ scap s' = scap s /\ sp s' = sp s /\ bp s' = bp s /\ ep s' = ep s /\
   ip s' = ip s /\ acc s' = acc s /\ out_log s' = out_log s).
Proof. intros s s'. reflexivity. Qed.
Print Assumptions C07_same_regs_stack_unfold.

Theorem C07_compile_failure_frame : forall ob fuel c s e msg s',
  eval ob fuel c s = ROk (Failed e msg None) s' ->
  same_regs_stack s s' /\
  (exists k, g_slots s' = g_slots s ++ repeat VUndef k) /\ (exists nb, g_bind s' = nb ++ g_bind s) /\
  next_id (st s) <= next_id (st s') /\
  (forall j, j < next_id (st s) -> tget (conts (st s')) j = tget (conts (st s)) j).
Proof. exact compile_failure_frame. Qed.
Print Assumptions C07_compile_failure_frame.

(* ---- sequences that MIX run-time and compile-time failures.
   [mfail_seq ob k r s s']: k failing evaluations (any forms, any fuel), chained, r of them
   run-time failures (Failed _ _ (Some t)), k - r compile-time failures (Failed _ _ None). *)
Theorem C07_mfail_seq_unfold : forall ob k r s s',
  mfail_seq ob k r s s' <->
  match k with
  | O => r = O /\ s' = s
  | S k' =>
      (exists r' s1 fuel c e msg t, r = S r' /\
         eval ob fuel c s = ROk (Failed e msg (Some t)) s1 /\ mfail_seq ob k' r' s1 s') \/
      (exists s1 fuel c e msg,
         eval ob fuel c s = ROk (Failed e msg None) s1 /\ mfail_seq ob k' r s1 s')
  end.
Proof.
  intros ob k r s s'. split.
  - intros H. destruct H as [s|k r s s1 s2 fuel c e msg t He Hs|k r s s1 s2 fuel c e msg He Hs].
    + auto.
    + left. exists r, s1, fuel, c, e, msg, t. auto.
    + right. exists s1, fuel, c, e, msg. auto.
  - destruct k as [|k].
    + intros [-> ->]. constructor.
    + intros [(r' & s1 & fuel & c & e & msg & t & -> & He & Hs)|(s1 & fuel & c & e & msg & He & Hs)].
      * eapply mfs_run; eassumption.
      * eapply mfs_compile; eassumption.
Qed.
Print Assumptions C07_mfail_seq_unfold.

(* it extends fail_seq *)
Theorem C07_fail_seq_is_mixed : forall ob k s s', fail_seq ob k s s' -> mfail_seq ob k k s s'.
Proof. exact fail_seq_mfail_seq. Qed.
Print Assumptions C07_fail_seq_is_mixed.

(* as soon as ONE of the k failures is a run-time failure: sp = 0, bp = 0, ep = usize::MAX,
   acc = Undefined, empty stack — wherever the compile-time failures sit in the sequence *)
Theorem C07_mixed_failures_no_accumulation : forall ob k r s s',
  mfail_seq ob k r s s' -> (0 < r)%nat ->
  sp s' = 0 /\ bp s' = 0 /\ ep s' = USIZE_MAX /\ acc s' = VUndef /\ stack s' = tempty.
Proof. exact mixed_no_accumulation. Qed.
Print Assumptions C07_mixed_failures_no_accumulation.

(* only compile-time failures: registers, stack and capacity are those of the start *)
Theorem C07_compile_failures_leave_registers : forall ob k s s',
  mfail_seq ob k 0 s s' -> same_regs_stack s s'.
Proof. exact mixed_compile_only. Qed.
Print Assumptions C07_compile_failures_leave_registers.

(* a machine between evaluations stays so through ANY mix of failures, for every k *)
Theorem C07_mixed_failures_keep_reset : forall ob k r s s',
  mfail_seq ob k r s s' ->
  (sp s = 0 /\ bp s = 0 /\ ep s = USIZE_MAX /\ acc s = VUndef /\ stack s = tempty) ->
  sp s' = 0 /\ bp s' = 0 /\ ep s' = USIZE_MAX /\ acc s' = VUndef /\ stack s' = tempty.
Proof. exact mixed_keeps_reset. Qed.
Print Assumptions C07_mixed_failures_keep_reset.

Theorem C07_mixed_failures_capacity : forall k r s s',
  mfail_seq other_builtin k r s s' -> scap s <= scap s'.
Proof. exact mixed_capacity_other. Qed.
Print Assumptions C07_mixed_failures_capacity.

(* non-vacuity.  (if newsym (if)) fails at COMPILE time after get_binding has appended a
   slot for newsym: no trace, one more (Undefined) global slot, registers as before.
   Then: run-time failure, compile-time failure, run-time failure, compile-time failure on
   vm_empty 8192 is a mixed sequence with k = 4, r = 2; it ends with sp = bp = 0, capacity 256,
   and the global x of the run-time failing form still bound. *)
Example C07_example_compile_failure :
  match eval other_builtin 100 mx_cfail (vm_empty 8192) with
  | ROk (Failed _ _ None) s' =>
      g_slots (vm_empty 8192) = [] /\ g_slots s' = [VUndef] /\ sp s' = 0 /\ scap s' = 256 /\
      ip s' = ip (vm_empty 8192) /\ 0 < next_id (st s') + hlen (hp s')
  | _ => False
  end.
Proof. vm_compute. repeat split. Qed.

Example C07_example_mixed_failures :
  exists s4, mfail_seq other_builtin 4 2 (vm_empty 8192) s4 /\ sp s4 = 0 /\ bp s4 = 0 /\ scap s4 = 256 /\
    length (g_slots s4) = 3%nat.
Proof.
  eexists. split.
  - eapply (mfs_run other_builtin _ _ _ _ _ 100%nat rx_fail); [vm_compute; reflexivity|].
    eapply (mfs_compile other_builtin _ _ _ _ _ 100%nat mx_cfail); [vm_compute; reflexivity|].
    eapply (mfs_run other_builtin _ _ _ _ _ 100%nat rx_fail); [vm_compute; reflexivity|].
    eapply (mfs_compile other_builtin _ _ _ _ _ 100%nat mx_cfail); [vm_compute; reflexivity|]. apply mfs_0.
  - vm_compute. auto.
Qed.

Example C07_example_cap_monotone_discharges :
  forall s3, fail_seq other_builtin 3 (vm_empty 8192) s3 -> 256 <= scap s3.
Proof. intros s3 H. exact (C07_k_failures_capacity other_builtin 3 _ s3 C07_cap_monotone_other_builtin H). Qed.
