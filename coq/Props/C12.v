(* C12 — memory is bounded by live data: garbage of every kind is reclaimed.
   Decided for the VM heap (cells, capacity).  Process memory outside the VM heap — Rc cycles
   such as a vector stored into itself, Vec capacities that never shrink (the stack vector),
   the allocator — is NOT covered: C12 is partial for process memory. *)
From Coq Require Import NArith List.
From MW Require Import Model.Base Model.VmTypes Model.Heap Model.VmBase Model.Gc Model.Growth Gen.GcParams
  Proofs.GcProofs Proofs.SymtabProofs Proofs.GrowthProofs.
From MW Require Proofs.UtilProofs.
Import ListNotations.
Open Scope N_scope.

(* immediately after a collection the allocated cells are exactly the cells reachable from
   the roots: [cref]/[vref] (Proofs/GcProofs.v) have a case for every constructor of vcell, so
   this covers pairs, vectors, strings, closures and environments, continuations, code
   objects, symbols and numbers alike *)
Theorem C12_after_gc_allocated_eq_reachable : forall vd fuel order v h',
  no_used (hp v) -> gmap_in_range (hp v) ->
  collect vd fuel order v = Ok h' ->
  forall a, g_get (gcmap h') a = GAllocated <->
            (a < hlen (hp v) /\ reach_from (hp v) (st v) (root order v) a).
Proof. exact after_gc_allocated_eq_reachable. Qed.
Print Assumptions C12_after_gc_allocated_eq_reachable.

(* the stack wiped after a successful evaluation (stack.rs:40-43) holds no reference *)
Theorem C12_stack_wipe_drops_roots : forall s n x a, In x (repeat VUndef n) -> ~ vref s x a.
Proof. exact stack_wipe_drops_roots. Qed.
Print Assumptions C12_stack_wipe_drops_roots.

(* the same on the machine state: Stack::clear leaves the empty table (run.rs:52-55 after a
   successful evaluation and, with fix F5, on the error path), whose slots up to sp
   contribute no root *)
Theorem C12_stack_wipe_drops_roots_vm : forall v x a,
  stack v = tempty -> In x (stack_to_sp v) -> ~ vref (st v) x a.
Proof. exact stack_wipe_drops_roots_vm. Qed.
Print Assumptions C12_stack_wipe_drops_roots_vm.

(* interned garbage symbols are reclaimed with their table entry: the table has an entry
   exactly for the allocated symbol cells (C18 invariant), and it survives sweep *)
Theorem C12_symtab_bounded : forall h, heap_inv h ->
  forall n a, symtab_find (symtab h) n = Some a <->
              (a < hlen h /\ g_get (gcmap h) a <> GFree /\ cell_at h a = VSym n).
Proof. exact hi_symtab. Qed.
Print Assumptions C12_symtab_bounded.

(* growth_policy_bound, for ALL admissible parameters (chunk > 0, factor > 1, thresholds in
   (0,1)): if every collection point sees at most L live cells and at most B cells are
   allocated between two collection points, the capacity never exceeds max(cap0, g) *)
Theorem C12_growth_policy_bound : forall p L B s0 tr,
  admissible p = true -> gp_chunk p <= g_cap s0 -> g_used s0 <= L ->
  trace_ok L B 0 tr ->
  g_cap (grun p s0 tr) <= N.max (g_cap s0) (gbound p L B).
Proof. exact growth_policy_bound. Qed.
Print Assumptions C12_growth_policy_bound.

(* heap_plateau: the number of growth events of ANY such run is bounded independently of
   its length — the heap stops growing *)
Theorem C12_heap_plateau : forall p L B s0 tr,
  admissible p = true -> gp_chunk p <= g_cap s0 -> g_cap s0 mod gp_chunk p = 0 ->
  g_used s0 <= L -> trace_ok L B 0 tr ->
  (g_grows (grun p s0 tr) - g_grows s0) * gp_chunk p
    <= N.max (g_cap s0) (gbound p L B) - g_cap s0.
Proof. exact heap_plateau. Qed.
Print Assumptions C12_heap_plateau.

(* the constants of the working tree (coq/Gen/GcParams.v, regenerated from the source on
   every run).  [None] = the translator no longer finds a constant: the obligation below
   then fails to check, which is reported as a broken proof obligation. *)
Definition gc_params : option gparams :=
  match heap_chunk_size, heap_growth_factor, gc_skip_below, gc_grow_above with
  | Some c, Some (fn, fd), Some (ln, ld), Some (hn, hd) => Some (mk_gparams c fn fd ln ld hn hd)
  | _, _, _, _ => None
  end.

Lemma gc_params_admissible : exists p, gc_params = Some p /\ admissible p = true
                                       /\ exists k, gc_cadence = Some k /\ 0 < k.
Proof. eexists. split; [reflexivity|]. split; [vm_compute; reflexivity|]. eexists. split; [reflexivity|reflexivity]. Qed.

Theorem C12_params_admissible : exists p, gc_params = Some p /\ admissible p = true
                                          /\ exists k, gc_cadence = Some k /\ 0 < k.
Proof. exact gc_params_admissible. Qed.
Print Assumptions C12_params_admissible.

Theorem C12_growth_bound_instance : forall p, gc_params = Some p -> admissible p = true ->
  forall L B tr, trace_ok L B 0 tr ->
    g_cap (grun p (mk_gstate (gp_chunk p) 0 0) tr) <= N.max (gp_chunk p) (gbound p L B).
Proof.
  intros p _ A L B tr T.
  exact (growth_policy_bound p L B (mk_gstate (gp_chunk p) 0 0) tr A (N.le_refl _) (N.le_0_l _) T).
Qed.
Print Assumptions C12_growth_bound_instance.

Example C12_example_trace :
  let p := mk_gparams 8192 15 10 75 100 75 100 in
  admissible p = true /\ trace_ok 10 3 0 [Alloc; Alloc; Collect 5; Alloc; Collect 10] /\
  g_cap (grun p (mk_gstate 8192 0 0) [Alloc; Alloc; Collect 5; Alloc; Collect 10]) = 8192.
Proof. exact growth_example. Qed.

(* PROVED below (was OPEN): the f64 utilisation tests of run_gc coincide with the rational
   tests of the counter machine for capacities below 2^52.  The statement is kept as a
   Definition (it is referred to by name); [C12_util_test_rational] is its proof. *)
Definition util_test_rational_stmt : Prop :=
  forall used cap, 0 < cap -> cap < 2 ^ 52 -> used <= cap ->
    F64.f64_ltb (utilisation used cap) f64_three_quarters = (used * 100 <? 75 * cap).

(* run.rs:484 `if utilisation < 0.75 { return }` : used/cap is ONE correctly rounded binary64
   division of two exactly converted integers; 0.75 is a double; a quotient below 3/4 is at
   least 1/(4 cap) > 2^-54 below it, i.e. strictly nearer to the double 0.75 - 2^-53 than to
   0.75, so it cannot round up onto the threshold (Proofs/UtilProofs.v).  Uses Flocq's
   real-number lemmas (Bdiv_correct, round_N_pt), hence the standard Reals axioms. *)
Theorem C12_util_test_rational : forall used cap, 0 < cap -> cap < 2 ^ 52 -> used <= cap ->
  F64.f64_ltb (utilisation used cap) f64_three_quarters = (used * 100 <? 75 * cap).
Proof. exact UtilProofs.util_test_rational. Qed.
Print Assumptions C12_util_test_rational.

Theorem C12_util_test_rational_stmt_holds : util_test_rational_stmt.
Proof. exact UtilProofs.util_test_rational. Qed.
Print Assumptions C12_util_test_rational_stmt_holds.

(* run.rs:503 `if utilisation > 0.75 { grow }` : the second test, same capacities *)
Theorem C12_util_test_rational_gt : forall used cap, 0 < cap -> cap < 2 ^ 52 -> used <= cap ->
  F64.f64_ltb f64_three_quarters (utilisation used cap) = (75 * cap <? used * 100).
Proof. exact UtilProofs.util_test_rational_gt. Qed.
Print Assumptions C12_util_test_rational_gt.

(* non-vacuity, on both sides of the threshold and ON it (chunk 8192: 6144 = 0.75 * 8192),
   compared through booleans; the last line is a capacity just below the bound where the
   quotient is 2^-54-close to 3/4 *)
Example C12_example_util_test :
  F64.f64_ltb (utilisation 6143 8192) f64_three_quarters = true /\ (6143 * 100 <? 75 * 8192) = true /\
  F64.f64_ltb (utilisation 6144 8192) f64_three_quarters = false /\
  F64.f64_ltb f64_three_quarters (utilisation 6144 8192) = false /\
  F64.f64_ltb f64_three_quarters (utilisation 6145 8192) = true /\
  F64.f64_ltb (utilisation (3 * 2 ^ 50 - 1) (2 ^ 52 - 1)) f64_three_quarters = true /\
  ((3 * 2 ^ 50 - 1) * 100 <? 75 * (2 ^ 52 - 1)) = true.
Proof. vm_compute. repeat split. Qed.
