(* C09 — numeric comparison is one consistent total order across representations.
   Only statements, each closed by [exact] of a lemma proved in Proofs/.  The model is
   Model/NumArith.v (number.rs PartialEq / PartialOrd as repaired by fix F9, the derived
   lt le gt ge of core::cmp::PartialOrd, builtin/number.rs num_comp min max zero? ...)
   over Model/Ratio32.v (num-rational Ord::cmp).  ⟦x⟧ = [qv x] : Q.                 *)
From Coq Require Import ZArith QArith List.
From MW Require Import Model.Base Model.F64 Model.Num Model.Ratio32 Model.NumArith Model.NumSpec
  Proofs.GcdProofs Proofs.Ratio32Proofs Proofs.NumProofs Proofs.CmpProofs Proofs.CmpFloatProofs.
Import ListNotations.
Open Scope Z_scope.

(* ---- the full-strength statement for all non-NaN numbers, here its transitivity clause
   (false on the pinned tree: see the refutation at the end) *)
Definition non_nan (x : num) : bool :=
  match x with Float f => negb (f64_is_nan f) | _ => true end.
Definition C09_full : Prop :=
  forall p a b c, wfb a = true -> wfb b = true -> wfb c = true ->
    non_nan a = true -> non_nan b = true -> non_nan c = true ->
    num_eq p a b = Ok true -> num_eq p b c = Ok true -> num_eq p a c = Ok true.

(* Ratio32.cmp (the continued-fraction comparison) terminates — never NoFuel, never a panic,
   in either profile — and equals the comparison of a*d with c*b; widths 32 and 64 *)
Theorem C09_ratio_cmp_correct : forall p w a b, 2 <= w <= 64 -> rok w a -> rok w b ->
  rcmp p w a b = Ok (fst a * snd b ?= fst b * snd a).
Proof. exact rcmp_correct. Qed.
Print Assumptions C09_ratio_cmp_correct.

Theorem C09_ratio_cmp_Q : forall p w a b, 2 <= w <= 64 -> rok w a -> rok w b ->
  rcmp p w a b = Ok (rq a ?= rq b)%Q.
Proof. exact rcmp_Q. Qed.
Print Assumptions C09_ratio_cmp_Q.

(* cmp_exact: partial_cmp and == over all 9 pairs of exact representations are decided by
   the mathematical values (incl. an integer outside i32 against a rational — F9 — and a
   BigInt carrying a small value) *)
Theorem C09_cmp_exact : forall p a b,
  wfb a = true -> wfb b = true -> is_exact a = true -> is_exact b = true ->
  num_partial_cmp p a b = Ok (Some (qv a ?= qv b)%Q).
Proof. exact cmp_exact. Qed.
Print Assumptions C09_cmp_exact.

Theorem C09_eq_exact : forall p a b,
  wfb a = true -> wfb b = true -> is_exact a = true -> is_exact b = true ->
  num_eq p a b = Ok (is_Eq (qv a ?= qv b)%Q).
Proof. exact eq_exact. Qed.
Print Assumptions C09_eq_exact.

Theorem C09_lt_iff : forall p a b,
  wfb a = true -> wfb b = true -> is_exact a = true -> is_exact b = true ->
  (num_lt p a b = Ok true <-> (qv a < qv b)%Q).
Proof. exact lt_iff. Qed.
Print Assumptions C09_lt_iff.

Theorem C09_gt_iff : forall p a b,
  wfb a = true -> wfb b = true -> is_exact a = true -> is_exact b = true ->
  (num_gt p a b = Ok true <-> (qv b < qv a)%Q).
Proof. exact gt_iff. Qed.
Print Assumptions C09_gt_iff.

Theorem C09_eq_iff : forall p a b,
  wfb a = true -> wfb b = true -> is_exact a = true -> is_exact b = true ->
  (num_eq p a b = Ok true <-> (qv a == qv b)%Q).
Proof. exact eq_iff. Qed.
Print Assumptions C09_eq_iff.

(* exactly one of (< x y) (= x y) (> x y) *)
Theorem C09_trichotomy : forall p a b,
  wfb a = true -> wfb b = true -> is_exact a = true -> is_exact b = true ->
  exists lt eq gt, num_lt p a b = Ok lt /\ num_eq p a b = Ok eq /\ num_gt p a b = Ok gt /\
    ((lt = true /\ eq = false /\ gt = false) \/ (lt = false /\ eq = true /\ gt = false) \/
     (lt = false /\ eq = false /\ gt = true)).
Proof. exact trichotomy. Qed.
Print Assumptions C09_trichotomy.

(* <= and >= (Rust's provided methods of PartialOrd) are consistent with < = > *)
Theorem C09_le_ge_consistent : forall p a b,
  wfb a = true -> wfb b = true -> is_exact a = true -> is_exact b = true ->
  exists lt eq gt le ge, num_lt p a b = Ok lt /\ num_eq p a b = Ok eq /\ num_gt p a b = Ok gt /\
    num_le p a b = Ok le /\ num_ge p a b = Ok ge /\ le = (lt || eq)%bool /\ ge = (gt || eq)%bool.
Proof. exact le_ge_consistent. Qed.
Print Assumptions C09_le_ge_consistent.

Theorem C09_lt_trans : forall p a b c,
  wfb a = true -> wfb b = true -> wfb c = true ->
  is_exact a = true -> is_exact b = true -> is_exact c = true ->
  num_lt p a b = Ok true -> num_lt p b c = Ok true -> num_lt p a c = Ok true.
Proof. exact lt_trans. Qed.
Print Assumptions C09_lt_trans.

Theorem C09_eq_trans : forall p a b c,
  wfb a = true -> wfb b = true -> wfb c = true ->
  is_exact a = true -> is_exact b = true -> is_exact c = true ->
  num_eq p a b = Ok true -> num_eq p b c = Ok true -> num_eq p a c = Ok true.
Proof. exact eq_trans. Qed.
Print Assumptions C09_eq_trans.

(* the variadic fold of num_comp: for ANY comparison whose pairwise answers are [f] (exact or
   not, correct or not), (op x1 .. xn) is the conjunction of f over adjacent pairs *)
Theorem C09_variadic_is_adjacent_conj : forall o p (f : num -> num -> bool) (P : num -> Prop),
  (forall x y, P x -> P y -> apply_cmp o p x y = Ok (f x y)) ->
  forall l, l <> [] -> Forall P l ->
  b_num_comp o p (map ANum l) = Ok (RBool (adj_conj f l)).
Proof. exact num_comp_adjacent. Qed.
Print Assumptions C09_variadic_is_adjacent_conj.

(* ... and on exact numbers each adjacent comparison is the mathematical one *)
Theorem C09_variadic_exact : forall o p l, l <> [] -> Forall exact_wf l ->
  b_num_comp o p (map ANum l) = Ok (RBool (adj_conj (cmp_spec o) l)).
Proof. exact variadic_exact. Qed.
Print Assumptions C09_variadic_exact.

Theorem C09_sign_predicates : forall p x, exact_wf x ->
  b_upred PZero p [ANum x] = Ok (RBool (is_Eq (qv x ?= 0)%Q)) /\
  b_upred PPositive p [ANum x] = Ok (RBool (match (qv x ?= 0)%Q with Gt => true | _ => false end)) /\
  b_upred PNegative p [ANum x] = Ok (RBool (match (qv x ?= 0)%Q with Lt => true | _ => false end)).
Proof. exact sign_predicates. Qed.
Print Assumptions C09_sign_predicates.

Theorem C09_minmax : forall p (is_max : bool) a b, exact_wf a -> exact_wf b ->
  exists m, b_minmax is_max p [ANum a; ANum b] = Ok (RNum m) /\ (m = a \/ m = b) /\
    if is_max then (qv a <= qv m /\ qv b <= qv m)%Q else (qv m <= qv a /\ qv m <= qv b)%Q.
Proof. exact minmax_exact. Qed.
Print Assumptions C09_minmax.

(* ---- refutation of C09_full (class exact-vs-inexact-by-rounding): = is not transitive *)
Theorem C09_refuted_rounding : ~ C09_full.
Proof.
  intros H.
  specialize (H Debug (Fixnum 9007199254740993) (Float (f64_of_Z 9007199254740992)) (Fixnum 9007199254740992)).
  assert (E : num_eq Debug (Fixnum 9007199254740993) (Fixnum 9007199254740992) = Ok true)
    by (apply H; vm_compute; reflexivity).
  vm_compute in E. discriminate.
Qed.
Print Assumptions C09_refuted_rounding.

(* the same defect on a rational: (= 1/3 0.3333333333333333) *)
Theorem C09_refuted_rounding_ratio :
  num_eq Debug (Rational 1 3) (Float (f64_of_bits 0x3fd5555555555555)) = Ok true.
Proof. vm_compute. reflexivity. Qed.
Print Assumptions C09_refuted_rounding_ratio.

(* ... stated with the values: the two operands compare = although the double is not 1/3
   (it is 6004799503160661 / 2^54) *)
Theorem C09_refuted_rounding_ratio_values :
  num_eq Debug (Rational 1 3) (Float (f64_of_bits 0x3fd5555555555555)) = Ok true /\
  f64_value_is (f64_of_bits 0x3fd5555555555555) (1 # 3) = false /\
  f64_value_is (f64_of_bits 0x3fd5555555555555) (6004799503160661 # 18014398509481984) = true.
Proof. repeat split; vm_compute; reflexivity. Qed.
Print Assumptions C09_refuted_rounding_ratio_values.

(* ---- cmp_exact for the 7 representation pairs that involve a Float.
   The statement first written by the "num" package (kept below, REFUTED) quantifies over an
   arbitrary valuation [fval] of doubles and has no side condition, so it is false twice over:
   for a silly [fval] (C09_cmp_float_refuted), and — with the intended valuation [f64_to_Q],
   the value (-1)^s * m * 2^e of a finite double — on the recorded class
   exact-vs-inexact-by-rounding (C09_cmp_float_refuted_rounding).
   The corrected statements instantiate fval := f64_to_Q and add the named, decidable
   hypothesis [float_side_exact a b]: both operands exact, or every exact operand converts to a
   double exactly ([exact_in_f64]: to_f64 of the number is finite and has the number's value). *)
Definition nval (fval : f64 -> option Q) (x : num) : option Q :=
  match x with Float f => fval f | _ => Some (qv x) end.
Definition C09_cmp_float_stmt : Prop :=
  forall p (fval : f64 -> option Q) a b va vb,
    wfb a = true -> wfb b = true -> non_nan a = true -> non_nan b = true ->
    nval fval a = Some va -> nval fval b = Some vb ->
    num_partial_cmp p a b = Ok (Some (va ?= vb)%Q).

(* Float-Float: partial_cmp of two finite doubles is the order of their values
   (Flocq's Bcompare_correct carried from R to Q) *)
Theorem C09_cmp_float_float : forall p a b va vb,
  f64_to_Q a = Some va -> f64_to_Q b = Some vb ->
  num_partial_cmp p (Float a) (Float b) = Ok (Some (va ?= vb)%Q).
Proof. exact cmp_float_float. Qed.
Print Assumptions C09_cmp_float_float.

(* all 16 representation pairs, finite values: C09_cmp_float_stmt with fval := f64_to_Q and
   the side condition *)
Theorem C09_cmp_float : forall p a b va vb,
  wfb a = true -> wfb b = true -> non_nan a = true -> non_nan b = true ->
  float_side_exact a b = true ->
  nval f64_to_Q a = Some va -> nval f64_to_Q b = Some vb ->
  num_partial_cmp p a b = Ok (Some (va ?= vb)%Q).
Proof. exact cmp_all_pairs. Qed.
Print Assumptions C09_cmp_float.

(* ... and for ALL non-NaN numbers, the infinities included: values in the extended
   rationals [xq], order [xq_cmp] *)
Theorem C09_cmp_float_inf : forall p a b va vb,
  wfb a = true -> wfb b = true -> non_nan a = true -> non_nan b = true ->
  float_side_exact a b = true ->
  nvalx a = Some va -> nvalx b = Some vb ->
  num_partial_cmp p a b = Ok (Some (xq_cmp va vb)).
Proof. exact cmp_all_pairs_inf. Qed.
Print Assumptions C09_cmp_float_inf.

(* the side condition holds of every integer |z| <= 2^53 (more generally of m * 2^e with
   |m| < 2^53 below the overflow threshold): Fixnum / BigInt against any finite double *)
Theorem C09_cmp_small_int_float : forall p (big : bool) z r vr,
  Z.abs z <= 2 ^ 53 -> f64_to_Q r = Some vr ->
  let x := if big then BigInt z else Fixnum z in
  num_partial_cmp p x (Float r) = Ok (Some (inject_Z z ?= vr)%Q) /\
  num_partial_cmp p (Float r) x = Ok (Some (vr ?= inject_Z z)%Q).
Proof. exact cmp_small_int_float. Qed.
Print Assumptions C09_cmp_small_int_float.

Theorem C09_int_exact_in_f64 : forall z m e,
  z = m * 2 ^ e -> Z.abs m < 2 ^ 53 -> 0 <= e -> Z.abs z < 2 ^ 1024 ->
  exists q, f64_to_Q (f64_of_Z z) = Some q /\ (q == inject_Z z)%Q.
Proof. exact f64_of_Z_exact. Qed.
Print Assumptions C09_int_exact_in_f64.

(* ... and of every Rational n/2^k (to_f64 is one correctly rounded division of two exactly
   converted i32): Rational against any finite double, unconditionally *)
Theorem C09_dyadic_exact_in_f64 : forall n k, in_i32 n = true -> 0 <= k <= 30 ->
  exact_in_f64 (Rational n (2 ^ k)) = true.
Proof. exact dyadic_exact_in_f64. Qed.
Print Assumptions C09_dyadic_exact_in_f64.

Theorem C09_cmp_dyadic_float : forall p n k r vr,
  rwfb n (2 ^ k) = true -> 0 <= k -> f64_to_Q r = Some vr ->
  num_partial_cmp p (Rational n (2 ^ k)) (Float r) = Ok (Some ((n # Z.to_pos (2 ^ k)) ?= vr)%Q) /\
  num_partial_cmp p (Float r) (Rational n (2 ^ k)) = Ok (Some (vr ?= (n # Z.to_pos (2 ^ k)))%Q).
Proof. exact cmp_dyadic_float. Qed.
Print Assumptions C09_cmp_dyadic_float.

(* == on all non-NaN numbers: decided by the values *)
Theorem C09_eq_float_inf : forall p a b va vb,
  wfb a = true -> wfb b = true -> non_nan a = true -> non_nan b = true ->
  float_side_exact a b = true ->
  nvalx a = Some va -> nvalx b = Some vb ->
  num_eq p a b = Ok (is_Eq (xq_cmp va vb)).
Proof. exact eq_all_pairs_inf. Qed.
Print Assumptions C09_eq_float_inf.

(* C09_full (transitivity of =) holds for all non-NaN numbers outside the class
   exact-vs-inexact-by-rounding, i.e. when none of the three comparisons rounds an exact
   operand; likewise transitivity of < and trichotomy *)
Theorem C09_full_outside_rounding : forall p a b c,
  wfb a = true -> wfb b = true -> wfb c = true ->
  non_nan a = true -> non_nan b = true -> non_nan c = true ->
  float_side_exact a b = true -> float_side_exact b c = true -> float_side_exact a c = true ->
  num_eq p a b = Ok true -> num_eq p b c = Ok true -> num_eq p a c = Ok true.
Proof. exact eq_trans_all. Qed.
Print Assumptions C09_full_outside_rounding.

Theorem C09_lt_trans_float : forall p a b c,
  wfb a = true -> wfb b = true -> wfb c = true ->
  non_nan a = true -> non_nan b = true -> non_nan c = true ->
  float_side_exact a b = true -> float_side_exact b c = true -> float_side_exact a c = true ->
  num_lt p a b = Ok true -> num_lt p b c = Ok true -> num_lt p a c = Ok true.
Proof. exact lt_trans_all. Qed.
Print Assumptions C09_lt_trans_float.

Theorem C09_trichotomy_float : forall p a b,
  wfb a = true -> wfb b = true -> non_nan a = true -> non_nan b = true ->
  float_side_exact a b = true ->
  exists lt eq gt, num_lt p a b = Ok lt /\ num_eq p a b = Ok eq /\ num_gt p a b = Ok gt /\
    ((lt = true /\ eq = false /\ gt = false) \/ (lt = false /\ eq = true /\ gt = false) \/
     (lt = false /\ eq = false /\ gt = true)).
Proof. exact trichotomy_all. Qed.
Print Assumptions C09_trichotomy_float.

(* refutations of the statement as first written *)
Theorem C09_cmp_float_refuted : ~ C09_cmp_float_stmt.
Proof.
  intros H.
  specialize (H Debug (fun _ => Some 0%Q) (Float f64_zero) (Float (f64_inf false)) 0%Q 0%Q
                eq_refl eq_refl eq_refl eq_refl eq_refl eq_refl).
  vm_compute in H. discriminate H.
Qed.
Print Assumptions C09_cmp_float_refuted.

(* with the intended valuation: 2^53+1 against the double 2^53 compares Equal *)
Theorem C09_cmp_float_refuted_rounding :
  exists a b va vb, wfb a = true /\ wfb b = true /\ non_nan a = true /\ non_nan b = true /\
    nval f64_to_Q a = Some va /\ nval f64_to_Q b = Some vb /\
    float_side_exact a b = false /\
    num_partial_cmp Debug a b = Ok (Some Eq) /\ (va ?= vb)%Q = Gt.
Proof.
  exists (Fixnum 9007199254740993), (Float (f64_of_Z 9007199254740992)),
         (inject_Z 9007199254740993), (inject_Z 9007199254740992).
  repeat split; try reflexivity; vm_compute; reflexivity.
Qed.
Print Assumptions C09_cmp_float_refuted_rounding.

(* ---- non-vacuity *)
Example C09_example :
  num_lt Debug (Fixnum (- 2 ^ 32)) (Rational 1 2) = Ok true /\
  num_gt Release (BigInt (2 ^ 100)) (Rational (2 ^ 31 - 1) 2) = Ok true /\
  num_eq Debug (BigInt 5) (Rational 5 1) = Ok true /\
  rcmp Debug 32 (2147483647, 2147483646) (2147483646, 2147483645) = Ok Lt /\
  b_num_comp CLt Debug [ANum (Fixnum 1); ANum (Rational 3 2); ANum (BigInt 2)] = Ok (RBool true).
Proof. repeat split; vm_compute; reflexivity. Qed.

(* C09_cmp_float / C09_cmp_float_inf: the side condition holds on Fixnum, BigInt and Rational
   operands against doubles (3 vs 2.5, 2^60 vs 1e300, 3/4 vs 0.75, 1/3 fails), the values exist *)
Example C09_example_float :
  float_side_exact (Fixnum 3) (Float (f64_of_bits 0x4004000000000000)) = true /\
  match nval f64_to_Q (Float (f64_of_bits 0x4004000000000000)) with
  | Some q => Qeq_bool q (5 # 2) | None => false end = true /\
  num_partial_cmp Debug (Fixnum 3) (Float (f64_of_bits 0x4004000000000000)) = Ok (Some Gt) /\
  float_side_exact (BigInt (2 ^ 60)) (Float (f64_of_bits 0x7e37e43c8800759c)) = true /\
  float_side_exact (Float (f64_of_bits 0x3fe8000000000000)) (Rational 3 4) = true /\
  num_partial_cmp Release (Float (f64_of_bits 0x3fe8000000000000)) (Rational 3 4) = Ok (Some Eq) /\
  float_side_exact (Rational 1 3) (Float (f64_of_bits 0x3fd5555555555555)) = false /\
  nvalx (Float (f64_inf true)) = Some XNegInf /\
  float_side_exact (Rational 1 3) (Fixnum (2 ^ 60 + 1)) = true /\
  rwfb (-5) (2 ^ 3) = true /\
  num_partial_cmp Debug (Rational (-5) (2 ^ 3)) (Float (f64_of_bits 0xbfe4000000000000)) = Ok (Some Eq).
Proof. repeat split; vm_compute; reflexivity. Qed.

(* C09_full_outside_rounding: a chain across three representations satisfying all its
   hypotheses ((= 4 4.0 8/2-as-BigInt)), and the refuting triple of C09_refuted_rounding outside *)
Example C09_example_trans :
  let a := Fixnum 4 in let b := Float (f64_of_Z 4) in let c := BigInt 4 in
  float_side_exact a b = true /\ float_side_exact b c = true /\ float_side_exact a c = true /\
  num_eq Debug a b = Ok true /\ num_eq Debug b c = Ok true /\
  float_side_exact (Fixnum 9007199254740993) (Float (f64_of_Z 9007199254740992)) = false.
Proof. repeat split; vm_compute; reflexivity. Qed.
