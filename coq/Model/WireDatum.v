(* WireDatum.v — wire interfaces 7, 8, 9 (work package "c10"): a DATUM travels on
   the wire in a prefix encoding, is printed, read back and quote-evaluated, and
   the results are shown with a STRUCTURAL printer ([dump]: representation tags,
   exact values, float bit patterns, code points) — never with the Scheme printer,
   which is the thing under test.  Mirrors harness/src/area_datum.rs.
     datum :=  0                      ()
            |  1 | 2                  #f | #t
            |  3 cp                   character
            |  4 s abs                Fixnum          (s = 1: negative)
            |  5 s abs                BigInt carrying ANY integer (also small ones)
            |  6 ns nabs ds dabs      Rational32::new_raw (as stored)
            |  7 bits                 f64::from_bits
            |  8 n cp*n               string
            |  9 n cp*n               symbol
            | 10 datum datum          pair
            | 11 n datum*n            vector
            | 12 n cp*n               the datum that parse::parse_text reads from this SOURCE TEXT
                                      (whatever follows the first datum is ignored); the case is
                                      BADCASE/PANIC when the text does not read
     7 datum   `I <dump d> W <write d> R <dump of the re-read datum> NONE|REST W2 <write of it>`
     8 datum   `I <dump d> Q <dump of the value of (quote d)>`   on the booted machine
     9 datum   `D <display d>`
   Definitions only.                                                            *)
From Coq Require Import String ZArith.
From MW Require Import Model.Base Model.F64 Model.Num Model.NumFmt Model.Datum Model.Lex Model.Parse
  Model.WireNumFmt Model.VmTypes Model.VmBase Model.Vm Model.Builtins.
Open Scope N_scope.

Fixpoint datum_take (k : nat) (c : list N) : option (list N * list N) :=
  match k with
  | O => Some ([], c)
  | S k' => match c with
            | x :: r => match datum_take k' r with Some (a, b) => Some (x :: a, b) | None => None end
            | [] => None
            end
  end.

(* one datum and the rest of the case; fuel = length of the case *)
Fixpoint datum_dec (fuel : nat) (c : list N) {struct fuel} : option (cell * list N) :=
  match fuel with
  | O => None
  | S f =>
      match c with
      | 0 :: r => Some (CNil, r)
      | 1 :: r => Some (CBool false, r)
      | 2 :: r => Some (CBool true, r)
      | 3 :: ch :: r => Some (CChar ch, r)
      | 4 :: s :: a :: r => Some (CNum (Fixnum (zsign s a)), r)
      | 5 :: s :: a :: r => Some (CNum (BigInt (zsign s a)), r)
      | 6 :: ns :: na :: ds :: da :: r => Some (CNum (Rational (zsign ns na) (zsign ds da)), r)
      | 7 :: b :: r => Some (CNum (Float (f64_of_bits (Z.of_N b))), r)
      | 8 :: n :: r => match datum_take (N.to_nat n) r with Some (t, r') => Some (CStr t, r') | None => None end
      | 9 :: n :: r => match datum_take (N.to_nat n) r with Some (t, r') => Some (CSym t, r') | None => None end
      | 10 :: r =>
          match datum_dec f r with
          | Some (a, r1) => match datum_dec f r1 with
                            | Some (d, r2) => Some (CPair a d, r2)
                            | None => None end
          | None => None
          end
      | 11 :: n :: r =>
          let fix elems (k : nat) (r : list N) : option (list cell * list N) :=
            match k with
            | O => Some ([], r)
            | S k' => match datum_dec f r with
                      | Some (x, r1) => match elems k' r1 with
                                        | Some (xs, r2) => Some (x :: xs, r2)
                                        | None => None end
                      | None => None
                      end
            end in
          match elems (N.to_nat n) r with Some (l, r') => Some (CVec l, r') | None => None end
      | 12 :: n :: r =>
          match datum_take (N.to_nat n) r with
          | Some (t, r') => match parse_text t with Ok (d, _) => Some (d, r') | _ => None end
          | None => None
          end
      | _ => None
      end
  end.

(* a source text that makes the reader panic is reported as such *)
Definition source_panics (c : list N) : bool :=
  match c with
  | 12 :: n :: r =>
      match datum_take (N.to_nat n) r with
      | Some (t, _) => match parse_text t with Panic _ => true | _ => false end
      | None => false
      end
  | _ => false
  end.

Definition show_cps (t : text) : list N :=
  show_N (N.of_nat (length t)) ++ flat_map (fun c => 32 :: show_hex c) t.

(* the structural printer: every item starts with a space *)
Fixpoint dump (c : cell) : list N :=
  match c with
  | CNil => S_ " nil"
  | CBool true => S_ " t"
  | CBool false => S_ " f"
  | CChar ch => S_ " ch " ++ show_hex ch
  | CNum n => 32 :: show_num n
  | CStr s => S_ " str " ++ show_cps s
  | CSym s => S_ " sym " ++ show_cps s
  | CPair a d => S_ " pair" ++ dump a ++ dump d
  | CVec l =>
      let fix elems (l : list cell) : list N :=
        match l with [] => [] | x :: r => dump x ++ elems r end in
      S_ " vec " ++ show_N (N.of_nat (length l)) ++ elems l
  | _ => S_ " other"
  end.

(* esc_text with the space escaped too: every field of a result line is one word *)
Definition esc_word (t : text) : list N :=
  flat_map (fun c => if c =? 32 then S_ "\u{20}" else esc_cp c) t.

Definition run_write_read (d : cell) : list N :=
  let w := write d in
  S_ "I" ++ dump d ++ S_ " W " ++ esc_word w ++ S_ " R" ++
  match parse_text w with
  | Ok (d', rest) =>
      dump d' ++ (match rest with None => S_ " NONE" | Some _ => S_ " REST" end)
      ++ S_ " W2 " ++ esc_word (write d')
  | Err e => if e =? E_INCOMPLETE then S_ " ERR incomplete" else S_ " ERR"
  | Panic _ => S_ " PANIC"
  | NoFuel => S_ " NOFUEL"
  end.

(* (quote d) built as a Cell and handed to Vm::eval on the machine booted with the prelude *)
Definition quote_form (d : cell) : cell := new_list [CSym QUOTE; d].
Definition run_quote_eval (d : cell) : list N :=
  match booted with
  | None => S_ "BOOTFAIL"
  | Some s0 =>
      match eval_cell (quote_form d) s0 with
      | ROk (Done c) _ => S_ "I" ++ dump d ++ S_ " Q" ++ dump c
      | ROk (Failed _ _ _) _ => S_ "I" ++ dump d ++ S_ " Q ERR"
      | ROk Yield _ => S_ "I" ++ dump d ++ S_ " Q NOFUEL"
      | RErr _ _ _ => S_ "I" ++ dump d ++ S_ " Q ERR"
      | RPanic _ => S_ "I" ++ dump d ++ S_ " Q PANIC"
      | RNoFuel => S_ "I" ++ dump d ++ S_ " Q NOFUEL"
      end
  end.

Definition run_datum (c : list N) : list N :=
  match c with
  | id :: r =>
      match datum_dec (S (length r)) r with
      | Some (d, []) =>
          if id =? 7 then run_write_read d
          else if id =? 8 then run_quote_eval d
          else if id =? 9 then S_ "D " ++ esc_word (display d)
          else S_ "BADCASE"
      | _ => if source_panics r then S_ "PANIC" else S_ "BADCASE"
      end
  | [] => S_ "BADCASE"
  end.
