(* Datum.v — marwood::cell::Cell (cell.rs:9-27) and its printer (cell.rs:385-504,
   char.rs:26-42).  [write] is format!("{:#}"), [display] is format!("{}").     *)
From Coq Require Import String.
From MW Require Import Model.Base Model.F64 Model.Num Model.NumFmt.
Open Scope N_scope.

Inductive cell :=
| CBool (b : bool) | CChar (c : cp) | CNil | CNum (n : num)
| CPair (a d : cell) | CStr (s : text) | CSym (s : text) | CVec (l : list cell)
| CCont | CMacro | CProc (desc : option text) | CUndef | CVoid.

Definition S_ (s : String.string) : text := ascii_of_string s.

Definition sym_is (c : cell) (name : text) : bool :=
  match c with CSym s => if list_eq_dec N.eq_dec s name then true else false | _ => false end.
Definition QUOTE : text := [113;117;111;116;101].
Definition QUASIQUOTE : text := [113;117;97;115;105;113;117;111;116;101].
Definition UNQUOTE : text := [117;110;113;117;111;116;101].

(* Cell::new_list / new_improper_list (cell.rs:38-93) *)
Fixpoint mk_list (l : list cell) (tail : cell) : cell :=
  match l with [] => tail | x :: r => CPair x (mk_list r tail) end.
(* construct_list: with an empty element vector the improper tail is dropped *)
Definition new_list (l : list cell) : cell := mk_list l CNil.
Definition new_improper_list (l : list cell) (tail : cell) : cell :=
  match l with [] => CNil | _ => mk_list l tail end.

(* char.rs:26-42; the named arms after the is_control test are unreachable for
   control characters and kept as written *)
Definition write_escaped_char (c : cp) : text :=
  if c =? 32 then S_ "#\space"%string
  else if c =? 10 then S_ "#\newline"%string
  else if is_control c then [35;92;120] ++ show_hex c
  else if c =? 7 then S_ "#\alarm"%string else if c =? 8 then S_ "#\backspace"%string
  else if c =? 127 then S_ "#\delete"%string else if c =? 27 then S_ "#\escape"%string
  else if c =? 0 then S_ "#\null"%string else if c =? 13 then S_ "#\return"%string
  else if c =? 9 then S_ "#\tab"%string
  else [35;92;c].

(* cell.rs:437-458, alternate (write) form of a string *)
Definition write_string_char (c : cp) : text :=
  if (c =? 34) || (c =? 92) then [92;c]
  else if c =? 9 then [92;116] else if c =? 10 then [92;110] else if c =? 13 then [92;114]
  else if c =? 27 then [92;101] else if c =? 7 then [92;97] else if c =? 8 then [92;98]
  else if c =? 11 then [92;118] else if c =? 12 then [92;102]
  else if is_control c then [92;120] ++ show_hex c ++ [59]
  else [c].

Definition show_proc (d : option text) : text :=
  match d with
  | Some d => S_ "#<procedure:"%string ++ d ++ [62]
  | None => S_ "#<procedure>"%string
  end.

(* Display for Cell; [alt] = f.alternate().  The quote sugar applies to any pair
   whose car is the symbol quote and whose cdr is a one-element list. *)
Fixpoint show_cell (alt : bool) (c : cell) {struct c} : text :=
  match c with
  | CPair a d =>
      let fix rest (d : cell) {struct d} : text :=
        match d with
        | CNil => [41]
        | CPair na nd => [32] ++ show_cell alt na ++ rest nd
        | other => [32;46;32] ++ show_cell alt other ++ [41]
        end in
      match d with
      | CPair x CNil => if sym_is a QUOTE then 39 :: show_cell alt x
                        else 40 :: show_cell alt a ++ rest d
      | _ => 40 :: show_cell alt a ++ rest d
      end
  | CBool b => if b then [35;116] else [35;102]
  | CChar ch => if alt then write_escaped_char ch else [ch]
  | CNum n => num_display n
  | CStr s => if alt then [34] ++ flat_map write_string_char s ++ [34] else s
  | CSym s => s
  | CNil => [40;41]
  | CVec l =>
      let fix elems (l : list cell) : text :=
        match l with
        | [] => []
        | [x] => show_cell alt x
        | x :: r => show_cell alt x ++ [32] ++ elems r
        end in
      [35;40] ++ elems l ++ [41]
  | CCont => S_ "#<continuation>"%string
  | CMacro => S_ "#<macro>"%string
  | CProc d => show_proc d
  | CUndef => S_ "#<undefined>"%string
  | CVoid => S_ "#<void>"%string
  end.

Definition write (c : cell) : text := show_cell true c.
Definition display (c : cell) : text := show_cell false c.
