(* Highlight.v — model of marwood/src/syntax.rs (ReplHighlighter), as of the
   tree with the C20 fix (vector openers nest like opening brackets).          *)
From MW Require Import Model.Base Model.Lex.
Open Scope N_scope.

(* syntax.rs:124-129 find_token_at_index: first token whose span covers index *)
Fixpoint find_token_at_index (ts : list token) (i : nat) (index : N) : option (nat * token) :=
  match ts with
  | [] => None
  | t :: r => if (t_start t <=? index) && (index <? t_end t) then Some (i, t)
              else find_token_at_index r (S i) index
  end.

(* syntax.rs:111-122 *)
Definition find_token_at_cursor (ts : list token) (index : N) : option (nat * token) :=
  match find_token_at_index ts O index with
  | Some x => Some x
  | None => if 0 <? index then find_token_at_index ts O (index - 1) else None
  end.

(* `#(` is counted as an opening bracket *)
Definition norm_ty (ty : ttype) : ttype :=
  match ty with THashParen => TLeft | t => t end.

(* the counter scan of find_matching_bracket, syntax.rs:93-108 *)
Fixpoint match_scan (have want : ttype) (stack : nat) (ts : list token) : option token :=
  match ts with
  | [] => None
  | t :: r =>
      let ty := norm_ty (t_ty t) in
      let stack := if ttype_eqb ty have then S stack else stack in
      if ttype_eqb ty want then
        match stack with
        | O => Some t
        | S s => match_scan have want s r
        end
      else match_scan have want stack r
  end.

(* syntax.rs:74-109 *)
Definition find_matching_bracket (ts : list token) (b : nat * token) : option token :=
  match norm_ty (t_ty (snd b)) with
  | TRight => match_scan TRight TLeft O (rev (firstn (fst b) ts))
  | TLeft => match_scan TLeft TRight O (skipn (S (fst b)) ts)
  | _ => None
  end.

Definition ESC_ON : text := [27; 91; 52; 109].   (* ESC [ 4 m *)
Definition ESC_OFF : text := [27; 91; 48; 109].  (* ESC [ 0 m *)

(* syntax.rs:20-51.  The three slices are Rust byte slices: off a character
   boundary they panic. *)
Definition highlight (t : text) (index : N) : out text :=
  match scan t with
  | Ok ts =>
      match find_token_at_cursor ts index with
      | None => Ok t
      | Some cur =>
          match find_matching_bracket ts cur with
          | None => Ok t
          | Some p =>
              do mid <- slice t (t_start p) (t_end p);
              do pre <- slice t 0 (t_start p);
              do post <- slice_from t (t_end p);
              Ok (pre ++ ESC_ON ++ mid ++ ESC_OFF ++ post)
          end
      end
  | Err _ => Ok t
  | Panic s => Panic s
  | NoFuel => NoFuel
  end.

(* syntax.rs:53-71 *)
Definition highlight_check (t : text) (index : N) : out bool :=
  match scan t with
  | Ok ts =>
      let index := index - 1 in   (* saturating_sub; N subtraction truncates at 0 *)
      match find_token_at_cursor ts index with
      | Some (_, k) => Ok (match t_ty k with TLeft | TRight => true | _ => false end)
      | None => Ok false
      end
  | Err _ => Ok false
  | Panic s => Panic s
  | NoFuel => NoFuel
  end.
