(* ListVecSpec.v — the SPECIFICATION side of C14: an abstract store of pair and vector
   locations, the abstraction function from the machine, the invariant
   [values_are_refs], and the R7RS-level meaning of the procedures on the abstract
   store.  Definitions only (Props and functions); the lemmas are in
   Proofs/ListVecProofs.v.                                                          *)
From MW Require Import Model.Base Model.F64 Model.Num Model.Datum Model.TransformDef
  Model.VmTypes Model.Heap Model.VmBase Model.ListVec.
Open Scope N_scope.

(* ------------------------------------------------------------- abstract store *)
(* A location is the identity of a mutable object.  A pair is identified by the heap
   address of its cell, a vector by its Rc (the id in the side table) — NOT by the heap
   cell that holds the Rc —, a string by its Rc, a procedure-like object by its cell. *)
Inductive loc := LPair (p : N) | LVec (vid : N) | LStr (sid : N) | LObj (p : N).

(* A value is an immediate or a location.  [ABad] = not a value at all (a pair or
   vector held by value, a dangling pointer, a machine-internal cell). *)
Inductive aval := AImm (v : vcell) | ALoc (l : loc) | ABad.

(* what a pointer to the cell [c] at address [p] denotes *)
Definition cell_val (p : N) (c : vcell) : aval :=
  match c with
  | VPair _ _ => ALoc (LPair p)
  | VVec vid => ALoc (LVec vid)
  | VStr sid => ALoc (LStr sid)
  | VBool _ | VChar _ | VNil | VNum _ | VSym _ | VVoid | VUndef => AImm c
  | VClosure _ _ | VLambda _ | VBuiltin _ | VCont _ | VMacro _ => ALoc (LObj p)
  | _ => ABad
  end.

(* the value denoted by a machine value: an immediate denotes itself, a pointer what
   its cell denotes (first indirection); pairs, vectors, strings and symbols held by
   value are not values *)
Definition absv (s : vm) (v : vcell) : aval :=
  match v with
  | VPtr p => match heap_get (hp s) p with Ok c => cell_val p c | _ => ABad end
  | VBool _ | VChar _ | VNil | VNum _ | VVoid | VUndef => AImm v
  | _ => ABad
  end.

Record astore := mk_astore {
  a_pair : N -> option (aval * aval);      (* contents of the pair at a heap address *)
  a_vec : N -> option (list aval)          (* contents of the vector with an Rc id *)
}.

(* abs follows marwood's double indirection: the car and cdr of a pair cell are
   ADDRESSES of cells (second indirection) whose denotation is the field's value *)
Definition abs (s : vm) : astore :=
  mk_astore
    (fun p => match heap_get (hp s) p with
              | Ok (VPair a d) => Some (absv s (VPtr a), absv s (VPtr d))
              | _ => None
              end)
    (fun vid => match tget (vecs (st s)) vid with
                | Some l => Some (map (absv s) l)
                | None => None
                end).

(* ------------------------------------------------------------------ invariant *)
Definition live (h : heap) (p : N) : Prop := p < hlen h /\ ~ In p (free_list h).

Definition blank (h : heap) (p : N) : Prop :=
  match tget (cells h) p with None | Some VUndef => True | _ => False end.

(* the allocator's own invariant (heap.rs): a positive chunk size, at least one
   chunk, free cells distinct, in range and blank, nothing beyond the end *)
Definition heap_ok (h : heap) : Prop :=
  0 < chunk h /\ chunk h <= hlen h /\ NoDup (free_list h) /\
  (forall p, In p (free_list h) -> p < hlen h) /\
  (forall p, ~ live h p -> blank h p).

(* a cell that a value pointer may target: not itself a pointer, not machine-internal *)
Definition data_cell (c : vcell) : Prop :=
  match c with
  | VPtr _ | VAcc | VArgc _ | VBp _ | VBpOff _ | VEp _ | VGSlot _ | VIp _ _ | VOp _
  | VLexEnv _ | VLexSlot _ | VLexPtr _ _ => False
  | _ => True
  end.

Definition target_ok (s : vm) (p : N) : Prop :=
  live (hp s) p /\ exists c, heap_get (hp s) p = Ok c /\ data_cell c.

(* values_are_refs (DESIGN A.4): a value position holds an immediate or a pointer to a
   live data cell — never a pair, vector, string or symbol by value, never a
   machine-internal cell *)
Definition val_ok (s : vm) (v : vcell) : Prop :=
  match v with
  | VPtr p => target_ok s p
  | VBool _ | VChar _ | VNil | VNum _ | VVoid | VUndef => True
  | _ => False
  end.

(* the part of the machine invariant the data builtins rely on and maintain.  The
   value positions outside the heap (stack slots, environments, global slots, %acc)
   are covered by the monotonicity clause of every theorem: a value that is [val_ok]
   before a builtin runs is [val_ok] afterwards and denotes the same abstract value. *)
Definition values_are_refs (s : vm) : Prop :=
  heap_ok (hp s) /\
  (* the fields of every pair are addresses of live data cells *)
  (forall p a d, heap_get (hp s) p = Ok (VPair a d) -> target_ok s a /\ target_ok s d) /\
  (* every vector element is a value; every vector cell has its Rc payload *)
  (forall vid l, tget (vecs (st s)) vid = Some l -> Forall (val_ok s) l) /\
  (forall p vid, heap_get (hp s) p = Ok (VVec vid) -> tget (vecs (st s)) vid <> None) /\
  (forall vid, next_id (st s) <= vid -> tget (vecs (st s)) vid = None).

(* the top of the stack, topmost value first.  The stack is the slot table [stk] of a
   Vec of [cap] slots (Model/VmBase.v): slot p can be popped when p <> 0 and p < cap
   (Stack::pop, stack.rs:158-167), and holds [sget] = the table entry, Undefined if absent *)
Fixpoint stack_top (stk : tbl vcell) (cap p : N) (l : list vcell) : Prop :=
  match l with
  | [] => True
  | v :: r => p <> 0 /\ p < cap /\
              (match tget stk p with Some x => x | None => VUndef end) = v /\
              stack_top stk cap (p - 1) r
  end.

(* a builtin called with the argument values [args] (first argument first) *)
Definition called_with (s : vm) (args : list vcell) : Prop :=
  stack_top (stack s) (scap s) (sp s) (VArgc (len args) :: rev args).

(* -------------------------------------------------------- abstract operations *)
(* a finite chain of pairs: its elements and the value that ends it (the empty list
   for a proper list, anything that is not a pair for an improper one).  A circular
   list has no such chain. *)
Inductive achain (a : astore) : aval -> list aval -> aval -> Prop :=
| ac_end : forall v, (forall p, v <> ALoc (LPair p)) -> achain a v [] v
| ac_cons : forall p x d xs e,
    a_pair a p = Some (x, d) -> achain a d xs e -> achain a (ALoc (LPair p)) (x :: xs) e.

(* an initial segment of a chain: the locations of its pairs, their elements, and the
   value the segment leads to.  Used to say "a NEWLY ALLOCATED list with elements xs
   that shares its tail with e" (append) or "... that ends in ()" (reverse, list,
   vector->list). *)
Inductive aprefix (a : astore) : aval -> list N -> list aval -> aval -> Prop :=
| ap_nil : forall v, aprefix a v [] [] v
| ap_cons : forall p x d ps xs e,
    a_pair a p = Some (x, d) -> aprefix a d ps xs e ->
    aprefix a (ALoc (LPair p)) (p :: ps) (x :: xs) e.

(* the proper-list reading of an abstract value *)
Definition alist (a : astore) (v : aval) (xs : list aval) : Prop := achain a v xs (AImm VNil).

(* the k-th tail of a chain of pairs *)
Inductive atail (a : astore) : aval -> nat -> aval -> Prop :=
| atail_0 : forall v, atail a v O v
| atail_S : forall p x d k r,
    a_pair a p = Some (x, d) -> atail a d k r -> atail a (ALoc (LPair p)) (S k) r.

(* eqv? on immediates: compare.rs after fix F17 on numbers; symbols by name *)
Definition imm_eqv (v w : vcell) : bool :=
  match v, w with
  | VBool a, VBool b => Bool.eqb a b
  | VChar a, VChar b => a =? b
  | VNil, VNil => true
  | VNum a, VNum b => num_eqv a b
  | VSym a, VSym b => text_eqb a b
  | _, _ => false
  end.

(* structural equality of R7RS equal? on the abstract store (finite data): pairs and
   vectors by contents, strings by their text, everything else by eqv? *)
Inductive aequal (s : vm) : aval -> aval -> Prop :=
| aeq_imm : forall v w, imm_eqv v w = true -> aequal s (AImm v) (AImm w)
| aeq_same : forall l, aequal s (ALoc l) (ALoc l)
| aeq_pair : forall p q x d y e,
    a_pair (abs s) p = Some (x, d) -> a_pair (abs s) q = Some (y, e) ->
    aequal s x y -> aequal s d e -> aequal s (ALoc (LPair p)) (ALoc (LPair q))
| aeq_vec : forall u v xs ys,
    a_vec (abs s) u = Some xs -> a_vec (abs s) v = Some ys ->
    Forall2 (aequal s) xs ys -> aequal s (ALoc (LVec u)) (ALoc (LVec v))
| aeq_str : forall u v t,
    tget (strs (st s)) u = Some t -> tget (strs (st s)) v = Some t ->
    aequal s (ALoc (LStr u)) (ALoc (LStr v)).

(* finite plain data (no procedures, no unspecified values), with a bound on the number
   of nodes: the domain of equal? in the property (acyclic data) *)
Inductive adatum (s : vm) : aval -> nat -> Prop :=
| ad_imm : forall v n,
    match v with VBool _ | VChar _ | VNil | VNum _ | VSym _ => True | _ => False end ->
    adatum s (AImm v) n
| ad_str : forall u t n, tget (strs (st s)) u = Some t -> adatum s (ALoc (LStr u)) n
| ad_pair : forall p x d n,
    a_pair (abs s) p = Some (x, d) -> adatum s x n -> adatum s d n ->
    adatum s (ALoc (LPair p)) (S n)
| ad_vec : forall u xs n,
    a_vec (abs s) u = Some xs -> Forall (fun x => adatum s x n) xs ->
    adatum s (ALoc (LVec u)) (S n).

(* symbols are interned (C18's symtab_inv): one cell per name *)
Definition sym_interned (s : vm) : Prop :=
  forall p q t, heap_get (hp s) p = Ok (VSym t) -> heap_get (hp s) q = Ok (VSym t) -> p = q.
