(* Vm.v — marwood/src/vm/run.rs (run loop and instruction set), continuation.rs,
   trace.rs, builtin/procedure.rs (apply, call/cc, error, eval), builtin/ports.rs
   and vm/mod.rs (prepare_eval / eval).  Definitions only.                       *)
From Coq Require Import String.
From MW Require Import Model.Base Model.F64 Model.Num Model.Datum Model.TransformDef Model.Transform
  Model.VmTypes Model.Heap Model.VmBase Model.Compile.
From MW Require Gen.Builtins.
Open Scope N_scope.

(* ------------------------------------------------------------ builtin names *)
Definition builtin_name (b : N) : text :=
  match nth_error Gen.Builtins.builtin_table (N.to_nat b) with Some (n, _) => n | None => [] end.
(* get_as_cell with the fuel used everywhere: the number of heap cells bounds every
   acyclic structure; cyclic data exhausts it (the Rust loops forever) *)
Definition cell_fuel (s : vm) : nat := S (N.to_nat (hlen (hp s))).
Definition to_cell (v : vcell) : M cell := fun s => as_cell builtin_name (cell_fuel s) v s.

(* ----------------------------------------------------------- small helpers *)
Definition as_argc (v : vcell) : M N := match v with VArgc n => ret n | _ => fail E_OTHER end.
Definition as_bp (v : vcell) : M N := match v with VBp n => ret n | _ => fail E_OTHER end.
Definition as_ep (v : vcell) : M N := match v with VEp n => ret n | _ => fail E_OTHER end.
Definition as_ip (v : vcell) : M (N * N) := match v with VIp a b => ret (a, b) | _ => fail E_OTHER end.
(* usize subtraction: underflow panics (debug build) *)
Definition usub (a b : N) : M N := if a <? b then panic 40 else ret (a - b).

Definition get_lambda (lid : N) : M lambda := fun s =>
  match tget (lams (st s)) lid with Some l => ROk l s | None => RPanic 41 end.
Definition as_lambda (v : vcell) : M lambda :=
  match v with VLambda lid => get_lambda lid | _ => fail E_OTHER end.
(* Vm::lambda(), run.rs:353-358: expect("%ip is not a procedure") *)
Definition cur_lambda : M lambda := fun s =>
  match heap_get (hp s) (fst (ip s)) with
  | Ok (VLambda lid) => get_lambda lid s
  | Ok _ => RPanic 42
  | Err e => RErr e [] s | Panic k => RPanic k | NoFuel => RNoFuel
  end.

Definition env_slots (eid : N) : M (list vcell) := fun s =>
  match tget (envs (st s)) eid with Some l => ROk l s | None => RPanic 43 end.
Definition as_lexenv (v : vcell) : M N := match v with VLexEnv eid => ret eid | _ => fail E_OTHER end.
(* LexicalEnvironment::get / put: expect("slot index out of bounds") *)
Definition env_get (eid i : N) : M vcell :=
  dom l <- env_slots eid; match list_get l i with Some v => ret v | None => panic 44 end.
Definition env_put (eid i : N) (v : vcell) : M unit :=
  dom l <- env_slots eid;
  if i <? len l then fun s => ROk tt (with_store s (set_env (st s) eid (list_set l i v))) else panic 44.
Definition env_new (l : list vcell) : M vcell := fun s =>
  let '(i, x) := new_env (st s) l in ROk (VLexEnv i) (with_store s x).

Definition set_ip (i : N * N) : M unit := fun s => ROk tt (with_ip s i).
Definition set_acc (v : vcell) : M unit := fun s => ROk tt (with_acc s v).
Definition set_bp (b : N) : M unit := fun s => ROk tt (with_bp s b).
Definition set_ep (e : N) : M unit := fun s => ROk tt (with_ep s e).
Definition set_sp (p : N) : M unit := fun s => ROk tt (with_sp s p).

(* ------------------------------------------------------- operand handling *)
(* run.rs:447-458 *)
Definition read_opcode : M opcode :=
  dom l <- cur_lambda;
  dom s <- get_vm;
  match list_get (l_bc l) (snd (ip s)) with
  | Some (VOp o) => dom _ <- set_ip (fst (ip s), snd (ip s) + 1); ret o
  | Some _ => fail E_OTHER
  | None => fail E_OTHER
  end.
(* run.rs:364-375 *)
Definition read_operand : M vcell :=
  dom l <- cur_lambda;
  dom s <- get_vm;
  match list_get (l_bc l) (snd (ip s)) with
  | Some (VOp _) => fail E_OTHER
  | Some v => dom _ <- set_ip (fst (ip s), snd (ip s) + 1); ret v
  | None => fail E_OTHER
  end.

(* run.rs:381-404 *)
Definition load_operand : M vcell :=
  dom o <- read_operand;
  dom s <- get_vm;
  match o with
  | VAcc => ret (acc s)
  | VPtr p => hget p
  | VBpOff off =>
      let i := (Z.of_N (bp s) + off)%Z in
      if (i <? 0)%Z then fail E_OTHER else stack_get (Z.to_N i)
  | VGSlot slot =>
      match list_get (g_slots s) slot with
      | None => panic 45                    (* expect("invalid environment slot") *)
      | Some VUndef => fail E_OTHER         (* VariableNotBound *)
      | Some v => ret v
      end
  | VLexSlot slot =>
      dom ev <- hget (ep s); dom eid <- as_lexenv ev;
      dom v <- env_get eid slot;
      match v with
      | VLexPtr env slot2 => dom ev2 <- hget env; dom eid2 <- as_lexenv ev2; env_get eid2 slot2
      | _ => ret v
      end
  | _ => fail E_OTHER
  end.

(* run.rs:410-441 *)
Definition store_operand (v : vcell) : M unit :=
  dom o <- read_operand;
  dom s <- get_vm;
  match o with
  | VAcc => set_acc v
  | VPtr p => hset p v
  | VBpOff off =>
      (* get_offset_mut((bp as i64) + offset): relative to SP as written (run.rs:419) *)
      stack_put_offset (Z.of_N (bp s) + off)%Z v
  | VGSlot slot =>
      if slot <? len (g_slots s)
      then fun s => ROk tt (with_globals s (g_bind s) (list_set (g_slots s) slot v))
      else panic 45
  | VLexSlot slot =>
      dom ev <- hget (ep s); dom eid <- as_lexenv ev;
      dom cur <- env_get eid slot;
      match cur with
      | VLexPtr env slot2 => dom ev2 <- hget env; dom eid2 <- as_lexenv ev2; env_put eid2 slot2 v
      | _ => env_put eid slot v
      end
  | _ => fail E_OTHER
  end.

(* run.rs:464-469 *)
Definition load_arg (index : N) : M vcell :=
  dom s <- get_vm;
  dom a <- stack_get (bp s + 1); dom argc <- as_argc a;
  dom base <- usub (bp s) argc;
  stack_get (base + index + 1).

(* run.rs:518-543 *)
Definition build_closure_environment (envmap : list (vcell * bsrc)) : M (list vcell) :=
  let fix go (m : list (vcell * bsrc)) (acc : list vcell) : M (list vcell) :=
    match m with
    | [] => ret (rev acc)
    | (_, src) :: r =>
        match src with
        | BIofArgument a => dom v <- load_arg a; go r (v :: acc)
        | BIofEnvironment iof_slot =>
            dom s <- get_vm;
            dom ev <- hget (ep s); dom eid <- as_lexenv ev;
            dom cur <- env_get eid iof_slot;
            match cur with
            | VLexPtr _ _ => go r (cur :: acc)
            | _ => go r (VLexPtr (ep s) iof_slot :: acc)
            end
        | _ => go r (VUndef :: acc)
        end
    end in
  go envmap [].

(* run.rs:555-578 *)
Definition build_lexical_environment (l : lambda) (closure_env_ptr : N) (closure_env : list vcell) : M (list vcell) :=
  let argc := len (l_args l) in
  let fix go (m : list (vcell * bsrc)) (slot : N) (env : list vcell) : M (list vcell) :=
    match m with
    | [] => ret env
    | (_, src) :: r =>
        match src with
        | BArgument a =>
            dom s <- get_vm;
            dom k <- usub argc a;
            dom base <- usub (bp s) k;
            dom v <- stack_get (base + 1);
            go r (slot + 1) (list_set env slot v)
        | BIofArgument _ | BIofEnvironment _ =>
            match list_get closure_env slot with
            | None => panic 44
            | Some (VLexPtr _ _) => go r (slot + 1) env
            | Some _ =>
                if slot <? len env then go r (slot + 1) (list_set env slot (VLexPtr closure_env_ptr slot))
                else panic 44
            end
        | _ => go r (slot + 1) env
        end
    end in
  go (l_envmap l) 0 closure_env.

(* continuation.rs:32-48, stack.rs:184-200 *)
Definition to_continuation : M vcell := fun s =>
  let k := mk_cont (stack_to_sp s) (sp s) (ep s) (ip s) (bp s) in
  let '(cid, x) := new_cont (st s) k in ROk (VCont cid) (with_store s x).
(* stack[..cont.len] = cont.stack (split_at_mut panics when the live stack is
   shorter than the saved one; it never is: the Vec does not shrink) *)
Fixpoint write_slots (l : list vcell) (i : N) (t : tbl vcell) : tbl vcell :=
  match l with [] => t | v :: r => write_slots r (i + 1) (tset t i v) end.
Definition restore_continuation (cid : N) : M unit := fun s =>
  match tget (conts (st s)) cid with
  | None => RPanic 46
  | Some k =>
      if scap s <? len (k_stack k) then RPanic 47
      else
        let s1 := with_stack s (write_slots (k_stack k) 0 (stack s)) (k_sp k) in
        ROk tt (with_acc (with_bp (with_ip (with_ep s1 (k_ep k)) (k_ip k)) (k_bp k)) VUndef)
  end.

(* ------------------------------------------------ builtins of procedure.rs *)
Fixpoint pop_n_cells (n : nat) (acc : list cell) : M (list cell) :=
  match n with
  | O => ret acc
  | S k => dom v <- pop_raw; dom c <- to_cell v; pop_n_cells k (c :: acc)
  end.
Fixpoint join_sp (l : list text) : text :=
  match l with [] => [] | [x] => x | x :: r => x ++ [32] ++ join_sp r end.
(* procedure.rs:21-29 *)
Definition b_error : M vcell :=
  dom argc <- pop_argc 1 None;
  dom cs <- pop_n_cells (N.to_nat argc) [];
  fail_msg E_USER (join_sp (map write cs)).

Definition dec_ip : M unit := fun s =>
  if snd (ip s) =? 0 then RPanic 48 else ROk tt (with_ip s (fst (ip s), snd (ip s) - 1)).

(* procedure.rs:42-59 *)
Definition b_eval : M vcell :=
  dom _ <- pop_argc 1 (Some 1);
  dom v <- pop_deref;
  dom e <- to_cell v;
  let lam := emit_op (set_top (lambda_new [])) OEnter in
  dom lam1 <- compile lam true e;
  dom lp <- put_lambda (emit_op lam1 ORet);
  dom _ <- push (VArgc 0);
  dom _ <- dec_ip;
  ret lp.

(* procedure.rs:74-106 *)
Definition b_apply : M vcell :=
  dom argc <- pop_argc 2 None;
  dom rest <- pop_deref;
  match rest with
  | VNil | VPair _ _ =>
      dom proc <- stack_get_offset (- (Z.of_N argc - 2))%Z;
      let fix shift (k : nat) : M unit :=
        (* for it in (0..argc-2).rev(): stack[sp - it - 1] = stack[sp - it] *)
        match k with
        | O => ret tt
        | S k' => let it := Z.of_nat k' in
                  dom v <- stack_get_offset (- it)%Z;
                  dom _ <- stack_put_offset (- it - 1)%Z v;
                  shift k'
        end in
      dom _ <- shift (N.to_nat (argc - 2));
      dom _ <- pop_raw;
      let fix spread (fuel : nat) (r : vcell) (n : N) : M N :=
        match fuel with
        | O => fun _ => RNoFuel
        | S f =>
            match r with
            | VPair a d => dom _ <- push (VPtr a); dom r' <- hget d; spread f r' (n + 1)
            | VNil => ret n
            | _ => fail E_OTHER
            end
        end in
      dom s <- get_vm;
      dom n <- spread (cell_fuel s) rest (argc - 2);
      dom _ <- push (VArgc n);
      dom _ <- dec_ip;
      ret proc
  | _ => fail E_OTHER
  end.

Definition is_procedure (v : vcell) : bool :=
  match v with VLambda _ | VClosure _ _ | VBuiltin _ | VCont _ => true | _ => false end.
(* procedure.rs:119-134 *)
Definition b_call_cc : M vcell :=
  dom _ <- pop_argc 1 (Some 1);
  dom proc <- pop_raw;
  dom pv <- hderef proc;
  if negb (is_procedure pv) then fail E_OTHER else
  dom k <- to_continuation;
  dom kp <- hput k;
  dom _ <- push kp;
  dom _ <- push (VArgc 1);
  dom _ <- dec_ip;
  ret proc.

(* ports.rs:14-26 *)
Definition b_display (wr : bool) : M vcell :=
  dom _ <- pop_argc 1 (Some 1);
  dom v <- pop_raw;
  dom c <- to_cell v;
  fun s => ROk VVoid (with_log s ((if wr then EvWrite c else EvDisplay c) :: out_log s)).

(* ------------------------------------------------------------ run_one *)
Section Run.
(* the builtins other than those of procedure.rs/ports.rs, by builtin id *)
Variable other_builtin : N -> M vcell.

Definition text_is (a : text) (s : String.string) : bool := text_eqb a (S_ s).
Definition run_builtin (b : N) : M vcell :=
  let n := builtin_name b in
  if text_is n "apply" then b_apply
  else if text_is n "call/cc" || text_is n "call-with-current-continuation" then b_call_cc
  else if text_is n "error" then b_error
  else if text_is n "eval" then b_eval
  else if text_is n "display" then b_display false
  else if text_is n "write" then b_display true
  else other_builtin b.

Inductive callee := CLambda (p : N) | CDone.

(* the common head of CALL %acc and TCALL %acc, run.rs:146-170 / 178-202 *)
Definition resolve_callee : M callee :=
  dom s <- get_vm;
  dom target <- hderef (acc s);
  match target with
  | VClosure lam _ => ret (CLambda lam)
  | VLambda _ => dom p <- as_ptr (acc s); ret (CLambda p)
  | VBuiltin b =>
      dom r <- run_builtin b;
      dom r' <- (match r with VPtr _ => ret r | _ => hmaybe_put r end);
      dom _ <- set_acc r';
      ret CDone
  | VCont cid =>
      dom a <- pop_raw; dom argc <- as_argc a;
      if argc =? 0 then fail E_OTHER else
      dom result <- pop_raw;
      dom _ <- restore_continuation cid;
      dom _ <- set_acc result;
      ret CDone
  | other => dom c <- to_cell other; fail E_OTHER      (* InvalidProcedure(get_as_cell(other)) *)
  end.

(* for it in 0..argc: stack[bp - it] = stack[sp - 1 - it] *)
Fixpoint tcall_copy (k : nat) (it : N) : M unit :=
  match k with
  | O => ret tt
  | S k' =>
      dom v <- stack_get_offset (-1 - Z.of_N it)%Z;
      dom s <- get_vm;
      dom dst <- usub (bp s) it;
      dom _ <- stack_put dst v;
      tcall_copy k' (it + 1)
  end.
(* for it in (0..argc).rev(): push(stack[saved_sp - it - 1]) *)
Fixpoint tcall_rebuild (k : nat) (saved_sp : N) : M unit :=
  match k with
  | O => ret tt
  | S k' =>
      dom src <- usub saved_sp (N.of_nat k' + 1);
      dom v <- stack_get src;
      dom _ <- push v;
      tcall_rebuild k' saved_sp
  end.

Fixpoint vararg_collect (k : nat) (varargs : N) : M N :=
  match k with
  | O => ret varargs
  | S k' =>
      dom a <- pop_raw; dom ap <- hput a; dom ai <- as_ptr ap;
      dom pp <- hput (VPair ai varargs); dom pi <- as_ptr pp;
      vararg_collect k' pi
  end.

(* run.rs:63-316; true = HALT *)
Definition run_one : M bool :=
  dom op <- read_opcode;
  match op with
  | OJmp => dom o <- read_operand; dom p <- as_ptr o;
            dom s <- get_vm; dom _ <- set_ip (fst (ip s), p); ret false
  | OJnt => dom o <- read_operand; dom p <- as_ptr o;
            dom s <- get_vm; dom a <- hderef (acc s);
            match a with
            | VBool false => dom _ <- set_ip (fst (ip s), p); ret false
            | _ => ret false
            end
  | OMov => dom v <- load_operand; dom _ <- store_operand v; ret false
  | OMovImmediate => dom v <- read_operand; dom _ <- store_operand v; ret false
  | OPush => dom v <- load_operand; dom _ <- push v; ret false
  | OPushImmediate => dom v <- read_operand; dom _ <- push v; ret false
  | OPushAcc => dom s <- get_vm; dom _ <- push (acc s); ret false
  | OHalt => ret true
  | OCons =>
      dom d <- pop_raw; dom dp <- hput d;
      dom a <- pop_raw; dom ap <- hput a;
      dom ai <- as_ptr ap; dom di <- as_ptr dp;
      dom p <- hput (VPair ai di); dom _ <- set_acc p; ret false
  | OVPushAcc =>
      dom v <- pop_raw; dom vp <- hderef v;
      match vp with
      | VVec vid => dom l <- vec_get vid; dom s <- get_vm;
                    dom _ <- vec_set vid (l ++ [acc s]); dom _ <- set_acc vp; ret false
      | _ => fail E_OTHER
      end
  | OClosureAcc =>
      dom s <- get_vm;
      dom lp <- as_ptr (acc s);
      dom lv <- hget lp; dom l <- as_lambda lv;
      dom env <- build_closure_environment (l_envmap l);
      dom ev <- env_new env; dom evp <- hput ev; dom ei <- as_ptr evp;
      dom cp <- hput (VClosure lp ei);
      dom _ <- set_acc cp; ret false
  | OCallAcc =>
      dom c <- resolve_callee;
      match c with
      | CDone => ret false
      | CLambda lam =>
          dom s <- get_vm;
          dom _ <- push (VEp (ep s));
          dom _ <- push (VIp (fst (ip s)) (snd (ip s)));
          dom _ <- set_ip (lam, 0); ret false
      end
  | OTCallAcc =>
      dom c <- resolve_callee;
      match c with
      | CDone => ret false
      | CLambda lam =>
          dom a <- stack_get_offset 0; dom argc <- as_argc a;
          dom s <- get_vm;
          dom fa <- stack_get (bp s + 1); dom frame_argc <- as_argc fa;
          if argc =? frame_argc then
            dom saved_bp <- stack_get (bp s + 4);
            dom _ <- tcall_copy (N.to_nat argc) 0;
            dom _ <- set_sp (bp s + 3);
            dom b <- as_bp saved_bp; dom _ <- set_bp b;
            dom _ <- set_ip (lam, 0); ret false
          else
            let saved_sp := sp s in
            dom saved_ep <- stack_get (bp s + 2);
            dom saved_ip <- stack_get (bp s + 3);
            dom saved_bp <- stack_get (bp s + 4);
            dom nsp <- usub (bp s) frame_argc;
            dom _ <- set_sp nsp;
            dom _ <- tcall_rebuild (N.to_nat argc) saved_sp;
            dom _ <- push (VArgc argc);
            dom _ <- push saved_ep;
            dom _ <- push saved_ip;
            dom b <- as_bp saved_bp; dom _ <- set_bp b;
            dom _ <- set_ip (lam, 0); ret false
      end
  | OEnter =>
      dom s <- get_vm;
      dom target <- hderef (acc s);
      dom (lp, cenv) <- (match target with
                         | VClosure lam env => ret (lam, Some env)
                         | VLambda _ => dom p <- as_ptr (acc s); ret (p, None)
                         | _ => fail E_OTHER
                         end);
      dom lv <- hget lp; dom l <- as_lambda lv;
      dom a <- stack_get_offset (-2); dom argc <- as_argc a;
      if negb (argc =? len (l_args l)) then fail E_OTHER else
      dom _ <- push (VBp (bp s));
      dom s1 <- get_vm;
      dom nb <- usub (sp s1) 4;
      dom _ <- set_bp nb;
      match cenv with
      | None => ret false
      | Some cep =>
          dom cev <- hget cep; dom ceid <- as_lexenv cev; dom cslots <- env_slots ceid;
          dom env <- build_lexical_environment l cep cslots;
          dom ev <- env_new env; dom evp <- hput ev; dom ei <- as_ptr evp;
          dom _ <- set_ep ei; ret false
      end
  | ORet =>
      dom s <- get_vm;
      dom a <- stack_get (bp s + 1); dom n <- as_argc a;
      dom nsp <- usub (bp s) n;
      dom _ <- set_sp nsp;
      dom e <- stack_get (bp s + 2); dom e' <- as_ep e; dom _ <- set_ep e';
      dom i <- stack_get (bp s + 3); dom i' <- as_ip i; dom _ <- set_ip i';
      dom b <- stack_get (bp s + 4); dom b' <- as_bp b; dom _ <- set_bp b';
      ret false
  | OVarArg =>
      dom l <- cur_lambda;
      dom req <- usub (len (l_args l)) 1;
      dom a <- stack_get_offset (-2); dom argc <- as_argc a;
      if argc <? req then fail E_OTHER else
      if argc =? req + 1 then
        dom v <- stack_get_offset (-3);
        dom ap <- hput v; dom np <- hput VNil;
        dom ai <- as_ptr ap; dom ni <- as_ptr np;
        dom pp <- hput (VPair ai ni);
        dom _ <- stack_put_offset (-3) pp; ret false
      else
        dom saved_ep <- pop_raw;      (* names as in the source: these hold ip and ep *)
        dom saved_ip <- pop_raw;
        dom _ <- pop_raw;
        dom np <- hput VNil; dom ni <- as_ptr np;
        dom varargs <- vararg_collect (N.to_nat (argc - req)) ni;
        dom _ <- push (VPtr varargs);
        dom _ <- push (VArgc (req + 1));
        dom _ <- push saved_ip;
        dom _ <- push saved_ep; ret false
  end.

(* ------------------------------------------------------------ stack trace *)
(* trace.rs:31-77; a frame = (name, desc) *)
Definition stack_trace (s : vm) : out trace :=
  do lv <- heap_get (hp s) (fst (ip s));
  match lv with
  | VLambda lid =>
      match tget (lams (st s)) lid with
      | None => Panic 41
      | Some l =>
          if snd (ip s) =? 0 then Panic 49 else           (* ip_idx -= 1 underflows *)
          let fix back (k : nat) (i : N) : N :=
            match k with
            | O => i
            | S k' => if (0 <? i) && negb (match list_get (l_bc l) i with Some (VOp _) => true | _ => false end)
                      then back k' (i - 1) else i
            end in
          let idx := back (N.to_nat (snd (ip s))) (snd (ip s) - 1) in
          match list_get (l_bc l) idx with
          | Some (VOp op) =>
              let top :=
                match op with
                | OTCallAcc | OCallAcc =>
                    match heap_deref (hp s) (acc s) with
                    | Ok (VBuiltin b) => [(Some (builtin_name b), None)]
                    | _ => []
                    end
                | _ => [] end in
              let fix frames (k : nat) (acc0 : list (option text * option cell)) : out (list (option text * option cell)) :=
                (* for sp in (0..stack.get_sp()).rev() *)
                match k with
                | O => Ok (rev acc0)
                | S k' =>
                    match sget s (N.of_nat k') with
                    | VIp lp _ =>
                        do v <- heap_get (hp s) lp;
                        match v with
                        | VLambda lid2 =>
                            match tget (lams (st s)) lid2 with
                            | Some l2 => frames k' ((None, l_desc l2) :: acc0)
                            | None => Panic 41 end
                        | _ => Panic 50           (* as_lambda().unwrap() *)
                        end
                    | _ => frames k' acc0
                    end
                end in
              do fs <- frames (N.to_nat (sp s)) [];
              Ok (top ++ [(None, l_desc l)] ++ fs)
          | _ => Panic 50
          end
      end
  | _ => Panic 50
  end.

(* ------------------------------------------------------------ run loop *)
Inductive run_result :=
| Done (c : cell)          (* HALT: Ok(Some(cell)) *)
| Yield                    (* budget exhausted: Ok(None) *)
| Failed (e : N) (msg : text) (tr : option trace).   (* Err(e); last_stacktrace = tr *)

(* run_count, run.rs:25-64 (budget tested after executing; registers reset on the
   error path), without the collector (see Gc.v; a collection is not
   observable: C03).  [count = None] is usize::MAX.  [fuel] bounds the number of
   instructions the MODEL executes; NoFuel stands for a program that does not halt
   within it. *)
Fixpoint run_loop (fuel : nat) (cycles : N) (count : option N) (s : vm) : res run_result :=
  match fuel with
  | O => RNoFuel
  | S f =>
      let cycles := cycles + 1 in
      match run_one s with
      | ROk true s' =>
          match to_cell (acc s') s' with
          | ROk c s'' => ROk (Done c) (with_stack s'' tempty (sp s''))
          | RErr e m s'' => RErr e m s''
          | RPanic k => RPanic k
          | RNoFuel => RNoFuel
          end
      | ROk false s' =>
          if match count with Some c => cycles =? c | None => false end then ROk Yield s'
          else run_loop f cycles count s'
      | RErr e msg s' =>
          match stack_trace s' with
          | Ok t =>
              (* stack.clear(); sp = 0; bp = 0; ep = usize::MAX; acc = Undefined *)
              let s1 := with_stack s' tempty 0 in
              ROk (Failed e msg (Some t)) (with_acc (with_ep (with_bp s1 0) USIZE_MAX) VUndef)
          | Err _ => RPanic 51
          | Panic k => RPanic k
          | NoFuel => RNoFuel
          end
      | RPanic k => RPanic k
      | RNoFuel => RNoFuel
      end
  end.
Definition run_count (fuel : nat) (count : option N) (s : vm) : res run_result :=
  run_loop fuel 0 count s.

(* vm/mod.rs:99-107 *)
Definition prepare_eval (e : cell) : M unit :=
  dom entry <- compile_runnable e;
  dom lp <- put_lambda entry;
  dom p <- as_ptr lp;
  set_ip (p, 0).

(* Vm::eval: prepare_eval then run.  A compile error is a Failed result too (the
   Rust returns Err without touching last_stacktrace). *)
Definition eval (fuel : nat) (e : cell) (s : vm) : res run_result :=
  match prepare_eval e s with
  | ROk _ s' => run_count fuel None s'
  | RErr e m s' => ROk (Failed e m None) s'
  | RPanic k => RPanic k
  | RNoFuel => RNoFuel
  end.
End Run.
