(* Parse.v — model of marwood/src/parse.rs (datum parser).  Definitions only. *)
From Coq Require Import String.
From MW Require Import Model.Base Model.F64 Model.Num Model.NumFmt Model.Datum Model.Lex.
Open Scope N_scope.

(* char.rs:11-24 *)
Definition named_to_char (s : text) : option cp :=
  let is n := if list_eq_dec N.eq_dec s (S_ n) then true else false in
  if is "alarm"%string then Some 7 else if is "backspace"%string then Some 8
  else if is "delete"%string then Some 127 else if is "escape"%string then Some 27
  else if is "null"%string then Some 0 else if is "return"%string then Some 13
  else if is "tab"%string then Some 9 else if is "space"%string then Some 32
  else if is "newline"%string then Some 10 else None.

Definition hex_val (c : cp) : N :=
  if is_digit c then c - 48 else if (97 <=? c) then c - 87 else c - 55.

(* u32::from_str_radix(s, 16) for a string of hex digits: None on empty / overflow *)
Fixpoint parse_hex_u32 (l : text) (acc : N) : option N :=
  match l with
  | [] => Some acc
  | c :: r => let v := acc * 16 + hex_val c in
              if v <? 4294967296 then parse_hex_u32 r v else None
  end.

(* parse.rs:211-227; [span] is the token text *)
Definition parse_char (span : text) : out cell :=
  match span with
  | _ :: _ :: body =>
      match body with
      | [c] => Ok (CChar c)
      | _ =>
          match body with
          | 120 :: rest =>
              if forallb is_hex rest then
                match rest with
                | [] => Err E_OTHER
                | _ => match parse_hex_u32 rest 0 with
                       | Some v => if is_scalar v then Ok (CChar v) else Err E_OTHER
                       | None => Err E_OTHER
                       end
                end
              else match named_to_char body with Some c => Ok (CChar c) | None => Err E_OTHER end
          | _ => match named_to_char body with Some c => Ok (CChar c) | None => Err E_OTHER end
          end
      end
  | _ => Panic 2      (* &span[2..] out of range *)
  end.

(* the \x...; loop of parse_string, parse.rs:247-281: returns the scalar and the
   rest positioned AT the ';' *)
Fixpoint parse_string_hex (l : text) (acc : N) : out (N * text) :=
  match l with
  | [] => Err E_OTHER
  | c :: r =>
      if c =? 59 then Ok (acc, l)
      else if is_hex c then
        let v := acc * 16 in
        if 4294967295 <? v then Err E_OTHER else
        let v := v + hex_val c in
        if 4294967295 <? v then Err E_OTHER else parse_string_hex r v
      else Err E_OTHER
  end.

(* parse.rs:232-292.  fuel = length of the input (each iteration consumes >= 1) *)
Fixpoint parse_string_fuel (fuel : nat) (l : text) (acc : text) : out text :=
  match fuel with
  | O => match l with [] => Ok (rev acc) | _ => NoFuel end
  | S f =>
      match l with
      | [] => Ok (rev acc)
      | c :: r =>
          if c =? 92 then
            match r with
            | [] => Err E_INCOMPLETE
            | e :: r2 =>
                if e =? 120 then
                  do (v, r3) <- parse_string_hex r2 0;
                  if is_scalar v then parse_string_fuel f (tl r3) (v :: acc) else Err E_OTHER
                else
                  let ch := if e =? 92 then 92 else if e =? 97 then 7 else if e =? 98 then 8
                            else if e =? 101 then 27 else if e =? 116 then 9 else if e =? 110 then 10
                            else if e =? 114 then 13 else if e =? 118 then 11 else if e =? 102 then 12
                            else e in
                  parse_string_fuel f r2 (ch :: acc)
            end
          else parse_string_fuel f r (c :: acc)
      end
  end.
Definition parse_string (inner : text) : out cell :=
  do s <- parse_string_fuel (length inner) inner []; Ok (CStr s).

Definition prefix_kind (span : text) : option (option exactness * option Z) :=
  match span with
  | [35; 101] => Some (Some Exact, None)
  | [35; 105] => Some (Some Inexact, None)
  | [35; 100] => Some (None, Some 10%Z)
  | [35; 98] => Some (None, Some 2%Z)
  | [35; 111] => Some (None, Some 8%Z)
  | [35; 120] => Some (None, Some 16%Z)
  | _ => None
  end.

(* parse.rs:306-332 *)
Fixpoint parse_number (t : text) (k : token) (ts : list token) (ex : exactness) (radix : Z)
    {struct ts} : out (cell * list token) :=
  match t_ty k with
  | TNumPrefix =>
      do span <- tok_span t k;
      match prefix_kind span with
      | None => Panic 3
      | Some (e, r) =>
          let ex' := match e with Some e => e | None => ex end in
          let radix' := match r with Some r => r | None => radix end in
          match ts with
          | [] => Err E_INCOMPLETE
          | k' :: ts' => parse_number t k' ts' ex' radix'
          end
      end
  | _ =>
      do span <- tok_span t k;
      do n <- parse_with_exactness span ex radix;
      match n with
      | Some n => Ok (CNum n, ts)
      | None => Ok (CSym span, ts)
      end
  end.

Definition first_char (t : text) (k : token) : out cp :=
  do span <- tok_span t k;
  match span with c :: _ => Ok c | [] => Panic 4 end.

(* parse.rs:57-202.  One fuel unit per call; every call consumes at least one token
   so [S (length ts)] suffices. *)
Fixpoint parse (fuel : nat) (t : text) (ts : list token) {struct fuel} : out (cell * list token) :=
  match fuel with
  | O => NoFuel
  | S f =>
      match ts with
      | [] => Err E_INCOMPLETE
      | k :: r =>
          match t_ty k with
          | TQuote => do (d, r') <- parse f t r; Ok (new_list [CSym QUOTE; d], r')
          | TQuasi => do (d, r') <- parse f t r; Ok (new_list [CSym QUASIQUOTE; d], r')
          | TUnquote => do (d, r') <- parse f t r; Ok (new_list [CSym UNQUOTE; d], r')
          | TRight => Err E_OTHER
          | TLeft => parse_list f t r k []
          | THashParen => parse_vector f t r []
          | TTrue => Ok (CBool true, r)
          | TFalse => Ok (CBool false, r)
          | TChar => do span <- tok_span t k; do c <- parse_char span; Ok (c, r)
          | TString =>
              do span <- tok_span t k;
              (* "\"\"" => "", span => &span[1..span.len()-1] *)
              match span with
              | [] | [_] => Panic 5
              | _ :: body => do c <- parse_string (removelast body); Ok (c, r)
              end
          | TSymbol => do span <- tok_span t k; Ok (CSym span, r)
          | TNumPrefix | TNumber => parse_number t k r Unspecified 10%Z
          | TDot => Err E_OTHER
          end
      end
  end
with parse_list (fuel : nat) (t : text) (ts : list token) (start : token) (acc : list cell)
    {struct fuel} : out (cell * list token) :=
  match fuel with
  | O => NoFuel
  | S f =>
      match ts with
      | [] => Err E_INCOMPLETE
      | k :: r =>
          match t_ty k with
          | TRight =>
              do sc <- first_char t start;
              do ec <- first_char t k;
              let ok := if sc =? 40 then ec =? 41 else if sc =? 91 then ec =? 93
                        else if sc =? 123 then ec =? 125 else false in
              if ok then Ok (new_list (rev acc), r) else Err E_OTHER
          | TDot =>
              (* parse_improper_list_tail, parse.rs:143-164 *)
              match acc with
              | [] => Err E_OTHER
              | _ =>
                  match r with
                  | [] => Err E_INCOMPLETE
                  | k2 :: _ =>
                      match t_ty k2 with
                      | TDot | TRight => Err E_OTHER
                      | _ =>
                          do (d, r2) <- parse f t r;
                          match r2 with
                          | [] => Err E_INCOMPLETE
                          | k3 :: r3 =>
                              match t_ty k3 with
                              | TRight => Ok (new_improper_list (rev acc) d, r3)
                              | _ => Err E_OTHER
                              end
                          end
                      end
                  end
              end
          | _ => do (d, r') <- parse f t ts; parse_list f t r' start (d :: acc)
          end
      end
  end
with parse_vector (fuel : nat) (t : text) (ts : list token) (acc : list cell)
    {struct fuel} : out (cell * list token) :=
  match fuel with
  | O => NoFuel
  | S f =>
      match ts with
      | [] => Err E_INCOMPLETE
      | k :: r =>
          match t_ty k with
          | TRight =>
              do ec <- first_char t k;
              if ec =? 41 then Ok (CVec (rev acc), r) else Err E_OTHER
          | TDot => Err E_OTHER
          | _ => do (d, r') <- parse f t ts; parse_vector f t r' (d :: acc)
          end
      end
  end.

(* enough fuel: every parse/parse_list/parse_vector call consumes a token or
   returns, and each loop iteration of the list parsers costs two units *)
Definition parse_fuel (ts : list token) : nat := S (2 * length ts).

(* parse::parse_text, parse.rs:41-49: the datum and the remaining text, i.e. the
   suffix of the input starting at the next token *)
Definition parse_text (t : text) : out (cell * option text) :=
  do ts <- scan t;
  do (d, rest) <- parse (parse_fuel ts) t ts;
  match rest with
  | [] => Ok (d, None)
  | k :: _ => do s <- slice_from t (t_start k); Ok (d, Some s)
  end.
