(* WireMac.v — wire interfaces of the "mac" area (ids 50-59): syntax-rules (C17).
   [run_mac c] receives the whole case (first element = interface id).

     50 n d_1..d_n u_1..   parse both texts, Transform::try_new on the define-syntax datum,
                           Transform::transform on the use: the expansion in write form
     51 n d_1..d_n u_1..   the same through the expansion driver of compile.rs and the
                           evaluation of the resulting (quote X): the value X in write form
   Lines: OK <text>, ERR parse, ERR def, ERR use, PANIC, NOFUEL (stands for a hang).   *)
From Coq Require Import String.
From MW Require Import Model.Base Model.Datum Model.Lex Model.Parse Model.TransformDef Model.Transform Model.SRSpec.
Open Scope N_scope.

Fixpoint split_at (n : N) (fuel : nat) (l : list N) (acc : list N) : option (list N * list N) :=
  if n =? 0 then Some (rev acc, l) else
  match fuel, l with
  | S f, x :: r => split_at (n - 1) f r (x :: acc)
  | _, _ => None
  end.

Definition parse_one (t : text) : option cell :=
  match parse_text t with
  | Ok (c, None) => Some c
  | _ => None
  end.

Definition show_mac (stage : list N) (o : out cell) : list N :=
  match o with
  | Ok c => S_ "OK " ++ esc_text (write c)
  | Err _ => stage
  | Panic _ => S_ "PANIC"
  | NoFuel => S_ "NOFUEL"
  end.

(* interface 50 *)
Definition mac_direct (d u : cell) : list N :=
  match transform_try_new d with
  | Ok tr => show_mac (S_ "ERR use") (transform_apply tr u)
  | Err _ => S_ "ERR def"
  | Panic _ => S_ "PANIC"
  | NoFuel => S_ "NOFUEL"
  end.

(* interface 51: Vm::eval of the definition, then of the use.  Only the part of the
   evaluation the property observes is modelled: the use is a form headed by the
   keyword, the driver expands it, and the expansion is (quote X), whose value is X.
   Everything else is outside the generator and prints UNMODELLED. *)
Definition mac_eval (d u : cell) : list N :=
  match transform_try_new d with
  | Ok tr =>
      let lookup (c : cell) := if cell_eqb c (transform_keyword tr) then Some tr else None in
      match u with
      | CPair h _ =>
          if cell_eqb h (transform_keyword tr) && negb (sym_is h QUOTE)
             && negb (sym_is h (S_ "define-syntax"%string)) then
            match vm_transform lookup 16 u with
            | Ok (CPair q (CPair x CNil)) =>
                if sym_is q QUOTE then S_ "OK " ++ esc_text (write x) else S_ "UNMODELLED"
            | Ok _ => S_ "UNMODELLED"
            | Err _ => S_ "ERR use"
            | Panic _ => S_ "PANIC"
            | NoFuel => S_ "NOFUEL"
            end
          else S_ "UNMODELLED"
      | _ => S_ "UNMODELLED"
      end
  | Err _ => S_ "ERR def"
  | Panic _ => S_ "PANIC"
  | NoFuel => S_ "NOFUEL"
  end.

(* interface 52 (model only): the SPECIFICATION's answer for the same case, used to
   cross-check Model/SRSpec.v against the independent Python oracle *)
Definition mac_spec (d u : cell) : list N :=
  match transform_try_new d with
  | Ok tr =>
      match spec_of_transform tr u with
      | SpecOk c => S_ "SPEC OK " ++ esc_text (write c)
      | SpecNoMatch => S_ "SPEC NOMATCH"
      | SpecInvalid => S_ "SPEC INVALID"
      | SpecExcluded => S_ "SPEC EXCLUDED"
      end
  | _ => S_ "SPEC DEFERR"
  end.

Definition run_mac (c : list N) : list N :=
  match c with
  | id :: n :: rest =>
      match split_at n (length rest) rest [] with
      | Some (dt, ut) =>
          match parse_one dt, parse_one ut with
          | Some d, Some u =>
              if id =? 50 then mac_direct d u
              else if id =? 51 then mac_eval d u
              else if id =? 52 then mac_spec d u
              else S_ "BADCASE"
          | _, _ => if (id =? 50) || (id =? 51) then S_ "ERR parse" else S_ "BADCASE"
          end
      | None => S_ "BADCASE"
      end
  | _ => S_ "BADCASE"
  end.
