(* PreludeLists.v — HAND MODEL of the list procedures that marwood defines in Scheme,
   marwood/prelude.scm:147-258:
       caar cadr cdar cddr list length memq memv member assq assv assoc
       any? map1 map for-each
   validated by the correspondence check (interface 40) only; TO BE REPLACED by running
   the generated prelude text (Gen/Prelude.v) on the VM model once that exists
   (DESIGN 4.4 / C14 "prelude_list_ok").  Each procedure is written as a direct Gallina
   function over the model machine that performs the same builtin calls, in the same
   order, as the compiled Scheme body does: a procedure receives its arguments as they
   are on the stack (pointers or immediates), every builtin is entered through
   [apply_builtin] (push arguments, push argc, CALL wrapper).  Scheme-level recursion
   takes fuel.  Frames, environments and the bytecode are NOT modelled here.
   Executable definitions only.                                                    *)
From Coq Require Import String.
From MW Require Import Model.Base Model.F64 Model.Num Model.Datum Model.TransformDef
  Model.VmTypes Model.Heap Model.VmBase Model.ListVec.
Open Scope N_scope.

Section Prelude.
Variable fuel : nat.

Definition callb (b : M vcell) (args : list vcell) : M vcell := apply_builtin b args.

(* JNT, run.rs:74-79: only #f (possibly behind a pointer) is false *)
Definition truthy (v : vcell) : M bool :=
  dom x <- hderef v;
  ret (match x with VBool false => false | _ => true end).

(* VARARG, run.rs:277-318: the optional arguments become a fresh list *)
Definition vararg_list (args : list vcell) : M vcell :=
  match args with
  | [a] =>
      dom pa <- hput a; dom ap <- as_ptr pa;
      dom pn <- hput VNil; dom np <- as_ptr pn;
      hput (VPair ap np)
  | _ =>
      dom pn <- hput VNil; dom np <- as_ptr pn;
      dom p <- (fix go (l : list vcell) (acc : N) : M N :=
                  match l with
                  | [] => ret acc
                  | x :: r =>
                      dom px <- hput x; dom xp <- as_ptr px;
                      dom pp <- hput (VPair xp acc); dom p <- as_ptr pp;
                      go r p
                  end) (rev args) np;
      ret (VPtr p)
  end.

(* prelude.scm:147-150 *)
Definition p_caar (args : list vcell) : M vcell :=
  match args with [o] => dom x <- callb (car fuel) [o]; callb (car fuel) [x] | _ => fail E_OTHER end.
Definition p_cadr (args : list vcell) : M vcell :=
  match args with [o] => dom x <- callb (cdr fuel) [o]; callb (car fuel) [x] | _ => fail E_OTHER end.
Definition p_cdar (args : list vcell) : M vcell :=
  match args with [o] => dom x <- callb (car fuel) [o]; callb (cdr fuel) [x] | _ => fail E_OTHER end.
Definition p_cddr (args : list vcell) : M vcell :=
  match args with [o] => dom x <- callb (cdr fuel) [o]; callb (cdr fuel) [x] | _ => fail E_OTHER end.

(* prelude.scm:152  (define (list . l) l) *)
Definition p_list (args : list vcell) : M vcell := vararg_list args.

(* prelude.scm:154-157; `+` on two fixnums (the count never leaves i64) *)
Fixpoint length_go (f : nat) (l : vcell) : M vcell :=
  match f with
  | O => nofuel
  | S f' =>
      dom n <- callb is_null [l];
      dom t <- truthy n;
      if t then ret (VNum (Fixnum 0))
      else
        dom d <- callb (cdr fuel) [l];
        dom r <- length_go f' d;
        dom rv <- hderef r;
        match rv with
        | VNum (Fixnum z) => ret (VNum (Fixnum (z + 1)))
        | _ => fail E_OTHER
        end
  end.
Definition p_length (args : list vcell) : M vcell :=
  match args with [l] => length_go fuel l | _ => fail E_OTHER end.

(* prelude.scm:159-175: memq memv member differ in the predicate only *)
Fixpoint mem_go (cmp : M vcell) (f : nat) (obj l : vcell) : M vcell :=
  match f with
  | O => nofuel
  | S f' =>
      dom n <- callb is_null [l];
      dom t <- truthy n;
      if t then ret (VBool false)
      else
        dom a <- callb (car fuel) [l];
        dom e <- callb cmp [a; obj];
        dom te <- truthy e;
        if te then ret l
        else dom d <- callb (cdr fuel) [l]; mem_go cmp f' obj d
  end.
Definition p_mem (cmp : M vcell) (args : list vcell) : M vcell :=
  match args with [obj; l] => mem_go cmp fuel obj l | _ => fail E_OTHER end.

(* prelude.scm:177-196: assq assv assoc *)
Fixpoint ass_go (cmp : M vcell) (f : nat) (obj al : vcell) : M vcell :=
  match f with
  | O => nofuel
  | S f' =>
      dom n <- callb is_null [al];
      dom t <- truthy n;
      if t then ret (VBool false)
      else
        dom a <- callb (car fuel) [al];
        dom p <- callb is_pair_b [a];
        dom tp <- truthy p;
        dom hit <-
          (if tp then
             dom a1 <- callb (car fuel) [al];       (* (caar alist) *)
             dom k <- callb (car fuel) [a1];
             dom e <- callb cmp [k; obj];
             truthy e
           else ret false);
        if hit then callb (car fuel) [al]
        else dom d <- callb (cdr fuel) [al]; ass_go cmp f' obj d
  end.
Definition p_ass (cmp : M vcell) (args : list vcell) : M vcell :=
  match args with [obj; al] => ass_go cmp fuel obj al | _ => fail E_OTHER end.

(* prelude.scm:222-225 with proc = null?  (the only use in map / for-each) *)
Fixpoint any_null (f : nat) (l : vcell) : M bool :=
  match f with
  | O => nofuel
  | S f' =>
      dom p <- callb is_pair_b [l];
      dom tp <- truthy p;
      if negb tp then ret false
      else
        dom a <- callb (car fuel) [l];
        dom n <- callb is_null [a];
        dom tn <- truthy n;
        if tn then ret true
        else dom d <- callb (cdr fuel) [l]; any_null f' d
  end.

(* prelude.scm:227-230 with f = car or cdr *)
Fixpoint map1 (g : M vcell) (f : nat) (xs : vcell) : M vcell :=
  match f with
  | O => nofuel
  | S f' =>
      dom n <- callb is_null [xs];
      dom t <- truthy n;
      if t then ret VNil
      else
        dom a <- callb (car fuel) [xs];
        dom ga <- callb g [a];
        dom d <- callb (cdr fuel) [xs];
        dom r <- map1 g f' d;
        callb cons_ [ga; r]
  end.

(* apply, builtin/procedure.rs:70-101: the elements of the last argument are pushed as
   the addresses of their car cells *)
Fixpoint apply_args (f : nat) (rest : vcell) (acc : list vcell) : M (list vcell) :=
  match f with
  | O => nofuel
  | S f' =>
      if is_pair rest then
        dom ca <- as_car rest;
        dom cd <- as_cdr rest;
        dom rest' <- hderef cd;
        apply_args f' rest' (ca :: acc)
      else if is_nil rest then ret (rev acc)
      else fail E_OTHER
  end.
Definition p_apply (fn : list vcell -> M vcell) (l : vcell) : M vcell :=
  dom rest <- hderef l;
  if negb (is_nil rest) && negb (is_pair rest) then fail E_OTHER
  else dom args <- apply_args fuel rest []; fn args.

(* prelude.scm:232-241 *)
Fixpoint map_all (fn : list vcell -> M vcell) (f : nat) (xss : vcell) : M vcell :=
  match f with
  | O => nofuel
  | S f' =>
      dom an <- any_null fuel xss;
      if an then ret VNil
      else
        dom cars <- map1 (car fuel) fuel xss;
        dom r <- p_apply fn cars;
        dom cdrs <- map1 (cdr fuel) fuel xss;
        dom rest <- map_all fn f' cdrs;
        callb cons_ [r; rest]
  end.
Definition p_map (fn : list vcell -> M vcell) (lists : list vcell) : M vcell :=
  dom xss <- vararg_list lists;
  map_all fn fuel xss.

(* prelude.scm:243-253; `void` is the global holding #<void> (prelude.scm:1) *)
Fixpoint for_each_all (fn : list vcell -> M vcell) (f : nat) (xss : vcell) : M vcell :=
  match f with
  | O => nofuel
  | S f' =>
      dom an <- any_null fuel xss;
      if an then ret VVoid
      else
        dom cars <- map1 (car fuel) fuel xss;
        dom _ <- p_apply fn cars;
        dom cdrs <- map1 (cdr fuel) fuel xss;
        dom _ <- for_each_all fn f' cdrs;
        ret VVoid
  end.
Definition p_for_each (fn : list vcell -> M vcell) (lists : list vcell) : M vcell :=
  dom xss <- vararg_list lists;
  for_each_all fn fuel xss.

End Prelude.
