(* Wire.v — the case protocol shared by the Rust harness (mwh), the extracted
   model (mwmodel) and the in-kernel cross-check: a case is a list of naturals
   (first = interface id), a result is a line of ASCII codes.                  *)
From Coq Require Import String.
From MW Require Import Model.Base Model.Lex Model.Highlight.
Open Scope N_scope.

Definition S_ (s : string) : list N := ascii_of_string s.

Definition show_ttype (t : ttype) : list N :=
  S_ match t with
     | TChar => "Char" | TDot => "Dot" | TFalse => "False" | TLeft => "LeftParen"
     | TNumber => "Number" | TNumPrefix => "NumberPrefix" | TQuasi => "Quasiquote"
     | TRight => "RightParen" | TQuote => "SingleQuote" | TString => "String"
     | TSymbol => "Symbol" | TTrue => "True" | TUnquote => "Unquote"
     | THashParen => "HashParen"
     end%string.

Definition show_token (k : token) : list N :=
  32 :: show_N (t_start k) ++ [45] ++ show_N (t_end k) ++ [58] ++ show_ttype (t_ty k).

Definition show_err (e : N) : list N :=
  if e =? E_INCOMPLETE then S_ "ERR incomplete" else S_ "ERR".

Definition show_out {A} (f : A -> list N) (o : out A) : list N :=
  match o with
  | Ok a => S_ "OK" ++ f a
  | Err e => show_err e
  | Panic _ => S_ "PANIC"
  | NoFuel => S_ "NOFUEL"
  end.

Definition show_bool (b : bool) : list N := if b then S_ " true" else S_ " false".

Definition run_case (c : list N) : list N :=
  match c with
  | 1 :: t => show_out (flat_map show_token) (scan t)
  | 2 :: i :: t => show_out (fun r => 32 :: esc_text r) (highlight t i)
  | 3 :: i :: t => show_out show_bool (highlight_check t i)
  | _ => S_ "BADCASE"
  end.
