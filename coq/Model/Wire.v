(* Wire.v — the case protocol shared by the Rust harness (mwh), the extracted
   model (mwmodel) and the in-kernel cross-check: a case is a list of naturals
   (first = interface id), a result is a line of ASCII codes.                  *)
From Coq Require Import String.
From MW Require Import Model.Base Model.F64 Model.Num Model.NumFmt Model.Datum Model.Lex Model.Highlight Model.Parse
  Model.WireNum Model.WireNumFmt Model.WireStr Model.WireLv Model.WireMac Model.WireGc Model.WireVm Model.WireMisc Model.WireDatum.
Open Scope N_scope.


Definition show_ttype (t : ttype) : list N :=
  S_ match t with
     | TChar => "Char" | TDot => "Dot" | TFalse => "False" | TLeft => "LeftParen"
     | TNumber => "Number" | TNumPrefix => "NumberPrefix" | TQuasi => "Quasiquote"
     | TRight => "RightParen" | TQuote => "SingleQuote" | TString => "String"
     | TSymbol => "Symbol" | TTrue => "True" | TUnquote => "Unquote"
     | THashParen => "HashParen"
     end%string.

Definition show_token (k : token) : list N :=
  32 :: show_N (t_start k) ++ [45] ++ show_N (t_end k) ++ [58] ++ show_ttype (t_ty k).

Definition show_err (e : N) : list N :=
  if e =? E_INCOMPLETE then S_ "ERR incomplete" else S_ "ERR".

Definition show_out {A} (f : A -> list N) (o : out A) : list N :=
  match o with
  | Ok a => S_ "OK" ++ f a
  | Err e => show_err e
  | Panic _ => S_ "PANIC"
  | NoFuel => S_ "NOFUEL"
  end.

Definition show_bool (b : bool) : list N := if b then S_ " true" else S_ " false".

(* parse_text: the datum in write form and the byte offset where the remaining
   text starts (NONE when nothing remains) *)
Definition show_parse_text (t : text) (r : cell * option text) : list N :=
  32 :: esc_text (write (fst r)) ++
  match snd r with
  | None => S_ " NONE"
  | Some rest => S_ " REST " ++ show_N (blen t - blen rest)
  end.

(* the datum-by-datum loop of the front ends (Vm::eval_text callers): parse_text
   repeatedly on the remaining text; fuel = number of bytes + 1 *)
Fixpoint parse_all (fuel : nat) (t : text) (acc : list N) : list N :=
  match fuel with
  | O => acc ++ S_ " NOFUEL"
  | S f =>
      match parse_text t with
      | Ok (d, None) => acc ++ 32 :: esc_text (write d) ++ S_ " END"
      | Ok (d, Some rest) => parse_all f rest (acc ++ 32 :: esc_text (write d))
      | Err e => acc ++ 32 :: show_err e
      | Panic _ => acc ++ S_ " PANIC"
      | NoFuel => acc ++ S_ " NOFUEL"
      end
  end.

Definition run_case (c : list N) : list N :=
  match c with
  | 1 :: t => show_out (flat_map show_token) (scan t)
  | 2 :: i :: t => show_out (fun r => 32 :: esc_text r) (highlight t i)
  | 3 :: i :: t => show_out show_bool (highlight_check t i)
  | 4 :: t => show_out (show_parse_text t) (parse_text t)
  | 5 :: t => S_ "ALL" ++ parse_all (S (length t)) t []
  | 6 :: _ :: t => show_out (show_parse_text t) (parse_text t)
  | 7 :: _ | 8 :: _ | 9 :: _ => run_datum c
  | id :: _ =>
      if id <? 10 then S_ "BADCASE"
      else if id <? 20 then run_num c
      else if id <? 30 then run_numfmt c
      else if id <? 40 then run_str c
      else if id <? 50 then run_lv c
      else if id <? 60 then run_mac c
      else if id <? 70 then run_gc c
      else if id <? 100 then run_vm c
      else if id <? 120 then run_misc c
      else S_ "BADCASE"
  | [] => S_ "BADCASE"
  end.
