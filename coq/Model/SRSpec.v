(* SRSpec.v — R7RS 4.3.2 (syntax-rules) matching and template instantiation as total
   functions on [cell]: the SPECIFICATION the model of transform.rs is compared with.
   Written from the report, not from the code:
     * the keyword position of a pattern is ignored; first matching rule;
     * a literal matches the identifier of the same name; [_] matches anything and binds
       nothing; any other identifier is a pattern variable;
     * (P1 .. Pk Pe <ellipsis> Pm+1 .. Pn [. Px]): the Pe items are as many as possible
       while leaving n-m elements for the fixed tail; one ellipsis per list level;
     * vectors like lists; any other datum by [equal?] ([cell_eqb]);
     * a pattern variable under d ellipses is bound to a depth-d tree of forms;
     * instantiation is structural in the template: (T <ellipsis> . rest) instantiates T
       once per item of the ellipsis variables occurring in T (all of the same length —
       different lengths are outside the property, [SExcl]), with those variables
       projected to the item; a variable still bound to a sequence where a form is
       needed, or an ellipsis after a sub-template without ellipsis variables, is an
       error ([SErr]).
   Non-hygienic: inserted identifiers are not renamed (expansions are observed under
   quote).  Executable definitions only. *)
From Coq Require Import String.
From MW Require Import Model.Base Model.F64 Model.Num Model.Datum Model.TransformDef Model.Transform.
Open Scope N_scope.

Inductive binding := BOne (c : cell) | BMany (l : list binding).
Definition senv := list (cell * binding).

Fixpoint slookup (e : senv) (x : cell) : option binding :=
  match e with
  | [] => None
  | (k, b) :: r => if cell_eqb k x then Some b else slookup r x
  end.

Fixpoint all_some {A} (l : list (option A)) : option (list A) :=
  match l with
  | [] => Some []
  | Some a :: r => match all_some r with Some r' => Some (a :: r') | None => None end
  | None :: _ => None
  end.

(* number of pairs of a cdr chain; the first n cars and the n-th cdr *)
Fixpoint chain_len (c : cell) : nat := match c with CPair _ d => S (chain_len d) | _ => O end.
Fixpoint split_chain (n : nat) (c : cell) : option (list cell * cell) :=
  match n with
  | O => Some ([], c)
  | S n' => match c with
            | CPair a d => match split_chain n' d with Some (l, r) => Some (a :: l, r) | None => None end
            | _ => None
            end
  end.

Section Spec.
Variable literals : list cell.
Variable ellipsis : cell.

Definition s_is_ell (c : cell) : bool := cell_eqb c ellipsis.
Definition s_is_lit (c : cell) : bool := mem_cell c literals.
Definition s_is_under (c : cell) : bool := cell_eqb c UNDERSCORE.

(* the pattern variables of a pattern, left to right *)
Fixpoint pvars (p : cell) {struct p} : list cell :=
  match p with
  | CSym _ => if s_is_lit p || s_is_ell p || s_is_under p then [] else [p]
  | CPair a d => pvars a ++ pvars d
  | CVec l => (fix vs (l : list cell) : list cell :=
                 match l with [] => [] | x :: r => pvars x ++ vs r end) l
  | _ => []
  end.

(* the bindings of an ellipsis sub-pattern: one sequence per variable *)
Definition collect (vars : list cell) (ms : list senv) : senv :=
  map (fun x => (x, BMany (map (fun m => match slookup m x with Some b => b | None => BMany [] end) ms))) vars.

Definition opt_app (a b : option senv) : option senv :=
  match a, b with Some x, Some y => Some (x ++ y) | _, _ => None end.

Fixpoint smatch (p f : cell) {struct p} : option senv :=
  match p with
  | CSym _ =>
      if s_is_lit p then (if cell_eqb p f then Some [] else None)
      else if s_is_under p then Some []
      else Some [(p, BOne f)]
  | CPair p1 prest =>
      let plain :=
        match f with
        | CPair f1 frest => opt_app (smatch p1 f1) (smatch prest frest)
        | _ => None
        end in
      match prest with
      | CPair e ptail =>
          if s_is_ell e then
            let k := chain_len ptail in
            let n := chain_len f in
            if Nat.ltb n k then None else
            match split_chain (n - k) f with
            | Some (items, frest) =>
                match all_some (map (smatch p1) items) with
                | Some ms => opt_app (Some (collect (pvars p1) ms)) (smatch ptail frest)
                | None => None
                end
            | None => None
            end
          else plain
      | _ => plain
      end
  | CVec ps =>
      match f with
      | CVec fs =>
          (fix vm (ps : list cell) (fs : list cell) {struct ps} : option senv :=
             match ps with
             | [] => match fs with [] => Some [] | _ => None end
             | p1 :: prest =>
                 let plain :=
                   match fs with
                   | f1 :: frest => opt_app (smatch p1 f1) (vm prest frest)
                   | [] => None
                   end in
                 match prest with
                 | e :: ptail =>
                     if s_is_ell e then
                       let k := length ptail in
                       let n := length fs in
                       if Nat.ltb n k then None else
                       match all_some (map (smatch p1) (firstn (n - k) fs)) with
                       | Some ms => opt_app (Some (collect (pvars p1) ms)) (vm ptail (skipn (n - k) fs))
                       | None => None
                       end
                     else plain
                 | [] => plain
                 end
             end) ps fs
      | _ => None
      end
  | _ => if cell_eqb p f then Some [] else None
  end.

(* ---- well-formed patterns: ellipsis placement and distinct variables *)
Fixpoint no_dup (l : list cell) : bool :=
  match l with [] => true | x :: r => negb (mem_cell x r) && no_dup r end.

(* ------------------------------------------------------------- instantiation *)
Inductive sres := SOk (c : cell) | SErr | SExcl.

(* identifiers occurring in a template (with repetitions) *)
Fixpoint tsyms (t : cell) {struct t} : list cell :=
  match t with
  | CSym _ => [t]
  | CPair a d => tsyms a ++ tsyms d
  | CVec l => (fix vs (l : list cell) : list cell :=
                 match l with [] => [] | x :: r => tsyms x ++ vs r end) l
  | _ => []
  end.

Fixpoint dedup (l : list cell) : list cell :=
  match l with [] => [] | x :: r => if mem_cell x r then dedup r else x :: dedup r end.

(* the ellipsis variables of a sub-template: its identifiers bound to a sequence *)
Definition drivers (env : senv) (t : cell) : list cell :=
  filter (fun x => match slookup env x with Some (BMany _) => true | _ => false end) (dedup (tsyms t)).

Definition seq_len (env : senv) (x : cell) : nat :=
  match slookup env x with Some (BMany l) => length l | _ => O end.

(* the common length of the drivers, None if they differ *)
Fixpoint common_len (env : senv) (ds : list cell) : option nat :=
  match ds with
  | [] => None
  | [x] => Some (seq_len env x)
  | x :: r => match common_len env r with
              | Some n => if Nat.eqb n (seq_len env x) then Some n else None
              | None => None
              end
  end.

Definition project (env : senv) (ds : list cell) (i : nat) : senv :=
  map (fun kb => if mem_cell (fst kb) ds
                 then (fst kb, match snd kb with BMany l => nth i l (BMany []) | o => o end)
                 else kb) env.

(* combine the instantiated items of an ellipsis with the instantiated rest *)
Fixpoint sapp (items : list sres) (rest : sres) : sres :=
  match items with
  | [] => rest
  | SOk c :: r => match sapp r rest with SOk d => SOk (CPair c d) | o => o end
  | SErr :: _ => SErr
  | SExcl :: r => match sapp r rest with SErr => SErr | _ => SExcl end
  end.

Definition scons (a d : sres) : sres :=
  match a, d with
  | SOk x, SOk y => SOk (CPair x y)
  | SErr, _ | _, SErr => SErr
  | _, _ => SExcl
  end.

Fixpoint sres_list (l : list sres) : option (list cell) :=
  match l with
  | [] => Some []
  | SOk c :: r => match sres_list r with Some r' => Some (c :: r') | None => None end
  | _ :: _ => None
  end.

Fixpoint sinst (t : cell) (env : senv) {struct t} : sres :=
  match t with
  | CSym _ =>
      match slookup env t with
      | Some (BOne c) => SOk c
      | Some (BMany _) => SErr                (* an ellipsis variable without its ellipsis *)
      | None => SOk t
      end
  | CPair t1 trest =>
      if s_is_ell t1 then SErr               (* an ellipsis that follows nothing; (... ...) unsupported *)
      else
      match trest with
      | CPair e ttail =>
          if s_is_ell e then
            if (match ttail with CPair e2 _ => s_is_ell e2 | _ => false end) then SErr   (* T ... ... unsupported *)
            else
            match drivers env t1 with
            | [] => SErr                     (* nothing to iterate over *)
            | ds =>
                match common_len env ds with
                | None => SExcl
                | Some n => sapp (map (fun i => sinst t1 (project env ds i)) (seq 0 n)) (sinst ttail env)
                end
            end
          else scons (sinst t1 env) (sinst trest env)
      | _ => scons (sinst t1 env) (sinst trest env)
      end
  | CVec ts =>
      let r := (fix vi (ts : list cell) {struct ts} : list sres :=
         match ts with
         | [] => []
         | t1 :: trest =>
             if s_is_ell t1 then [SErr] else
             match trest with
             | e :: ttail =>
                 if s_is_ell e then
                   if (match ttail with e2 :: _ => s_is_ell e2 | [] => false end) then [SErr] else
                   match drivers env t1 with
                   | [] => [SErr]
                   | ds => match common_len env ds with
                           | None => [SExcl]
                           | Some n => map (fun i => sinst t1 (project env ds i)) (seq 0 n) ++ vi ttail
                           end
                   end
                 else sinst t1 env :: vi trest
             | [] => [sinst t1 env]
             end
         end) ts in
      if existsb (fun x => match x with SErr => true | _ => false end) r then SErr
      else match sres_list r with Some l => SOk (CVec l) | None => SExcl end
  | c => SOk c
  end.

(* ------------------------------------------------------------- the transformer *)
Inductive spec_out := SpecNoMatch | SpecInvalid | SpecExcluded | SpecOk (c : cell).

(* rules as (pattern, template) data; first matching rule *)
Fixpoint spec_rules (rules : list (cell * cell)) (form : cell) : spec_out :=
  match rules with
  | [] => SpecNoMatch
  | (p, t) :: rest =>
      match p, form with
      | CPair _ pd, CPair _ fd =>
          match smatch pd fd with
          | Some env =>
              match sinst t env with
              | SOk c => SpecOk c
              | SErr => SpecInvalid
              | SExcl => SpecExcluded
              end
          | None => spec_rules rest form
          end
      | _, _ => SpecInvalid
      end
  end.
End Spec.

(* the specification applied to a transformer built by the model's try_new: same
   literals, ellipsis and (pattern, template) pairs *)
Definition rule_wf (literals : list cell) (ellipsis : cell) (r : pattern * cell) : bool :=
  match p_expr (fst r) with
  | CPair _ pd => no_dup (pvars literals ellipsis pd)      (* no pattern variable twice *)
  | _ => false
  end.

Definition spec_of_transform (tr : transform) (form : cell) : spec_out :=
  match form with
  | CPair _ _ =>
      if negb (forallb (rule_wf (tr_literals tr) (tr_ellipsis tr)) (tr_rules tr)) then SpecInvalid else
      spec_rules (tr_literals tr) (tr_ellipsis tr)
                 (map (fun r => (p_expr (fst r), snd r)) (tr_rules tr)) form
  | _ => SpecNoMatch
  end.

(* ============================================================================
   The SUPPORTED FRAGMENT (decidable), on which Proofs/TransformProofs.v shows the
   model of transform.rs equal to the specification above.
   ============================================================================ *)

(* flat reading of a specification environment, in binding order: what
   PatternEnvironment.bindings holds after a match in the fragment *)
Definition flat_binding (x : cell) (b : binding) : list (cell * cell) :=
  match b with
  | BOne f => [(x, f)]
  | BMany l => flat_map (fun b' => match b' with BOne f => [(x, f)] | BMany _ => [] end) l
  end.
Definition flat (e : senv) : list (cell * cell) := flat_map (fun kb => flat_binding (fst kb) (snd kb)) e.

Section Fragment.
Variable literals : list cell.
Variable ellipsis : cell.

Definition f_is_var (c : cell) : bool :=
  is_symbol c && negb (s_is_lit literals c) && negb (s_is_ell ellipsis c) && negb (s_is_under c).

Definition starts_with_ell (d : cell) : bool :=
  match d with CPair e _ => s_is_ell ellipsis e | _ => false end.

(* S_pat: the pattern after the keyword position is a proper list, nested to any depth,
   of identifiers (literals, _, variables), non-vector data and such lists; at most one
   ellipsis per list level, directly after a pattern VARIABLE, followed by a fixed tail
   of any length.  [seen]: an ellipsis already occurred at this level. *)
Fixpoint pat_ok (seen : bool) (p : cell) {struct p} : bool :=
  match p with
  | CNil => true
  | CPair a d =>
      (match a with
       | CPair _ _ => pat_ok false a
       | CVec _ => false
       | CSym _ => negb (s_is_ell ellipsis a)
       | _ => true
       end) &&
      match d with
      | CPair e d' =>
          if s_is_ell ellipsis e then negb seen && f_is_var a && pat_ok true d'
          else pat_ok seen d
      | _ => pat_ok seen d
      end
  | _ => false
  end.

(* S_use: the part of S_match that depends on the use.  Where a list pattern meets a
   form, the form is a proper list or not a pair at all; where `x ... tail` with a
   non-empty tail meets the remaining elements, their number differs from the length of
   the tail (with exactly that many, R7RS matches zero items and transform.rs does not
   match: recorded class ellipsis-tail-zero-items). *)
Fixpoint use_ok (p : cell) (es : list cell) {struct p} : bool :=
  match p with
  | CPair a d =>
      let step :=
        match es with
        | e1 :: es' =>
            (match a with
             | CPair _ _ => (is_list e1 || negb (is_pair e1)) && use_ok a (elems e1)
             | _ => true
             end) && use_ok d es'
        | [] => true
        end in
      match d with
      | CPair e d' =>
          if s_is_ell ellipsis e then
            let k := chain_len d' in
            (Nat.eqb k 0 || negb (Nat.eqb (length es) k))
            && use_ok d' (skipn (length es - k) es)
          else step
      | _ => step
      end
  | _ => true
  end.

Definition S_match (p u : cell) : bool :=
  pat_ok false p && (is_list u || negb (is_pair u)) && use_ok p (elems u).
End Fragment.

(* S_tmpl: templates built from identifiers, non-vector data and proper lists nested to
   any depth, in which an ellipsis directly follows an identifier that the pattern binds
   under an ellipsis ([isexp]), and such identifiers occur nowhere else.  [chain]: the
   cell is the rest of a list (then only a pair or () may follow). *)
Section TemplateFragment.
Variable isexp : cell -> bool.
Variable ellipsis : cell.

Fixpoint tmpl_ok (chain : bool) (t : cell) {struct t} : bool :=
  match t with
  | CNil => true
  | CPair t1 rest =>
      negb (s_is_ell ellipsis t1) &&
      match rest with
      | CPair e rest' =>
          if s_is_ell ellipsis e
          then is_symbol t1 && isexp t1 && negb (starts_with_ell ellipsis rest') && tmpl_ok true rest'
          else tmpl_ok false t1 && tmpl_ok true rest
      | _ => tmpl_ok false t1 && tmpl_ok true rest
      end
  | CSym _ => negb chain && negb (isexp t) && negb (s_is_ell ellipsis t)
  | CVec _ => false
  | _ => negb chain
  end.
End TemplateFragment.

(* the supported fragment for a whole (definition, use): every rule of the transformer
   built by try_new is in S_pat/S_tmpl and the use is in S_use for every rule *)
Definition rule_supported (lits : list cell) (ell : cell) (u : cell) (r : pattern * cell) : bool :=
  match p_expr (fst r), u with
  | CPair _ pd, CPair _ ud =>
      S_match lits ell pd ud && tmpl_ok (is_expanded_variable (fst r)) ell false (snd r)
      && no_dup (pvars lits ell pd)
  | _, _ => false
  end.

Definition supported_tr (tr : transform) (u : cell) : bool :=
  is_symbol (tr_ellipsis tr) && forallb (rule_supported (tr_literals tr) (tr_ellipsis tr) u) (tr_rules tr).

Definition supported (d u : cell) : bool :=
  match transform_try_new d with
  | Ok tr => supported_tr tr u
  | _ => true              (* a rejected definition is a reported error *)
  end.

(* the rule the specification selects: the first whose pattern matches *)
Fixpoint spec_select (lits : list cell) (ell : cell) (rules : list (pattern * cell)) (u : cell)
  : option (pattern * cell * senv) :=
  match rules with
  | [] => None
  | r :: rest =>
      match p_expr (fst r), u with
      | CPair _ pd, CPair _ ud =>
          match smatch lits ell pd ud with
          | Some se => Some (fst r, snd r, se)
          | None => spec_select lits ell rest u
          end
      | _, _ => None
      end
  end.
