(* F64More.v — further binary64 operations used by the number tower (owned by the
   "num" package): fmod (Rust's `%` on f64), reciprocal, float -> integer casts
   of num-traits, ordering helpers, exact decoding.  Executable definitions only. *)
From Coq Require Import ZArith.
From Flocq Require Import IEEE754.BinarySingleNaN.
From MW Require Import Model.Base Model.F64.
Open Scope Z_scope.

Definition f64_one : f64 := f64_of_Z 1.
Definition f64_recip (a : f64) : f64 := f64_div f64_one a.          (* f64::recip = 1.0 / x *)
Definition f64_sign (a : f64) : bool := Bsign a.                    (* is_sign_negative (NaN: false) *)
Definition f64_gtb (a b : f64) : bool := Bltb b a.
Definition f64_geb (a b : f64) : bool := Bleb b a.

(* `x % y` on f64 = C fmod: exact, sign of x; NaN when x is infinite or y is zero;
   x when y is infinite.  Computed on the exact integers x = mx*2^ex, y = my*2^ey
   scaled to the common exponent e = min ex ey; the result is representable, so
   the final normalisation does not round. *)
Definition f64_rem (x y : f64) : f64 :=
  match x, y with
  | B754_nan, _ | _, B754_nan => B754_nan
  | B754_infinity _, _ => B754_nan
  | _, B754_zero _ => B754_nan
  | B754_zero s, _ => B754_zero s
  | B754_finite _ _ _ _, B754_infinity _ => x
  | B754_finite sx mx ex _, B754_finite _ my ey _ =>
      let e := Z.min ex ey in
      let X := Z.pos mx * 2 ^ (ex - e) in
      let Y := Z.pos my * 2 ^ (ey - e) in
      let r := Z.rem X Y in
      if r =? 0 then B754_zero sx
      else let f := f64_of_Z2 r e in if sx then Bopp f else f
  end.

(* num-traits ToPrimitive for f64 -> integer types (float_to_int): Some (trunc x)
   exactly when the truncated value lies in [lo, hi] *)
Definition f64_to_int (lo hi : Z) (a : f64) : option Z :=
  match f64_to_Z a with
  | Some z => if (lo <=? z) && (z <=? hi) then Some z else None
  | None => None
  end.

(* the exact value of a finite float as a reduced fraction (numerator, denominator>0):
   BigRational::from_float (num-rational lib.rs:280-302) followed by numer/denom *)
Definition f64_to_frac (a : f64) : option (Z * Z) :=
  match f64_to_Z2 a with
  | None => None
  | Some (m, e) =>
      if 0 <=? e then Some (m * 2 ^ e, 1)
      else if m =? 0 then Some (0, 1)
      else let d := 2 ^ (- e) in
           let g := Z.gcd m d in Some (m / g, d / g)
  end.
