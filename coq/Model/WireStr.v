(* WireStr.v — wire interfaces of the "str" area (ids 30-39), property C15.
   [run_str c] receives the whole case (first element = interface id).

   30  operation sequence over a pool of strings:
         30 P (len cp*len)*P  op*          op  ::= opid dest nargs arg*nargs
         arg   ::= 0 k                     pool entry k (global s<k>), top level only
                 | datum
         datum ::= 1 sign mag              Fixnum          | 6 sign mag    BigInt
                 | 2 cp                    character       | 7 bits        Float (IEEE bits)
                 | 3 n datum*n             (list ...)      | 8 sign n d    Rational n/d as stored
                 | 4 n datum*n             (vector ...)    | 9 b           boolean
                 | 5 n datum*n datum       (cons .. (cons .. tail))
                 | 10 n cp*n               string literal
       opid: index in [op_fn] (= OPS of harness/src/area_str.rs); opid 0 aliases pool
       entry dest-1 to the argument.  dest = k+1 stores the result in pool entry k.
       Result: "SEQ " then per operation  RES ; v0 ; v1 ...  joined by " | ", RES = OK <write
       form> | ERR | PANIC | NOFUEL, v_i = write form of pool entry i after the operation.
   31  lo n: the table-driven builtins on every code point lo..lo+n-1
   39  (harness only) dump of the std tables                                            *)
From Coq Require Import String.
From MW Require Import Model.Base Model.F64 Model.Num Model.Datum Model.TransformDef
  Model.VmTypes Model.Heap Model.VmBase Model.Str.
Open Scope N_scope.

(* esc_text, additionally escaping the field separators | and ; *)
Definition esc2_cp (c : cp) : list N :=
  if (c =? 124) || (c =? 59) then [92; 117; 123] ++ show_hex c ++ [125] else esc_cp c.
Definition esc2 (t : text) : list N := flat_map esc2_cp t.

(* --------------------------------------------------------------- decoding *)
Definition signed (sign mag : N) : Z := if sign =? 1 then (- Z.of_N mag)%Z else Z.of_N mag.

Fixpoint take_n (n : nat) (l : list N) : option (list N * list N) :=
  match n with
  | O => Some ([], l)
  | S k => match l with
           | x :: r => match take_n k r with Some (a, b) => Some (x :: a, b) | None => None end
           | [] => None
           end
  end.

Fixpoint dec_datum (fuel : nat) (l : list N) {struct fuel} : option (cell * list N) :=
  match fuel with
  | O => None
  | S f =>
      let items := fix items (k : nat) (l : list N) : option (list cell * list N) :=
        match k with
        | O => Some ([], l)
        | S k' =>
            match dec_datum f l with
            | Some (c, r) =>
                match items k' r with Some (cs, r') => Some (c :: cs, r') | None => None end
            | None => None
            end
        end in
      match l with
      | 1 :: sign :: mag :: r =>
          let z := signed sign mag in if in_i64 z then Some (CNum (Fixnum z), r) else None
      | 2 :: c :: r => if is_scalar c then Some (CChar c, r) else None
      | 3 :: n :: r =>
          if 64 <? n then None else
          match items (N.to_nat n) r with Some (cs, r') => Some (mk_list cs CNil, r') | None => None end
      | 4 :: n :: r =>
          if 64 <? n then None else
          match items (N.to_nat n) r with Some (cs, r') => Some (CVec cs, r') | None => None end
      | 5 :: n :: r =>
          if 64 <? n then None else
          match items (N.to_nat n) r with
          | Some (cs, r') =>
              match dec_datum f r' with Some (tl, r'') => Some (mk_list cs tl, r'') | None => None end
          | None => None
          end
      | 6 :: sign :: mag :: r => Some (CNum (BigInt (signed sign mag)), r)
      | 7 :: bits :: r =>
          if bits <? 18446744073709551616 then Some (CNum (Float (f64_of_bits (Z.of_N bits))), r) else None
      | 8 :: sign :: n :: d :: r =>
          if (2147483647 <? n) || (d =? 0) || (2147483647 <? d) then None
          else Some (CNum (Rational (signed sign n) (Z.of_N d)), r)
      | 9 :: b :: r => Some (CBool (negb (b =? 0)), r)
      | 10 :: n :: r =>
          if 64 <? n then None else
          match take_n (N.to_nat n) r with
          | Some (cs, r') => if forallb is_scalar cs then Some (CStr cs, r') else None
          | None => None
          end
      | _ => None
      end
  end.

Inductive warg := WPool (k : N) | WDat (c : cell).

Definition dec_arg (npool : N) (l : list N) : option (warg * list N) :=
  match l with
  | 0 :: k :: r => if k <? npool then Some (WPool k, r) else None
  | _ => match dec_datum (S (length l)) l with Some (c, r) => Some (WDat c, r) | None => None end
  end.

Fixpoint dec_args (npool : N) (n : nat) (l : list N) : option (list warg * list N) :=
  match n with
  | O => Some ([], l)
  | S k =>
      match dec_arg npool l with
      | Some (a, r) => match dec_args npool k r with Some (al, r') => Some (a :: al, r') | None => None end
      | None => None
      end
  end.

Record wop := mk_wop { w_op : N; w_dest : N; w_args : list warg }.
Definition NOPS : N := 48.

Fixpoint dec_ops (fuel : nat) (npool : N) (l : list N) : option (list wop) :=
  match fuel with
  | O => None
  | S f =>
      match l with
      | [] => Some []
      | op :: dest :: nargs :: r =>
          if (NOPS <=? op) || (npool <? dest) || (64 <? nargs) then None else
          match dec_args npool (N.to_nat nargs) r with
          | Some (args, r') =>
              if (op =? 0) && ((dest =? 0) || negb (nargs =? 1)) then None else
              match dec_ops f npool r' with Some ops => Some (mk_wop op dest args :: ops) | None => None end
          | None => None
          end
      | _ => None
      end
  end.

Fixpoint dec_pool (n : nat) (l : list N) : option (list text * list N) :=
  match n with
  | O => Some ([], l)
  | S k =>
      match l with
      | len :: r =>
          if 4096 <? len then None else
          match take_n (N.to_nat len) r with
          | Some (cs, r') =>
              if forallb is_scalar cs then
                match dec_pool k r' with Some (p, r'') => Some (cs :: p, r'') | None => None end
              else None
          | None => None
          end
      | [] => None
      end
  end.

(* ------------------------------------------------------------- execution *)
Definition op_fn (op nargs : N) : option (M vcell) :=
  match op with
  | 1 => Some string_length | 2 => Some string_ref | 3 => Some string_set
  | 4 => Some string_copy | 5 => Some (substring nargs) | 6 => Some string_fill
  | 7 => Some string_list | 8 => Some string_vector | 9 => Some vector_string
  | 10 => Some list_string | 11 => Some string_ | 12 => Some make_string
  | 13 => Some string_append
  | 14 => Some (string_cmp CEq) | 15 => Some (string_cmp CLt) | 16 => Some (string_cmp CGt)
  | 17 => Some (string_cmp CLe) | 18 => Some (string_cmp CGe)
  | 19 => Some (string_ci_cmp CEq) | 20 => Some (string_ci_cmp CLt) | 21 => Some (string_ci_cmp CGt)
  | 22 => Some (string_ci_cmp CLe) | 23 => Some (string_ci_cmp CGe)
  | 24 => Some string_upcase | 25 => Some string_downcase | 26 => Some string_foldcase
  | 27 => Some char_to_integer | 28 => Some integer_to_char
  | 29 => Some char_is_alphabetic | 30 => Some char_is_numeric | 31 => Some char_is_whitespace
  | 32 => Some char_is_upper_case | 33 => Some char_is_lower_case
  | 34 => Some char_upcase | 35 => Some char_downcase | 36 => Some char_foldcase
  | 37 => Some digit_value
  | 38 => Some (char_cmp CEq) | 39 => Some (char_cmp CLt) | 40 => Some (char_cmp CGt)
  | 41 => Some (char_cmp CLe) | 42 => Some (char_cmp CGe)
  | 43 => Some (char_ci_cmp CEq) | 44 => Some (char_ci_cmp CLt) | 45 => Some (char_ci_cmp CGt)
  | 46 => Some (char_ci_cmp CLe) | 47 => Some (char_ci_cmp CGe)
  | _ => None
  end.

(* a constant of the expression placed in the heap (Heap::maybe_put_cell) *)
Definition put_datum (c : cell) : M vcell := fun s =>
  match maybe_put_cell (hp s) (st s) c with
  | Ok (v, h, x) => ROk v (with_store (with_heap s h) x)
  | Err e => RErr e [] s | Panic k => RPanic k | NoFuel => RNoFuel
  end.

Fixpoint eval_args (pool : list vcell) (l : list warg) : M (list vcell) :=
  match l with
  | [] => ret []
  | a :: r =>
      dom v <- match a with
               | WPool k => match list_get pool k with Some v => ret v | None => fail E_OTHER end
               | WDat c => put_datum c
               end;
      dom vs <- eval_args pool r; ret (v :: vs)
  end.

Definition cell_fuel (s : vm) : nat := N.to_nat (hlen (hp s)) + 8.
Definition show_value (s : vm) (v : vcell) : list N :=
  match get_as_cell builtin_name_default (hp s) (st s) (cell_fuel s) v with
  | Ok c => esc2 (write c)
  | _ => [63]
  end.

Fixpoint show_pool (s : vm) (pool : list vcell) : list N :=
  match pool with
  | [] => []
  | v :: r => S_ " ; " ++ show_value s v ++ show_pool s r
  end.

Definition reset_sp (s : vm) : vm := with_sp s 0.

(* one operation; returns the record text, the state and pool afterwards, and whether
   the sequence continues *)
Definition run_op (s : vm) (pool : list vcell) (o : wop) : list N * vm * list vcell * bool :=
  let m : M vcell :=
    dom args <- eval_args pool (w_args o);
    if w_op o =? 0 then
      match args with [v] => ret v | _ => fail E_OTHER end
    else
      match op_fn (w_op o) (len args) with
      | Some f => run_builtin f args
      | None => fail E_OTHER
      end in
  match m (reset_sp s) with
  | ROk v s' =>
      let pool' := if w_dest o =? 0 then pool else list_set pool (w_dest o - 1) v in
      (S_ "OK " ++ show_value s' v ++ show_pool s' pool', s', pool', true)
  | RErr _ _ s' => (S_ "ERR" ++ show_pool s' pool, s', pool, true)
  | RPanic _ => (S_ "PANIC", s, pool, false)
  | RNoFuel => (S_ "NOFUEL", s, pool, false)
  end.

Fixpoint run_ops (s : vm) (pool : list vcell) (ops : list wop) (first : bool) : list N :=
  match ops with
  | [] => []
  | o :: r =>
      let '(rec, s', pool', go) := run_op s pool o in
      (if first then [] else S_ " | ") ++ rec ++ (if go then run_ops s' pool' r false else [])
  end.

Definition MODEL_CHUNK : N := 64.

Fixpoint init_pool (l : list text) : M (list vcell) :=
  match l with
  | [] => ret []
  | t :: r => dom v <- str_new t; dom vs <- init_pool r; ret (v :: vs)
  end.

Definition run_seq (c : list N) : list N :=
  match c with
  | npool :: r =>
      if 16 <? npool then S_ "BADCASE" else
      match dec_pool (N.to_nat npool) r with
      | Some (strs, r') =>
          match dec_ops (S (length r')) npool r' with
          | Some ops =>
              match init_pool strs (vm_empty MODEL_CHUNK) with
              | ROk pool s => S_ "SEQ " ++ run_ops s pool ops true
              | _ => S_ "BADCASE"
              end
          | None => S_ "BADCASE"
          end
      | None => S_ "BADCASE"
      end
  | [] => S_ "BADCASE"
  end.

(* ------------------------------------------------- 31: the table builtins *)
Definition str_of_chars (cs : list cp) : M vcell := run_builtin string_ (map VChar cs).
Definition on_string (f : M vcell) (cs : list cp) : M vcell :=
  dom s <- str_of_chars cs; run_builtin f [s].

Definition char_record (u : N) : M (list vcell) :=
  let c1 (f : M vcell) := run_builtin f [VChar u] in
  dom r1 <- run_builtin integer_to_char [VNum (Fixnum (Z.of_N u))];
  dom r2 <- c1 char_to_integer;
  dom r3 <- c1 char_is_alphabetic; dom r4 <- c1 char_is_numeric; dom r5 <- c1 char_is_whitespace;
  dom r6 <- c1 char_is_upper_case; dom r7 <- c1 char_is_lower_case;
  dom r8 <- c1 char_upcase; dom r9 <- c1 char_downcase; dom r10 <- c1 char_foldcase;
  dom r11 <- c1 digit_value;
  dom r12 <- on_string string_upcase [u];
  dom r13 <- on_string string_downcase [u];
  dom r14 <- on_string string_foldcase [65; SIGMA; u];
  dom r15 <- on_string string_downcase [65; SIGMA; u; 65];
  dom r16 <- on_string string_downcase [u; SIGMA];
  ret [r1; r2; r3; r4; r5; r6; r7; r8; r9; r10; r11; r12; r13; r14; r15; r16].

Fixpoint cells_of (s : vm) (l : list vcell) : out (list cell) :=
  match l with
  | [] => Ok []
  | v :: r =>
      do c <- get_as_cell builtin_name_default (hp s) (st s) (cell_fuel s) v;
      do cs <- cells_of s r; Ok (c :: cs)
  end.

Definition show_res_list (r : res (list vcell)) : list N :=
  match r with
  | ROk vs s' => match cells_of s' vs with Ok cs => esc2 (write (mk_list cs CNil)) | _ => [63] end
  | RErr _ _ _ => S_ "ERR"
  | RPanic _ => S_ "PANIC"
  | RNoFuel => S_ "NOFUEL"
  end.

Definition show_res_one (r : res vcell) : list N :=
  match r with
  | ROk v s' => show_value s' v
  | RErr _ _ _ => S_ "ERR"
  | RPanic _ => S_ "PANIC"
  | RNoFuel => S_ "NOFUEL"
  end.

(* a fresh machine per code point: the records are independent of one another *)
Fixpoint run_chars (n : nat) (u : N) : list N :=
  match n with
  | O => []
  | S k =>
      let s := vm_empty MODEL_CHUNK in
      32 :: (if is_scalar u then show_res_list (char_record u s)
             else show_res_one (run_builtin integer_to_char [VNum (Fixnum (Z.of_N u))] s))
         ++ run_chars k (u + 1)
  end.

Definition run_str (c : list N) : list N :=
  match c with
  | 30 :: r => run_seq r
  | [31; lo; n] =>
      if (0x110000 <? lo) || (4096 <? n) then S_ "BADCASE" else S_ "CH" ++ run_chars (N.to_nat n) lo
  | _ => S_ "BADCASE"
  end.
