(* F64.v — IEEE-754 binary64 as Flocq's BinarySingleNaN (one NaN, like Rust's
   observable f64 behaviour up to NaN payloads).  Executable definitions only. *)
From Coq Require Import ZArith.
From Flocq Require Import IEEE754.BinarySingleNaN.
From MW Require Import Model.Base.
Open Scope Z_scope.

Definition f64 := binary_float 53 1024.

Lemma prec_gt_0_53 : FLX.Prec_gt_0 53. Proof. reflexivity. Qed.
Lemma prec_lt_emax_64 : Prec_lt_emax 53 1024. Proof. reflexivity. Qed.
Global Existing Instance prec_gt_0_53.
Global Existing Instance prec_lt_emax_64.

Definition f64_add : f64 -> f64 -> f64 := Bplus mode_NE.
Definition f64_sub : f64 -> f64 -> f64 := Bminus mode_NE.
Definition f64_mul : f64 -> f64 -> f64 := Bmult mode_NE.
Definition f64_div : f64 -> f64 -> f64 := Bdiv mode_NE.
Definition f64_neg : f64 -> f64 := Bopp.
Definition f64_abs : f64 -> f64 := Babs.
Definition f64_cmp : f64 -> f64 -> option comparison := Bcompare.
Definition f64_eqb (a b : f64) : bool := Beqb a b.       (* IEEE ==: NaN <> NaN, +0 == -0 *)
Definition f64_ltb (a b : f64) : bool := Bltb a b.
Definition f64_leb (a b : f64) : bool := Bleb a b.
Definition f64_is_nan (a : f64) : bool := is_nan a.
Definition f64_is_finite (a : f64) : bool := is_finite a.
Definition f64_zero : f64 := B754_zero false.
Definition f64_nan : f64 := B754_nan.
Definition f64_inf (neg : bool) : f64 := B754_infinity neg.

(* i64/BigInt -> f64 (`as f64`, to_f64): round to nearest even *)
Definition f64_of_Z (z : Z) : f64 := binary_normalize 53 1024 _ _ mode_NE z 0 false.
(* m * 2^e, correctly rounded *)
Definition f64_of_Z2 (m e : Z) : f64 := binary_normalize 53 1024 _ _ mode_NE m e false.

(* f64::floor / ceil / trunc / round (half away from zero) *)
Definition f64_floor : f64 -> f64 := Bnearbyint mode_DN.
Definition f64_ceil : f64 -> f64 := Bnearbyint mode_UP.
Definition f64_trunc : f64 -> f64 := Bnearbyint mode_ZR.
Definition f64_round : f64 -> f64 := Bnearbyint mode_NA.
(* truncation to an integer; None for NaN / infinities *)
Definition f64_to_Z (a : f64) : option Z :=
  match a with
  | B754_zero _ => Some 0
  | B754_finite s m e _ =>
      let v := if 0 <=? e then Z.pos m * 2 ^ e else Z.quot (Z.pos m) (2 ^ (- e)) in
      Some (if s then - v else v)
  | _ => None
  end.
(* exact value of a finite float as mantissa * 2^exponent *)
Definition f64_to_Z2 (a : f64) : option (Z * Z) :=
  match a with
  | B754_zero _ => Some (0, 0)
  | B754_finite s m e _ => Some ((if s then Z.neg m else Z.pos m), e)
  | _ => None
  end.

(* the 64-bit pattern; the single NaN is reported as 0x7ff8000000000000 *)
Definition f64_bits (a : f64) : Z :=
  match a with
  | B754_nan => 0x7ff8000000000000
  | B754_zero s => if s then 0x8000000000000000 else 0
  | B754_infinity s => if s then 0xfff0000000000000 else 0x7ff0000000000000
  | B754_finite s m e _ =>
      let sign := if s then 0x8000000000000000 else 0 in
      if Z.pos m <? 0x10000000000000 then sign + Z.pos m      (* subnormal: e = -1074 *)
      else sign + (e + 1075) * 0x10000000000000 + (Z.pos m - 0x10000000000000)
  end.
Definition f64_of_bits (b : Z) : f64 :=
  let s := 0x8000000000000000 <=? b in
  let r := if s then b - 0x8000000000000000 else b in
  let ex := r / 0x10000000000000 in
  let mant := r mod 0x10000000000000 in
  if ex =? 2047 then (if mant =? 0 then B754_infinity s else B754_nan)
  else if ex =? 0 then
    (if mant =? 0 then B754_zero s
     else let f := f64_of_Z2 mant (-1074) in if s then Bopp f else f)
  else let f := f64_of_Z2 (mant + 0x10000000000000) (ex - 1075) in if s then Bopp f else f.
