(* WireLv.v — wire interfaces of the "lv" area (ids 40-49): C14, list and vector
   procedures.  [run_lv c] receives the whole case (first element = interface id).

   40 npool step*   an operation sequence over a pool of objects held in p0, p1, ...
                    (see harness/src/area_lv.rs for the grammar).  Every step is
                    (define p<k> (<op> operand...)); the model pushes the operand values
                    exactly as the compiled code does (a global: the slot content, a
                    quoted datum: maybe_put_cell), runs the builtin through the CALL
                    wrapper and binds the accumulator.
   41 npool step*   the same, printing only the last step (circular data).           *)
From Coq Require Import String.
From MW Require Import Model.Base Model.F64 Model.Num Model.Datum Model.TransformDef
  Model.VmTypes Model.Heap Model.VmBase Model.ListVec Model.PreludeLists.
Open Scope N_scope.

Definition LV_FUEL : nat := N.to_nat 6000.
Definition SIZE_BUDGET : Z := 1000.

(* ------------------------------------------------------------------ parsing *)
Inductive operand := OPool (i : N) | ODatum (c : cell) | OFun (f : N).

Fixpoint take_n {A} (n : nat) (l : list A) : option (list A * list A) :=
  match n with
  | O => Some ([], l)
  | S k => match l with
           | [] => None
           | x :: r => match take_n k r with Some (a, b) => Some (x :: a, b) | None => None end
           end
  end.

Fixpoint parse_datum (f : nat) (c : list N) : option (cell * list N) :=
  match f with
  | O => None
  | S f' =>
      match c with
      | 1 :: s :: m :: r => Some (CNum (Fixnum (if s =? 1 then - Z.of_N m else Z.of_N m)), r)
      | 11 :: s :: m :: r => Some (CNum (BigInt (if s =? 1 then - Z.of_N m else Z.of_N m)), r)
      | 2 :: b :: r => Some (CBool (negb (b =? 0)), r)
      | 3 :: ch :: r => Some (CChar ch, r)
      | 4 :: k :: r => if k <? 26 then Some (CSym [97 + k], r) else None
      | 5 :: r => Some (CNil, r)
      | 6 :: bits :: r => Some (CNum (Float (f64_of_bits (Z.of_N bits))), r)
      | 7 :: n :: r => match take_n (N.to_nat n) r with Some (s, r') => Some (CStr s, r') | None => None end
      | 8 :: n :: r =>
          match parse_data f' (N.to_nat n) r with
          | Some (l, r') =>
              match parse_datum f' r' with
              | Some (t, r'') => Some (mk_list l t, r'')
              | None => None
              end
          | None => None
          end
      | 9 :: n :: r =>
          match parse_data f' (N.to_nat n) r with
          | Some (l, r') => Some (CVec l, r')
          | None => None
          end
      | _ => None
      end
  end
with parse_data (f : nat) (n : nat) (c : list N) : option (list cell * list N) :=
  match f with
  | O => None
  | S f' =>
      match n with
      | O => Some ([], c)
      | S k =>
          match parse_datum f' c with
          | Some (d, r) =>
              match parse_data f' k r with
              | Some (l, r') => Some (d :: l, r')
              | None => None
              end
          | None => None
          end
      end
  end.

Definition parse_operand (f : nat) (c : list N) : option (operand * list N) :=
  match c with
  | 0 :: i :: r => Some (OPool i, r)
  | 10 :: g :: r => if (g =? 0) || (48 <=? g) then None else Some (OFun g, r)
  | _ => match parse_datum f c with Some (d, r) => Some (ODatum d, r) | None => None end
  end.

Fixpoint parse_operands (f : nat) (n : nat) (c : list N) : option (list operand * list N) :=
  match n with
  | O => Some ([], c)
  | S k =>
      match parse_operand f c with
      | Some (o, r) =>
          match parse_operands f k r with
          | Some (l, r') => Some (o :: l, r')
          | None => None
          end
      | None => None
      end
  end.

Fixpoint parse_steps (f : nat) (c : list N) : option (list (N * list operand)) :=
  match f with
  | O => None
  | S f' =>
      match c with
      | [] => Some []
      | op :: n :: r =>
          if (48 <=? op) || (64 <? n) then None
          else
            match parse_operands (S (length c + length c)) (N.to_nat n) r with
            | Some (ops, r') =>
                if (op =? 0) && negb (n =? 1) then None
                else match parse_steps f' r' with
                     | Some l => Some ((op, ops) :: l)
                     | None => None
                     end
            | None => None
            end
      | _ => None
      end
  end.

(* -------------------------------------------------------------- evaluation *)
Definition put_datum (c : cell) : M vcell := fun s =>
  match maybe_put_cell (hp s) (st s) c with
  | Ok (v, h, x) => ROk v (with_store (with_heap s h) x)
  | Err e => RErr e [] s
  | Panic k => RPanic k
  | NoFuel => RNoFuel
  end.

(* the value the compiled operand expression leaves in %acc *)
Definition eval_operand (pool : list vcell) (o : operand) : M vcell :=
  match o with
  | OPool i => match list_get pool i with Some v => ret v | None => fail E_OTHER end
  | ODatum c => put_datum c               (* MOVI (maybe_put_cell datum) %acc, compile.rs:636-641 *)
  | OFun f => hput (VBuiltin f)           (* the global slot of a procedure holds a pointer *)
  end.
Fixpoint eval_operands (pool : list vcell) (l : list operand) : M (list vcell) :=
  match l with
  | [] => ret []
  | o :: r => dom v <- eval_operand pool o; dom vs <- eval_operands pool r; ret (v :: vs)
  end.

Section Ops.
Let F := LV_FUEL.

(* first-order procedures by op id (the table OPS of area_lv.rs) *)
Definition apply_op1 (op : N) (args : list vcell) : M vcell :=
  let b := apply_builtin in
  match op with
  | 1 => b cons_ args | 2 => b (car F) args | 3 => b (cdr F) args
  | 4 => b set_car args | 5 => b set_cdr args
  | 6 => p_list args | 7 => p_length F args
  | 8 => b (append F) args | 9 => b (reverse F) args
  | 10 => b (list_tail F) args | 11 => b (list_ref F) args
  | 12 => p_mem F eq_b args | 13 => p_mem F eqv_b args | 14 => p_mem F (equal_b F) args
  | 15 => p_ass F eq_b args | 16 => p_ass F eqv_b args | 17 => p_ass F (equal_b F) args
  | 20 => b (is_list F) args
  | 21 => b vector args | 22 => b make_vector args | 23 => b vector_length args
  | 24 => b vector_ref args | 25 => b vector_set args | 26 => b vector_fill args
  | 27 => b vector_to_list args | 28 => b (list_to_vector F) args
  | 29 => b vector_copy args | 30 => b vector_mut_copy args
  | 31 => b (equal_b F) args | 32 => b eq_b args | 33 => b eqv_b args
  | 34 => b is_pair_b args | 35 => b is_null args | 36 => b is_vector args
  | 37 => p_cadr F args | 38 => p_cddr F args | 39 => p_caar F args | 40 => p_cdar F args
  | 41 => b not_b args | 42 => b is_boolean args | 43 => b is_char args
  | 44 => b is_symbol args | 45 => b is_string args | 46 => b is_procedure args
  | 47 => b is_number args
  | _ => fail E_OTHER
  end.

(* map / for-each take the procedure as their first argument *)
Definition fn_of (fobj : vcell) : M (list vcell -> M vcell) :=
  dom fv <- hderef fobj;
  match fv with
  | VBuiltin f => ret (apply_op1 f)
  | _ => ret (fun _ => fail E_OTHER)        (* CALL of a non-procedure: InvalidProcedure *)
  end.
Definition apply_op (op : N) (args : list vcell) : M vcell :=
  match op with
  | 18 => match args with
          | fobj :: lists => dom fn <- fn_of fobj; p_map F fn lists
          | [] => fail E_OTHER
          end
  | 19 => match args with
          | fobj :: lists => dom fn <- fn_of fobj; p_for_each F fn lists
          | [] => fail E_OTHER
          end
  | _ => apply_op1 op args
  end.
End Ops.

Definition run_step (pool : list vcell) (op : N) (ops : list operand) : M vcell :=
  dom args <- eval_operands pool ops;
  if op =? 0 then match args with [v] => ret v | _ => fail E_OTHER end
  else apply_op op args.

(* ----------------------------------------------------------------- printing *)
(* canonical written form, the same as `canon` of area_lv.rs *)
Fixpoint canon (c : cell) {struct c} : text :=
  match c with
  | CBool b => if b then [35;116] else [35;102]
  | CChar ch => [35;92;120] ++ show_hex ch
  | CNil => [40;41]
  | CNum (Fixnum z) => show_Z z
  | CNum (BigInt z) => show_Z z
  | CNum (Float x) => [35;105] ++ show_hex (Z.to_N (f64_bits x))
  | CNum _ => [35;110]
  | CPair a d =>
      let fix rest (d : cell) {struct d} : text :=
        match d with
        | CNil => [41]
        | CPair na nd => [32] ++ canon na ++ rest nd
        | other => [32;46;32] ++ canon other ++ [41]
        end in
      40 :: canon a ++ rest d
  | CStr s => [34] ++ esc_text s ++ [34]
  | CSym s => esc_text s
  | CVec l =>
      let fix elems (l : list cell) : text :=
        match l with
        | [] => []
        | [x] => canon x
        | x :: r => canon x ++ [32] ++ elems r
        end in
      [35;40] ++ elems l ++ [41]
  | CCont => S_ "#<cont>"
  | CMacro => S_ "#<macro>"
  | CProc _ => S_ "#<proc>"
  | CUndef => S_ "#<undef>"
  | CVoid => S_ "#<void>"
  end.

(* the node budget probe %sz / %szv of area_lv.rs: pairs and vectors cost one *)
Fixpoint sz (f : nat) (s : vm) (v : vcell) (n : Z) {struct f} : Z :=
  match f with
  | O => (-1)%Z
  | S f' =>
      if (n <? 0)%Z then n
      else
        match heap_deref (hp s) v with
        | Ok (VPair a d) => sz f' s (VPtr d) (sz f' s (VPtr a) (n - 1)%Z)
        | Ok (VVec vid) =>
            match tget (vecs (st s)) vid with
            | Some l =>
                (fix go (l : list vcell) (n : Z) : Z :=
                   match l with
                   | [] => n
                   | x :: r => if (n <? 0)%Z then n else go r (sz f' s x n)
                   end) l (n - 1)%Z
            | None => (-1)%Z
            end
        | Ok _ => n
        | _ => (-1)%Z
        end
  end.

Definition show_obj (s : vm) (v : vcell) : text :=
  if (sz (N.to_nat 1200) s v SIZE_BUDGET <? 0)%Z then S_ "#<big>"
  else match get_as_cell builtin_name_default (hp s) (st s) LV_FUEL v with
       | Ok c => canon c
       | _ => S_ "#<big>"
       end.

Definition eq_probe (s : vm) (a b : vcell) : N :=
  match apply_builtin eq_b [a; b] s with
  | ROk (VBool true) _ => 49
  | ROk (VBool false) _ => 48
  | _ => 63
  end.

(* the objects 0..k whose form changed since they were last printed *)
Fixpoint show_changed (s : vm) (i : N) (pool : list vcell) (last : list text) : text * list text :=
  match pool with
  | [] => ([], [])
  | v :: r =>
      let t := show_obj s v in
      let '(prev, lr) := match last with [] => (None, []) | p :: q => (Some p, q) end in
      let '(out, l2) := show_changed s (i + 1) r lr in
      let same := match prev with Some p => text_eqb p t | None => false end in
      ((if same then [] else 32 :: show_N i ++ [61] ++ t) ++ out, t :: l2)
  end.

Definition eq_row (s : vm) (pool : list vcell) (k : vcell) : text :=
  map (fun v => eq_probe s k v) pool.

Fixpoint eq_matrix (s : vm) (done rest : list vcell) : text :=
  match rest with
  | [] => []
  | v :: r => 32 :: eq_row s done v ++ eq_matrix s (done ++ [v]) r
  end.

(* ------------------------------------------------------------------- driver *)
Fixpoint run_steps (last_only : bool) (npool : N) (k : N) (steps : list (N * list operand))
    (s : vm) (pool : list vcell) (last : list text) (out : text) : text :=
  match steps with
  | [] => if last_only then out else out ++ S_ " | F" ++ eq_matrix s [] pool
  | (op, ops) :: rest =>
      let r := run_step pool op ops s in
      match r with
      | RPanic _ => out ++ S_ " | PANIC"
      | RNoFuel => out ++ S_ " | NOFUEL"
      | ROk _ _ | RErr _ _ _ =>
          let '(status, v, s1) := match r with
                                  | ROk v s1 => (S_ "OK", v, s1)
                                  | RErr _ _ s1 => (S_ "ERR", VBool false, s1)
                                  | _ => ([], VUndef, s)
                                  end in
          let s2 := with_sp s1 0 in
          let pool' := pool ++ [v] in
          if last_only then
            (match rest with
             | [] => run_steps last_only npool (k + 1) rest s2 pool' last
                       (out ++ S_ " | " ++ status ++ [32] ++ show_obj s2 v)
             | _ => run_steps last_only npool (k + 1) rest s2 pool' last out
             end)
          else if k <? npool then run_steps last_only npool (k + 1) rest s2 pool' last out
          else
            let '(chg, last') := show_changed s2 0 pool' last in
            run_steps last_only npool (k + 1) rest s2 pool' last'
              (out ++ S_ " | " ++ status ++ chg ++ S_ " E" ++ eq_row s2 pool v)
      end
  end.

Definition run_seq (last_only : bool) (c : list N) : text :=
  match c with
  | npool :: r =>
      match parse_steps (S (length r)) r with
      | Some steps => run_steps last_only npool 0 steps (vm_empty 8192) [] [] (S_ "S")
      | None => S_ "BADCASE"
      end
  | [] => S_ "BADCASE"
  end.

Definition run_lv (c : list N) : list N :=
  match c with
  | 40 :: r => run_seq false r
  | 41 :: r => run_seq true r
  | _ => S_ "BADCASE"
  end.
