(* NumProc.v — the procedures number->string and string->number
   (marwood/src/vm/builtin/number.rs:466-500) over already evaluated arguments, in
   call order.  Argument evaluation, the stack and the heap are the VM's business;
   numbers and strings are self-evaluating and unchanged by the heap round trip.
   Definitions only.                                                            *)
From Coq Require Import ZArith List Bool.
From MW Require Import Model.Base Model.F64 Model.Num Model.Digits Model.F64Fmt Model.NumFmt Model.Datum.
Open Scope Z_scope.

(* pop_usize, builtin/mod.rs:99-107: an integer (`is_integer`), >= 0, with
   Number::to_usize() defined (number.rs:124-135: no arm for floats) *)
Definition pop_usize (c : cell) : out Z :=
  match c with
  | CNum (Fixnum z) => if 0 <=? z then Ok z else Err E_OTHER
  | CNum (BigInt z) => if (0 <=? z) && (z <=? U64_MAX) then Ok z else Err E_OTHER
  | CNum (Rational n d) => if (d =? 1) && (0 <=? n) then Ok n else Err E_OTHER
  | _ => Err E_OTHER
  end.

(* the radix dispatch of number_string, number.rs:474-479: anything other than
   16, 8, 2 prints in decimal *)
Definition number_to_text (radix : Z) (n : num) : out text :=
  if radix =? 16 then num_fmt_radix 16 n
  else if radix =? 8 then num_fmt_radix 8 n
  else if radix =? 2 then num_fmt_radix 2 n
  else Ok (num_display n).

(* number_string, builtin/number.rs:466-481.  The radix is popped (and validated as
   a size) before the number. *)
Definition number_string (args : list cell) : out cell :=
  match args with
  | [z] =>
      match z with
      | CNum n => do s <- number_to_text 10 n; Ok (CStr s)
      | _ => Err E_OTHER
      end
  | [z; r] =>
      do radix <- pop_usize r;
      match z with
      | CNum n => do s <- number_to_text radix n; Ok (CStr s)
      | _ => Err E_OTHER
      end
  | _ => Err E_OTHER
  end.

(* string_number, builtin/number.rs:483-500 AFTER fix F13: a radix outside 2..=36 is
   an error (it used to reach from_str_radix and panic; and it was first truncated
   to u32) *)
Definition string_to_number (p : profile) (s : text) (radix : Z) : out cell :=
  if (radix <? 2) || (36 <? radix) then Err E_OTHER
  else
    do r <- parse_with_exactness_p p s Unspecified radix;
    match r with
    | Some n => Ok (CNum n)
    | None => Ok (CBool false)
    end.

Definition string_number (args : list cell) : out cell :=
  match args with
  | [s] =>
      match s with
      | CStr t => string_to_number Debug t 10
      | _ => Err E_OTHER
      end
  | [s; r] =>
      do radix <- pop_usize r;
      if (radix <? 2) || (36 <? radix) then Err E_OTHER
      else match s with
           | CStr t => string_to_number Debug t radix
           | _ => Err E_OTHER
           end
  | _ => Err E_OTHER
  end.

(* the literal prefix of a radix, lex.rs:205-221 / parse.rs:306-332 *)
Definition radix_prefix (radix : Z) : text :=
  if radix =? 2 then [35; 98]%N else if radix =? 8 then [35; 111]%N
  else if radix =? 16 then [35; 120]%N else [35; 100]%N.
