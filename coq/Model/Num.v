(* Num.v — the representation type of marwood::number::Number (number.rs:50-56).
   Fixnum carries an i64, BigInt any integer (also small ones), Rational a
   num_rational::Ratio<i32> (numer, denom as stored), Float an f64.            *)
From Coq Require Import ZArith.
From MW Require Import Model.Base Model.F64.
Open Scope Z_scope.

Inductive num :=
| Fixnum (z : Z)
| BigInt (z : Z)
| Rational (n d : Z)
| Float (f : f64).

Inductive exactness := Exact | Inexact | Unspecified.   (* number.rs:29-34 *)

Definition I64_MIN := - 2 ^ 63.
Definition I64_MAX := 2 ^ 63 - 1.
Definition I32_MIN := - 2 ^ 31.
Definition I32_MAX := 2 ^ 31 - 1.
Definition U64_MAX := 2 ^ 64 - 1.
Definition in_i64 (z : Z) : bool := (I64_MIN <=? z) && (z <=? I64_MAX).
Definition in_i32 (z : Z) : bool := (I32_MIN <=? z) && (z <=? I32_MAX).

(* the build profile: integer overflow panics under Debug and wraps under Release *)
Inductive profile := Debug | Release.

Definition wrap (bits : Z) (z : Z) : Z :=
  let m := 2 ^ bits in
  let r := z mod m in
  if r <? 2 ^ (bits - 1) then r else r - m.
