(* WireVm.v — wire interfaces of the "vm" area (ids 70-99).
   70: session — `70 nforms (len cp...)*`: each form text is evaluated datum by datum
       in ONE vm booted with the prelude; result: per datum `OK <write>` | `ERR` |
       `ERR user <irritants>` | `ERR incomplete`, then ` LOG` and the display/write log. *)
From Coq Require Import String.
From MW Require Import Model.Base Model.F64 Model.Num Model.NumFmt Model.Datum Model.Lex Model.Parse
  Model.VmTypes Model.Heap Model.VmBase Model.Compile Model.Vm Model.Builtins.
Open Scope N_scope.

Fixpoint take_texts (k : nat) (c : list N) : option (list text) :=
  match k with
  | O => match c with [] => Some [] | _ => None end
  | S k' =>
      match c with
      | n :: r =>
          let n' := N.to_nat n in
          if (length r <? n')%nat then None else
          match take_texts k' (skipn n' r) with
          | Some ts => Some (firstn n' r :: ts)
          | None => None
          end
      | [] => None
      end
  end.

Definition show_form_result (r : form_result) : list N :=
  match r with
  | FOk c => S_ " OK "%string ++ esc_text (write c)
  | FErr e msg =>
      if e =? E_INCOMPLETE then S_ " ERR incomplete"%string
      else if e =? E_USER then S_ " ERR user "%string ++ esc_text msg
      else S_ " ERR"%string
  | FPanic => S_ " PANIC"%string
  | FNoFuel => S_ " NOFUEL"%string
  end.

Definition show_ev (e : outev) : list N :=
  match e with
  | EvDisplay c => S_ " D:"%string ++ esc_text (display c)
  | EvWrite c => S_ " W:"%string ++ esc_text (write c)
  end.

Fixpoint run_forms (forms : list text) (s : vm) (acc : list N) : list N * vm :=
  match forms with
  | [] => (acc, s)
  | t :: r =>
      let '(rs, s') := eval_text_all (S (length t)) t s [] in
      run_forms r s' (acc ++ S_ " |"%string ++ flat_map show_form_result rs)
  end.

Definition run_session_from (b : option vm) (forms : list text) : list N :=
  match b with
  | None => S_ "BOOTFAIL"%string
  | Some s0 =>
      let '(out, s) := run_forms forms s0 [] in
      S_ "SESSION"%string ++ out ++ S_ " LOG"%string ++ flat_map show_ev (rev (out_log s))
  end.

Definition run_session := run_session_from booted.
(* 71: debugging aid — a machine booted WITHOUT the prelude (core forms only) *)
Definition booted_bare : option vm := boot_with [].

Definition run_vm (c : list N) : list N :=
  match c with
  | 70 :: n :: rest =>
      match take_texts (N.to_nat n) rest with
      | Some forms => run_session forms
      | None => S_ "BADCASE"%string
      end
  | 71 :: n :: rest =>
      match take_texts (N.to_nat n) rest with
      | Some forms => run_session_from booted_bare forms
      | None => S_ "BADCASE"%string
      end
  | _ => S_ "BADCASE"%string
  end.
