(* WireVm.v — wire interfaces of the "vm" area (see docs/AGENT_GUIDE.md for the id range).
   [run_vm c] receives the whole case (first element = interface id). *)
From Coq Require Import String.
From MW Require Import Model.Base Model.Datum.
Open Scope N_scope.

Definition run_vm (c : list N) : list N := S_ "BADCASE".
