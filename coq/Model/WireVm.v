(* WireVm.v — wire interfaces of the "vm" area (ids 70-99).
   70: session — `70 nforms (len cp...)*`: each form text is evaluated datum by datum
       in ONE vm booted with the prelude; result: per datum `OK <write>` | `ERR` |
       `ERR user <irritants>` | `ERR incomplete`, then ` LOG` and the display/write log. *)
From Coq Require Import String.
From MW Require Import Model.Base Model.F64 Model.Num Model.NumFmt Model.Datum Model.Lex Model.Parse
  Model.VmTypes Model.Heap Model.VmBase Model.Compile Model.Vm Model.Builtins.
Open Scope N_scope.

Fixpoint take_texts (k : nat) (c : list N) : option (list text) :=
  match k with
  | O => match c with [] => Some [] | _ => None end
  | S k' =>
      match c with
      | n :: r =>
          let n' := N.to_nat n in
          if (length r <? n')%nat then None else
          match take_texts k' (skipn n' r) with
          | Some ts => Some (firstn n' r :: ts)
          | None => None
          end
      | [] => None
      end
  end.

Definition show_form_result (r : form_result) : list N :=
  match r with
  | FOk c => S_ " OK "%string ++ esc_text (write c)
  | FErr e msg =>
      if e =? E_INCOMPLETE then S_ " ERR incomplete"%string
      else if e =? E_USER then S_ " ERR user "%string ++ esc_text msg
      else S_ " ERR"%string
  | FPanic k => if k =? 99 then S_ " UNMODELLED"%string else S_ " PANIC"%string
  | FNoFuel => S_ " NOFUEL"%string
  end.

Definition show_ev (e : outev) : list N :=
  match e with
  | EvDisplay c => S_ " D:"%string ++ esc_text (display c)
  | EvWrite c => S_ " W:"%string ++ esc_text (write c)
  end.

Fixpoint run_forms (forms : list text) (s : vm) (acc : list N) : list N * vm :=
  match forms with
  | [] => (acc, s)
  | t :: r =>
      let '(rs, s') := eval_text_all (S (length t)) t s [] in
      run_forms r s' (acc ++ S_ " |"%string ++ flat_map show_form_result rs)
  end.

Definition run_session_from (b : option vm) (forms : list text) : list N :=
  match b with
  | None => S_ "BOOTFAIL"%string
  | Some s0 =>
      let '(out, s) := run_forms forms s0 [] in
      S_ "SESSION"%string ++ out ++ S_ " LOG"%string ++ flat_map show_ev (rev (out_log s))
  end.

(* ------------------------------------------------ sliced execution (72, 73) *)
(* budgets: constant B (lcg state unused) or 1 + (x >> 33) mod M along the LCG
   x' = x * 6364136223846793005 + 1442695040888963407 mod 2^64 *)
Definition lcg (x : N) : N := (x * 6364136223846793005 + 1442695040888963407) mod 18446744073709551616.
Definition next_budget (m : N) (x : N) : N * N :=
  if m =? 0 then (x, x) else let x' := lcg x in (1 + (N.shiftr x' 33) mod m, x').

(* prepare_eval, then run_count(budget) until it returns Some/Err; [slices] bounds
   the number of resumptions *)
Fixpoint resume (slices : nat) (m : N) (x : N) (s : vm) : res run_result * N :=
  match slices with
  | O => (RNoFuel, x)
  | S k =>
      let '(b, x') := if m =? 0 then (x, x) else next_budget m x in
      match run_count other_builtin (S (N.to_nat b)) (Some b) s with
      | ROk Yield s' => resume k m x' s'
      | r => (r, x')
      end
  end.
Definition SLICES : nat := N.to_nat 600000.

Fixpoint sliced_text_all (nsl : nat) (fuel : nat) (m x : N) (t : text) (s : vm) (acc : list form_result)
    : list form_result * vm * N :=
  match fuel with
  | O => (rev (FNoFuel :: acc), s, x)
  | S f =>
      match parse_text t with
      | Ok (d, rest) =>
          let '(r, x') :=
            match prepare_eval d s with
            | ROk _ s1 => resume nsl m x s1
            | RErr e msg s1 => (ROk (Failed e msg None) s1, x)
            | RPanic k => (RPanic k, x)
            | RNoFuel => (RNoFuel, x)
            end in
          match r with
          | ROk (Done c) s' =>
              match rest with
              | Some r' => sliced_text_all nsl f m x' r' s' (FOk c :: acc)
              | None => (rev (FOk c :: acc), s', x')
              end
          | ROk (Failed e msg _) s' =>
              match rest with
              | Some r' => sliced_text_all nsl f m x' r' s' (FErr e msg :: acc)
              | None => (rev (FErr e msg :: acc), s', x')
              end
          | ROk Yield s' => (rev (FNoFuel :: acc), s', x')
          | RErr e msg s' => (rev (FErr e msg :: acc), s', x')
          | RPanic k => (rev (FPanic k :: acc), s, x')
          | RNoFuel => (rev (FNoFuel :: acc), s, x')
          end
      | Err e => (rev (FErr e [] :: acc), s, x)
      | Panic k => (rev (FPanic k :: acc), s, x)
      | NoFuel => (rev (FNoFuel :: acc), s, x)
      end
  end.

Fixpoint run_forms_sliced (m x : N) (forms : list text) (s : vm) (acc : list N) : list N * vm :=
  match forms with
  | [] => (acc, s)
  | t :: r =>
      let '(rs, s', x') := sliced_text_all SLICES (S (length t)) m x t s [] in
      run_forms_sliced m x' r s' (acc ++ S_ " |"%string ++ flat_map show_form_result rs)
  end.

Definition run_sliced_from (b : option vm) (m x : N) (forms : list text) : list N :=
  match b with
  | None => S_ "BOOTFAIL"%string
  | Some s0 =>
      let '(out, s) := run_forms_sliced m x forms s0 [] in
      S_ "SESSION"%string ++ out ++ S_ " LOG"%string ++ flat_map show_ev (rev (out_log s))
  end.

(* ------------------------------------- registers after each datum (74) *)
Definition show_state (s : vm) (tr : option trace) : list N :=
  S_ " [sp="%string ++ show_N (sp s) ++ S_ " bp="%string ++ show_N (bp s)
  ++ S_ " cap="%string ++ show_N (scap s) ++ S_ " frames="%string
  ++ match tr with Some fs => show_N (len fs) | None => [45] end ++ [93].

Fixpoint state_text_all (ef : nat) (fuel : nat) (t : text) (s : vm) (acc : list N) : list N * vm :=
  match fuel with
  | O => (acc ++ S_ " NOFUEL"%string, s)
  | S f =>
      match parse_text t with
      | Ok (d, rest) =>
          match eval_cell_f ef d s with
          | ROk r s' =>
              let line := match r with
                          | Done c => show_form_result (FOk c) ++ show_state s' None
                          | Failed e m tr => show_form_result (FErr e m) ++ show_state s' tr
                          | Yield => show_form_result FNoFuel end in
              match rest with
              | Some r' => state_text_all ef f r' s' (acc ++ line)
              | None => (acc ++ line, s')
              end
          | RErr e m s' => (acc ++ show_form_result (FErr e m), s')
          | RPanic _ => (acc ++ S_ " PANIC"%string, s)
          | RNoFuel => (acc ++ S_ " NOFUEL"%string, s)
          end
      | Err e => (acc ++ show_form_result (FErr e []), s)
      | Panic _ => (acc ++ S_ " PANIC"%string, s)
      | NoFuel => (acc ++ S_ " NOFUEL"%string, s)
      end
  end.
Fixpoint run_forms_state (forms : list text) (s : vm) (acc : list N) : list N :=
  match forms with
  | [] => acc
  | t :: r => let '(o, s') := state_text_all EVAL_FUEL (S (length t)) t s [] in
              run_forms_state r s' (acc ++ S_ " |"%string ++ o)
  end.

(* ---------------- registers after each datum, evaluation by slices (77 budget) *)
Fixpoint sliced_state_text_all (nsl : nat) (fuel : nat) (m x : N) (t : text) (s : vm) (acc : list N)
    : list N * vm * N :=
  match fuel with
  | O => (acc ++ S_ " NOFUEL"%string, s, x)
  | S f =>
      match parse_text t with
      | Ok (d, rest) =>
          let '(r, x') :=
            match prepare_eval d s with
            | ROk _ s1 => resume nsl m x s1
            | RErr e msg s1 => (ROk (Failed e msg None) s1, x)
            | RPanic k => (RPanic k, x)
            | RNoFuel => (RNoFuel, x)
            end in
          match r with
          | ROk rr s' =>
              match rr with
              | Yield => (acc ++ show_form_result FNoFuel, s', x')
              | _ =>
                  let line := match rr with
                              | Done c => show_form_result (FOk c) ++ show_state s' None
                              | Failed e msg tr => show_form_result (FErr e msg) ++ show_state s' tr
                              | Yield => [] end in
                  match rest with
                  | Some r' => sliced_state_text_all nsl f m x' r' s' (acc ++ line)
                  | None => (acc ++ line, s', x')
                  end
              end
          | RErr e msg s' => (acc ++ show_form_result (FErr e msg), s', x')
          | RPanic k => (acc ++ show_form_result (FPanic k), s, x')
          | RNoFuel => (acc ++ S_ " NOFUEL"%string, s, x')
          end
      | Err e => (acc ++ show_form_result (FErr e []), s, x)
      | Panic k => (acc ++ show_form_result (FPanic k), s, x)
      | NoFuel => (acc ++ S_ " NOFUEL"%string, s, x)
      end
  end.
Fixpoint run_forms_sliced_state (m x : N) (forms : list text) (s : vm) (acc : list N) : list N :=
  match forms with
  | [] => acc
  | t :: r =>
      let '(o, s', x') := sliced_state_text_all SLICES (S (length t)) m x t s [] in
      run_forms_sliced_state m x' r s' (acc ++ S_ " |"%string ++ o)
  end.
Definition run_sliced_state_from (b : option vm) (m x : N) (forms : list text) : list N :=
  match b with
  | None => S_ "BOOTFAIL"%string
  | Some s0 => S_ "STATE"%string ++ run_forms_sliced_state m x forms s0 []
  end.

(* --------------------- stack high-water mark at instruction boundaries (75) *)
Fixpoint step_hw (fuel : nat) (hw : N) (s : vm) : res run_result * N :=
  match fuel with
  | O => (RNoFuel, hw)
  | S f =>
      match run_count other_builtin 2 (Some 1) s with
      | ROk Yield s' => step_hw f (N.max hw (sp s')) s'
      | r => (r, hw)
      end
  end.
Fixpoint hw_text_all (ef : nat) (fuel : nat) (t : text) (s : vm) (acc : list N) : list N * vm :=
  match fuel with
  | O => (acc ++ S_ " NOFUEL"%string, s)
  | S f =>
      match parse_text t with
      | Ok (d, rest) =>
          let '(r, hw) :=
            match prepare_eval d s with
            | ROk _ s1 => step_hw ef 0 s1
            | RErr e msg s1 => (ROk (Failed e msg None) s1, 0)
            | RPanic k => (RPanic k, 0)
            | RNoFuel => (RNoFuel, 0)
            end in
          match r with
          | ROk rr s' =>
              let line := match rr with
                          | Done c => show_form_result (FOk c)
                          | Failed e m _ => show_form_result (FErr e m)
                          | Yield => show_form_result FNoFuel end
                          ++ S_ " hw="%string ++ show_N hw in
              match rest with
              | Some r' => hw_text_all ef f r' s' (acc ++ line)
              | None => (acc ++ line, s')
              end
          | RErr e m s' => (acc ++ show_form_result (FErr e m), s')
          | RPanic _ => (acc ++ S_ " PANIC"%string, s)
          | RNoFuel => (acc ++ S_ " NOFUEL"%string, s)
          end
      | Err e => (acc ++ show_form_result (FErr e []), s)
      | Panic _ => (acc ++ S_ " PANIC"%string, s)
      | NoFuel => (acc ++ S_ " NOFUEL"%string, s)
      end
  end.
Fixpoint run_forms_hw (forms : list text) (s : vm) (acc : list N) : list N :=
  match forms with
  | [] => acc
  | t :: r => let '(o, s') := hw_text_all EVAL_FUEL (S (length t)) t s [] in
              run_forms_hw r s' (acc ++ S_ " |"%string ++ o)
  end.

Definition run_session := run_session_from booted.
Definition run_sliced := run_sliced_from booted.
Definition run_state_from (b : option vm) (forms : list text) : list N :=
  match b with Some s0 => S_ "STATE"%string ++ run_forms_state forms s0 [] | None => S_ "BOOTFAIL"%string end.
Definition run_hw_from (b : option vm) (forms : list text) : list N :=
  match b with Some s0 => S_ "HW"%string ++ run_forms_hw forms s0 [] | None => S_ "BOOTFAIL"%string end.
(* 71: debugging aid — a machine booted WITHOUT the prelude (core forms only) *)
Definition booted_bare : option vm := boot_with [].

Definition run_vm (c : list N) : list N :=
  match c with
  | 70 :: n :: rest =>
      match take_texts (N.to_nat n) rest with
      | Some forms => run_session forms
      | None => S_ "BADCASE"%string
      end
  | 71 :: n :: rest =>
      match take_texts (N.to_nat n) rest with
      | Some forms => run_session_from booted_bare forms
      | None => S_ "BADCASE"%string
      end
  | 72 :: b :: n :: rest =>
      match take_texts (N.to_nat n) rest with
      | Some forms => run_sliced 0 b forms
      | None => S_ "BADCASE"%string
      end
  | 73 :: seed :: m :: n :: rest =>
      match take_texts (N.to_nat n) rest with
      | Some forms => run_sliced (N.max m 1) seed forms
      | None => S_ "BADCASE"%string
      end
  | 74 :: n :: rest =>
      match take_texts (N.to_nat n) rest with
      | Some forms => run_state_from booted forms
      | None => S_ "BADCASE"%string
      end
  | 75 :: n :: rest =>
      match take_texts (N.to_nat n) rest with
      | Some forms => run_hw_from booted forms
      | None => S_ "BADCASE"%string
      end
  | 77 :: b :: n :: rest =>
      match take_texts (N.to_nat n) rest with
      | Some forms => run_sliced_state_from booted 0 b forms
      | None => S_ "BADCASE"%string
      end
  | _ => S_ "BADCASE"%string
  end.
