(* ListVec.v — the list and vector builtins of marwood AS WRITTEN (after the fix:
   commits recorded in known_findings.json):
     marwood/src/vm/builtin/list.rs       car cdr cons set-car! set-cdr! append reverse list-tail list-ref
     marwood/src/vm/builtin/vector.rs     vector make-vector vector-length vector-ref vector-set!
                                          vector-fill! vector->list list->vector vector-copy vector-copy!
     marwood/src/vm/vector.rs             Vector::get/put/clone_vector
     marwood/src/vm/compare.rs            Vm::eqv / equal / compare_pair / compare_vector
     marwood/src/vm/builtin/predicate.rs  the type predicates, eq? eqv? equal? not list?
   Each builtin `fn(&mut Vm) -> Result<VCell, Error>` is an [M vcell]: it pops argc and
   the arguments in the Rust order and dereferences exactly where the Rust does.
   Loops that do not terminate on circular data take [fuel] (out of fuel = NoFuel = a
   hang); every usize subtraction is [usub] (Panic on underflow).
   Executable definitions only.                                                   *)
From Coq Require Import String.
From MW Require Import Model.Base Model.F64 Model.Num Model.Datum Model.TransformDef
  Model.VmTypes Model.Heap Model.VmBase.
Open Scope N_scope.

Definition nofuel {A} : M A := fun _ => RNoFuel.

(* usize subtraction: debug builds panic on underflow ("attempt to subtract with
   overflow"); after the fixes no call site can underflow (see ListVecProofs) *)
Definition P_USIZE_UNDERFLOW : N := 30.
Definition P_UNWRAP_NONE : N := 31.
Definition P_CAPACITY : N := 32.
Definition usub (a b : N) : M N := if a <? b then panic P_USIZE_UNDERFLOW else ret (a - b).

(* ------------------------------------------------------------ vcell helpers *)
Definition is_pair (v : vcell) : bool := match v with VPair _ _ => true | _ => false end.
Definition is_nil (v : vcell) : bool := match v with VNil => true | _ => false end.
Definition is_ptr (v : vcell) : bool := match v with VPtr _ => true | _ => false end.
(* VCell::as_car / as_cdr, vcell.rs:303-315: the address wrapped in a Ptr *)
Definition as_car (v : vcell) : M vcell :=
  match v with VPair a _ => ret (VPtr a) | _ => fail E_OTHER end.
Definition as_cdr (v : vcell) : M vcell :=
  match v with VPair _ d => ret (VPtr d) | _ => fail E_OTHER end.

(* Number::to_usize, number.rs:124-135 *)
Definition num_to_usize (n : num) : option N :=
  match n with
  | Fixnum z => if (0 <=? z)%Z then Some (Z.to_N z) else None
  | BigInt z => if ((0 <=? z) && (z <=? Z.of_N USIZE_MAX))%Z then Some (Z.to_N z) else None
  | Rational a b => if ((b =? 1) && (0 <=? a))%Z then Some (Z.to_N a) else None
  | Float _ => None
  end.

(* pop_index, builtin/mod.rs:139-153 *)
Definition pop_index : M N :=
  dom v <- pop_value;
  match v with
  | VNum n => match num_to_usize n with Some i => ret i | None => fail E_OTHER end
  | _ => fail E_OTHER
  end.

(* PartialEq for Number (number.rs:334-390) restricted to what eqv? needs after the
   exactness test of compare.rs; exact numbers compare by value.  (The number tower
   itself belongs to the numbers package; this is the part compare.rs reaches.) *)
Definition num_exact_eqb (a b : num) : bool :=
  match a, b with
  | Fixnum x, Fixnum y | Fixnum x, BigInt y | BigInt x, Fixnum y | BigInt x, BigInt y => (x =? y)%Z
  | Fixnum x, Rational n d | Rational n d, Fixnum x => (in_i32 x && (n =? x * d))%Z
  | BigInt x, Rational n d | Rational n d, BigInt x => (in_i32 x && (n =? x * d))%Z
  | Rational n d, Rational n' d' => (n * d' =? n' * d)%Z
  | _, _ => false
  end.
(* compare.rs:44-50 (after fix F17): flonums by bit pattern, mixed exactness never *)
Definition num_eqv (a b : num) : bool :=
  match a, b with
  | Float x, Float y => (f64_bits x =? f64_bits y)%Z
  | Float _, _ | _, Float _ => false
  | _, _ => num_exact_eqb a b
  end.

Section Builtins.
(* fuel of every loop that follows cdr chains or nested data *)
Variable fuel : nat.

(* the rendering of an error payload, `vm.heap.get_as_cell(&v)` inside an error
   constructor: the message is never compared, but the conversion can diverge on
   circular data *)
Definition fail_cell {A} (v : vcell) : M A :=
  dom _ <- as_cell builtin_name_default fuel v; fail E_OTHER.

(* ================================================================== list.rs *)
(* list.rs:19-25 *)
Definition car : M vcell :=
  dom _ <- pop_argc 1 (Some 1);
  dom v <- pop_value;
  match v with
  | VPair a _ => ret (VPtr a)
  | arg => fail_cell arg
  end.

(* list.rs:27-33 *)
Definition cdr : M vcell :=
  dom _ <- pop_argc 1 (Some 1);
  dom v <- pop_value;
  match v with
  | VPair _ d => ret (VPtr d)
  | arg => fail_cell arg
  end.

(* list.rs:35-40: heap.put of a Ptr is the Ptr itself, of an immediate a fresh cell.
   The result is a Pair BY VALUE; the caller (CALL, run.rs:149-156) puts it on the heap *)
Definition cons_ : M vcell :=
  dom _ <- pop_argc 2 (Some 2);
  dom a <- pop_raw; dom pd <- hput a; dom d <- as_ptr pd;
  dom b <- pop_raw; dom pa <- hput b; dom a' <- as_ptr pa;
  ret (VPair a' d).

(* list.rs:42-54 *)
Definition set_car : M vcell :=
  dom _ <- pop_argc 2 (Some 2);
  dom o <- pop_raw; dom obj <- hput o;
  dom pr <- pop_raw;
  dom pv <- hderef pr;
  match pv with
  | VPair _ d =>
      dom op <- as_ptr obj;
      dom pp <- as_ptr pr;
      dom _ <- hset pp (VPair op d);
      ret VVoid
  | _ => fail E_OTHER
  end.

(* list.rs:56-68 *)
Definition set_cdr : M vcell :=
  dom _ <- pop_argc 2 (Some 2);
  dom o <- pop_raw; dom obj <- hput o;
  dom pr <- pop_raw;
  dom pv <- hderef pr;
  match pv with
  | VPair a _ =>
      dom op <- as_ptr obj;
      dom pp <- as_ptr pr;
      dom _ <- hset pp (VPair a op);
      ret VVoid
  | _ => fail E_OTHER
  end.

(* clone_list, list.rs:79-116.  [list] is the dereferenced first cell.  All fresh
   pairs share one fresh cell holding Nil as their cdr until they are linked. *)
Fixpoint clone_loop (f : nat) (list rest head tail : vcell) (nilp : N) : M (vcell * vcell) :=
  match f with
  | O => nofuel
  | S f' =>
      dom ca <- as_car rest; dom cap <- as_ptr ca;
      dom pr <- hput (VPair cap nilp);
      let head' := if is_nil head then pr else head in
      dom tail' <-
        (if is_nil tail then ret pr
         else
           dom last_pair <- hderef tail;
           dom lca <- as_car last_pair; dom lcap <- as_ptr lca;
           dom pp <- as_ptr pr;
           dom tp <- as_ptr tail;
           dom _ <- hset tp (VPair lcap pp);
           ret pr);
      dom cd <- as_cdr rest;
      dom rest' <- hderef cd;
      if is_pair rest' then clone_loop f' list rest' head' tail' nilp
      else if is_nil rest' then ret (head', tail')
      else fail_cell list          (* "is an improper list" *)
  end.
Definition clone_list (list : vcell) : M (vcell * vcell) :=
  if negb (is_pair list) then fail_cell list
  else
    dom pn <- hput VNil; dom nilp <- as_ptr pn;
    clone_loop fuel list list VNil VNil nilp.

(* list.rs:118-143 *)
Fixpoint append_loop (n : nat) (tail : vcell) : M vcell :=
  match n with
  | O => ret tail
  | S k =>
      dom list <- pop_value;
      match list with
      | VNil => append_loop k tail
      | VPair _ _ =>
          dom (head, sub_tail) <- clone_list list;
          dom sub_pair <- hderef sub_tail;
          dom sca <- as_car sub_pair; dom scap <- as_ptr sca;
          dom tp <- as_ptr tail;
          dom stp <- as_ptr sub_tail;
          dom _ <- hset stp (VPair scap tp);
          append_loop k head
      | other => fail_cell other
      end
  end.
Definition append : M vcell :=
  dom argc <- pop_argc 0 None;
  if argc =? 0 then ret VNil
  else
    dom last <- pop_raw;
    dom tail <- hput last;
    dom n <- usub argc 1;
    append_loop (N.to_nat n) tail.

(* list.rs:145-174 *)
Fixpoint reverse_loop (f : nat) (list rest tail : vcell) : M vcell :=
  match f with
  | O => nofuel
  | S f' =>
      dom ca <- as_car rest; dom cap <- as_ptr ca;
      dom tp <- as_ptr tail;
      dom tail' <- hput (VPair cap tp);
      dom cd <- as_cdr rest;
      dom rest' <- hderef cd;
      if is_pair rest' then reverse_loop f' list rest' tail'
      else if is_nil rest' then ret tail'
      else fail_cell list
  end.
Definition reverse : M vcell :=
  dom _ <- pop_argc 1 (Some 1);
  dom list <- pop_value;
  if negb (is_pair list) then
    (if is_nil list then ret list else fail_cell list)
  else
    dom tail <- hput VNil;
    reverse_loop fuel list list tail.

(* get_list_tail, list.rs:180-198.  [list] is the value as popped (a pointer). *)
Fixpoint get_list_tail_loop (f : nat) (list rest : vcell) (rest_idx : N) : M vcell :=
  match f with
  | O => nofuel
  | S f' =>
      if rest_idx =? 0 then ret rest
      else
        dom ri <- usub rest_idx 1;
        dom node <- hderef rest;
        if (negb (is_pair node) && negb (ri =? 0)) || is_nil node then fail_cell list
        else
          dom cd <- as_cdr node;
          get_list_tail_loop f' list cd ri
  end.
Definition get_list_tail (list : vcell) (idx : N) : M vcell :=
  get_list_tail_loop fuel list list idx.

(* list.rs:200-217 *)
Definition list_ref : M vcell :=
  dom _ <- pop_argc 2 (Some 2);
  dom idx <- pop_index;
  dom list_ptr <- pop_raw;
  dom list <- hderef list_ptr;
  if negb (is_pair list) && negb (is_nil list) then fail_cell list
  else
    dom tail <- get_list_tail list_ptr idx;
    dom tv <- hderef tail;
    match tv with
    | VPair a _ => ret (VPtr a)
    | _ => fail_cell list
    end.

(* list.rs:219-227 *)
Definition list_tail : M vcell :=
  dom _ <- pop_argc 2 (Some 2);
  dom idx <- pop_index;
  dom list_ptr <- pop_raw;
  dom list <- hderef list_ptr;
  if negb (is_pair list) && negb (is_nil list) then fail_cell list
  else get_list_tail list_ptr idx.

(* ================================================== vector.rs (vm/vector.rs) *)
(* Vector::get: None out of range; Vector::put: silently ignores an index out of range *)
(* the range test first: [list_get] converts the index to nat *)
Definition vget (l : list vcell) (i : N) : option vcell := if i <? len l then list_get l i else None.
Definition vput (l : list vcell) (i : N) (v : vcell) : list vcell :=
  if i <? len l then list_set l i v else l.

Fixpoint drop {A} (n : nat) (l : list A) : list A :=
  match n, l with O, _ => l | S k, [] => [] | S k, _ :: r => drop k r end.
Fixpoint take {A} (n : nat) (l : list A) : list A :=
  match n, l with O, _ => [] | S k, [] => [] | S k, x :: r => x :: take k r end.

(* Vector::clone_vector, vm/vector.rs:42-54 (after the fix): [end] is inclusive,
   beyond the last element it means "to the end"; the slice &v[start..end] panics
   when start > end *)
Definition clone_vector (v : list vcell) (start end_ : option N) : M (list vcell) :=
  let start := match start with Some s => s | None => 0 end in
  let start := if len v <? start then len v else start in
  let e := match end_ with
           | Some e => if e <? len v then e + 1 else len v
           | None => len v
           end in
  if e <? start then panic 33        (* slice index starts after its end *)
  else ret (take (N.to_nat (e - start)) (drop (N.to_nat start) v)).

(* ======================================================== builtin/vector.rs *)
Fixpoint pop_n (n : nat) (acc : list vcell) : M (list vcell) :=
  match n with
  | O => ret acc
  | S k => dom v <- pop_raw; pop_n k (v :: acc)
  end.

(* vector.rs:21-28: the arguments as they are on the stack (pointers or immediates) *)
Definition vector : M vcell :=
  dom n <- pop_argc 0 None;
  dom l <- pop_n (N.to_nat n) [];
  vec_new l.

(* vector.rs:30-45.  vec![fill; len] aborts ("capacity overflow") for absurd sizes *)
Definition make_vector : M vcell :=
  dom argc <- pop_argc 1 (Some 2);
  dom fill <- (if argc =? 2 then pop_raw else ret (VNum (Fixnum 0)));
  dom lv <- pop_value;
  match lv with
  | VNum n =>
      match num_to_usize n with
      | Some k => if 0x3ffffffffffffff <? k then panic P_CAPACITY
                  else vec_new (repeat fill (N.to_nat k))
      | None => fail E_OTHER
      end
  | _ => fail E_OTHER
  end.

(* vector.rs:47-51 *)
Definition vector_length : M vcell :=
  dom _ <- pop_argc 1 (Some 1);
  dom vid <- pop_vector;
  dom l <- vec_get vid;
  ret (VNum (Fixnum (Z.of_N (len l)))).

(* vector.rs:53-61 *)
Definition vector_ref : M vcell :=
  dom _ <- pop_argc 2 (Some 2);
  dom idx <- pop_index;
  dom vid <- pop_vector;
  dom l <- vec_get vid;
  match vget l idx with
  | Some v => ret v
  | None => fail E_OTHER
  end.

(* vector.rs:63-73 (after fix F2: idx >= len) *)
Definition vector_set : M vcell :=
  dom _ <- pop_argc 3 (Some 3);
  dom value <- pop_raw;
  dom idx <- pop_index;
  dom vid <- pop_vector;
  dom l <- vec_get vid;
  if len l <=? idx then fail E_OTHER
  else dom _ <- vec_set vid (vput l idx value); ret VVoid.

(* vector.rs:75-83 (after fix F7: the value as popped, not dereferenced) *)
Definition vector_fill : M vcell :=
  dom _ <- pop_argc 2 (Some 2);
  dom value <- pop_raw;
  dom vid <- pop_vector;
  dom l <- vec_get vid;
  dom _ <- vec_set vid (map (fun _ => value) l);
  ret VVoid.

(* vector.rs:85-95: from the last element to the first *)
Fixpoint v2l_loop (rev_elems : list vcell) (tail : vcell) : M vcell :=
  match rev_elems with
  | [] => ret tail
  | x :: r =>
      dom ca <- hput x;
      dom cap <- as_ptr ca; dom tp <- as_ptr tail;
      dom tail' <- hput (VPair cap tp);
      v2l_loop r tail'
  end.
Definition vector_to_list : M vcell :=
  dom _ <- pop_argc 1 (Some 1);
  dom vid <- pop_vector;
  dom l <- vec_get vid;
  dom tail <- hput VNil;
  v2l_loop (rev l) tail.

(* vector.rs:97-115 (after fix F16: an improper tail is an error) *)
Fixpoint l2v_loop (f : nat) (lst : vcell) (acc : list vcell) : M (list vcell * vcell) :=
  match f with
  | O => nofuel
  | S f' =>
      if is_pair lst then
        dom ca <- as_car lst;
        dom cd <- as_cdr lst;
        dom lst' <- hderef cd;
        l2v_loop f' lst' (ca :: acc)
      else ret (rev acc, lst)
  end.
Definition list_to_vector : M vcell :=
  dom _ <- pop_argc 1 (Some 1);
  dom list <- pop_value;
  if negb (is_pair list) then
    (if is_nil list then vec_new [] else fail_cell list)
  else
    dom (outv, rest) <- l2v_loop fuel list [];
    if negb (is_nil rest) then fail E_OTHER
    else vec_new outv.

(* vector.rs:117-145 (after fix F2) *)
Definition vector_copy : M vcell :=
  dom argc <- pop_argc 1 (Some 3);
  dom end_ <- (if argc =? 3 then dom e <- pop_index; ret (Some e) else ret None);
  dom start <- (if 1 <? argc then dom s <- pop_index; ret (Some s) else ret None);
  dom vid <- pop_vector;
  dom l <- vec_get vid;
  let bad1 := match start with Some s => len l <? s | None => false end in
  let bad2 := match end_ with Some e => len l <? e | None => false end in
  let bad3 := match start, end_ with Some s, Some e => e <? s | _, _ => false end in
  if bad1 then fail E_OTHER
  else if bad2 then fail E_OTHER
  else if bad3 then fail E_OTHER
  else dom out <- clone_vector l start end_; vec_new out.

(* vector.rs:147-205 (after fixes F2, F8 and the overlap fix): (vector-copy! to at from start end) *)
Fixpoint put_all (l : list vcell) (at_ : N) (vals : list vcell) : list vcell :=
  match vals with
  | [] => l
  | v :: r => put_all (vput l at_ v) (at_ + 1) r
  end.
Fixpoint collect_range (l : list vcell) (i : N) (n : nat) : M (list vcell) :=
  match n with
  | O => ret []
  | S k => match vget l i with
           | Some v => dom r <- collect_range l (i + 1) k; ret (v :: r)
           | None => panic P_UNWRAP_NONE
           end
  end.
(* the part after the optional indices have been popped *)
Definition vmc_after (start end_ : option N) : M vcell :=
  dom from <- pop_vector;
  dom at_ <- pop_index;
  dom to <- pop_vector;
  dom tl <- vec_get to;
  dom fl <- vec_get from;
  if len tl <? at_ then fail E_OTHER
  else
  let bad1 := match start with Some s => len fl <? s | None => false end in
  let bad2 := match end_ with Some e => len fl <? e | None => false end in
  let bad3 := match start, end_ with Some s, Some e => e <? s | _, _ => false end in
  if bad1 then fail E_OTHER
  else if bad2 then fail E_OTHER
  else if bad3 then fail E_OTHER
  else
    let s := match start with Some s => s | None => 0 end in
    let e := match end_ with Some e => e | None => len fl end in
    dom n <- usub e s;
    if (len tl <? n) || (len tl <? at_ + n) then fail E_OTHER
    else
      dom vals <- collect_range fl s (N.to_nat n);
      (* the target is re-read: it may be the source *)
      dom tl' <- vec_get to;
      dom _ <- vec_set to (put_all tl' at_ vals);
      ret VVoid.
Definition vector_mut_copy : M vcell :=
  dom argc <- pop_argc 3 (Some 5);
  dom end_ <- (if argc =? 5 then dom e <- pop_index; ret (Some e) else ret None);
  dom start <- (if 4 <=? argc then dom s <- pop_index; ret (Some s) else ret None);
  vmc_after start end_.

(* ================================================================ compare.rs *)
Definition text_eqb' (a b : text) : bool := text_eqb a b.

(* Vm::eqv, compare.rs:26-58 *)
Definition eqv (lft rgt : vcell) : M bool :=
  let same_ptr := match lft, rgt with VPtr a, VPtr b => a =? b | _, _ => false end in
  if same_ptr then ret true
  else
    dom l <- hderef lft;
    dom r <- hderef rgt;
    match l, r with
    | VBool a, VBool b => ret (Bool.eqb a b)
    | VNum a, VNum b => ret (num_eqv a b)
    | VNil, VNil => ret true
    | VPair a d, VPair a' d' => ret ((a =? a') && (d =? d'))
    | VChar a, VChar b => ret (a =? b)
    | VStr a, VStr b => dom ta <- str_get a; dom tb <- str_get b; ret (text_eqb ta tb)
    | _, _ => ret false
    end.

(* the element loop of compare_vector (compare.rs:117-121): stops at the first difference *)
Fixpoint all2_m (p : vcell -> vcell -> M bool) (xs ys : list vcell) : M bool :=
  match xs, ys with
  | x :: xr, y :: yr => dom e <- p x y; if e then all2_m p xr yr else ret false
  | _, _ => ret true
  end.

(* Vm::equal / compare_pair / compare_vector, compare.rs:60-123 (after the fix of the
   final-cdr comparison).  The recursion follows the data: no termination on circular
   structures, hence the fuel. *)
Fixpoint equal (f : nat) (lft rgt : vcell) {struct f} : M bool :=
  match f with
  | O => nofuel
  | S f' =>
      dom e <- eqv lft rgt;
      if e then ret true
      else
        dom l <- hderef lft;
        dom r <- hderef rgt;
        match l, r with
        | VPair _ _, VPair _ _ => compare_pair f' l r
        | VVec a, VVec b =>
            dom la <- vec_get a; dom lb <- vec_get b;
            if negb (len la =? len lb) then ret false
            else all2_m (equal f') la lb
        | VStr a, VStr b => dom ta <- str_get a; dom tb <- str_get b; ret (text_eqb ta tb)
        | _, _ => eqv l r
        end
  end
with compare_pair (f : nat) (lft rgt : vcell) {struct f} : M bool :=
  match f with
  | O => nofuel
  | S f' =>
      if negb (is_pair lft) || negb (is_pair rgt) then eqv lft rgt
      else
        dom lcar <- as_car lft; dom rcar <- as_car rgt;
        dom e <- equal f' lcar rcar;
        if negb e then ret false
        else
          dom lcdr <- as_cdr lft; dom rcdr <- as_cdr rgt;
          dom l2 <- hderef lcdr;
          dom r2 <- hderef rcdr;
          if negb (is_pair l2) || negb (is_pair r2) then equal f' lcdr rcdr
          else compare_pair f' l2 r2
  end.

(* ============================================================== predicate.rs *)
Definition type_pred (p : vcell -> bool) : M vcell :=
  dom _ <- pop_argc 1 (Some 1);
  dom v <- pop_value;
  ret (VBool (p v)).

Definition is_boolean := type_pred (fun v => match v with VBool _ => true | _ => false end).
Definition is_char := type_pred (fun v => match v with VChar _ => true | _ => false end).
Definition is_null := type_pred is_nil.
Definition is_number := type_pred (fun v => match v with VNum _ => true | _ => false end).
Definition is_complex := is_number.     (* Number::is_complex = true *)
Definition is_real := is_number.
Definition is_rational :=
  type_pred (fun v => match v with VNum (Float _) => false | VNum _ => true | _ => false end).
Definition is_integer :=
  type_pred (fun v => match v with
                      | VNum (Fixnum _) | VNum (BigInt _) => true
                      | VNum (Rational _ d) => (d =? 1)%Z
                      | VNum (Float x) => match f64_cmp (f64_floor x) x with Some Eq => true | _ => false end
                      | _ => false end).
Definition is_pair_b := type_pred is_pair.
Definition is_procedure :=
  type_pred (fun v => match v with VLambda _ | VClosure _ _ | VBuiltin _ | VCont _ => true | _ => false end).
Definition is_string := type_pred (fun v => match v with VStr _ => true | _ => false end).
Definition is_symbol := type_pred (fun v => match v with VSym _ => true | _ => false end).
Definition is_vector := type_pred (fun v => match v with VVec _ => true | _ => false end).
(* predicate.rs:112-116: pops without dereferencing *)
Definition is_port : M vcell :=
  dom _ <- pop_argc 1 (Some 1); dom _ <- pop_raw; ret (VBool false).

(* predicate.rs:130-149: eq? and eqv? are the same function *)
Definition eq_b : M vcell :=
  dom _ <- pop_argc 2 (Some 2);
  dom lft <- pop_raw; dom rgt <- pop_raw;
  dom b <- eqv lft rgt; ret (VBool b).
Definition eqv_b : M vcell := eq_b.
Definition equal_b : M vcell :=
  dom _ <- pop_argc 2 (Some 2);
  dom lft <- pop_raw; dom rgt <- pop_raw;
  dom b <- equal fuel lft rgt; ret (VBool b).

(* predicate.rs:151-158 *)
Definition not_b : M vcell :=
  dom _ <- pop_argc 1 (Some 1);
  dom v <- pop_value;
  ret (VBool (match v with VBool b => negb b | _ => false end)).

(* predicate.rs:160-178 (after fix F11: a second cursor at half speed) *)
Definition pair_eqb (a b : vcell) : bool :=
  match a, b with VPair x y, VPair x' y' => (x =? x') && (y =? y') | _, _ => false end.
Fixpoint is_list_loop (f : nat) (rest slow : vcell) (advance : bool) : M vcell :=
  match f with
  | O => nofuel
  | S f' =>
      if negb (is_pair rest) then ret (VBool (is_nil rest))
      else
        dom cd <- as_cdr rest;
        dom rest' <- hderef cd;
        if advance then
          dom scd <- as_cdr slow;
          dom slow' <- hderef scd;
          if is_pair rest' && pair_eqb rest' slow' then ret (VBool false)
          else is_list_loop f' rest' slow' (negb advance)
        else is_list_loop f' rest' slow (negb advance)
  end.
Definition is_list : M vcell :=
  dom _ <- pop_argc 1 (Some 1);
  dom rest <- pop_value;
  is_list_loop fuel rest rest false.

(* ------------------------------------------- the CALL wrapper, run.rs:149-156 *)
(* `self.acc = match proc.eval(self)? { Ptr(p) => Ptr(p), v => self.heap.maybe_put(v) }` *)
Definition call_builtin (b : M vcell) : M vcell :=
  dom r <- b;
  match r with
  | VPtr p => ret (VPtr p)
  | v => hmaybe_put v
  end.

(* arguments are pushed left to right, then the argument count
   (compile.rs:530-560: PUSH %acc per argument, PUSH argc) *)
Fixpoint push_all (l : list vcell) : M unit :=
  match l with
  | [] => ret tt
  | v :: r => dom _ <- push v; push_all r
  end.
Definition apply_builtin (b : M vcell) (args : list vcell) : M vcell :=
  dom _ <- push_all args;
  dom _ <- push (VArgc (len args));
  call_builtin b.

End Builtins.
