(* NumArith.v — marwood/src/number.rs as written, over [num] (Model/Num.v):
   every arm of Add Sub Mul Div quotient Rem modulo abs floor ceil truncate round
   numerator denominator pow to_exact to_inexact is_integer PartialEq PartialOrd
   and the integer conversions; then the procedures of
   marwood/src/vm/builtin/number.rs at the value level (argument list -> result).
   BigInt (num-bigint) is Z; BigInt::to_f64 and `i64 as f64` are correct rounding
   (f64_of_Z); to_i32/to_i64/... are range checks.  libm (powf, sin, ...) is NOT
   modelled: the arms that call it return [Err E_LIBM].
   Executable definitions only.                                                  *)
From Coq Require Import ZArith List.
From MW Require Import Model.Base Model.F64 Model.F64More Model.Num Model.Ratio32.
Open Scope Z_scope.

Definition E_LIBM : N := 7.          (* result depends on an unmodelled libm function *)
Definition P_HASH : N := 206.
Definition P_BIGDIV0 : N := 207.     (* num-bigint: attempt to divide by zero *)

Definition to_i32 (z : Z) : option Z := if in_i32 z then Some z else None.
Definition to_i64 (z : Z) : option Z := if in_i64 z then Some z else None.
Definition r32 (r : ratio) : num := Rational (fst r) (snd r).
Definition of_i64 (z : Z) : f64 := f64_of_Z z.           (* `as f64`, i64::to_f64 *)
Definition of_big (z : Z) : f64 := f64_of_Z z.           (* BigInt::to_f64().unwrap() *)
Definition r_f64_or (dflt : f64) (r : ratio) : f64 :=
  match rto_f64 r with Some f => f | None => dflt end.
Definition r_f64_nan := r_f64_or f64_nan.
(* f64::MAX *)
Definition F64_MAX : f64 := f64_of_bits 0x7fefffffffffffff.
(* rhs.to_f64().unwrap() *)
Definition r_f64_unwrap (r : ratio) : out f64 :=
  match rto_f64 r with Some f => Ok f | None => Panic P_UNWRAP end.

Definition W32 := 32.
Definition W64 := 64.

(* From<u64> for Number, number.rs:1032-1040 *)
Definition of_u64 (z : Z) : num := if I64_MAX <? z then BigInt z else Fixnum z.

(* Option<Ratio> result of a checked op, else the float fallback *)
Definition or_float (o : out (option ratio)) (fallback : f64) : out num :=
  do r <- o; Ok (match r with Some q => r32 q | None => Float fallback end).

(* ---------------------------------------------------------------- Add 459-526 *)
Definition num_add p (a b : num) : out num :=
  match a, b with
  | Fixnum l, Fixnum r =>
      Ok (match ichecked_add W64 l r with Some z => Fixnum z | None => BigInt (l + r) end)
  | Fixnum l, BigInt r => Ok (BigInt (r + l))
  | Fixnum l, Float r => Ok (Float (f64_add (of_i64 l) r))
  | Fixnum l, Rational rn rd =>
      let fb := f64_add (of_i64 l) (r_f64_nan (rn, rd)) in
      if in_i32 l then or_float (rchecked_add p W32 (rfrom_integer l) (rn, rd)) fb
      else Ok (Float fb)
  | BigInt l, Fixnum r => Ok (BigInt (l + r))
  | BigInt l, BigInt r => Ok (BigInt (l + r))
  | BigInt l, Float r => Ok (Float (f64_add (of_big l) r))
  | BigInt l, Rational rn rd =>
      if ris_integer (rn, rd) then do i <- rto_integer W32 (rn, rd); Ok (BigInt (l + i))
      else Ok (Float (f64_add (of_big l) (r_f64_nan (rn, rd))))
  | Float l, Fixnum r => Ok (Float (f64_add l (of_i64 r)))
  | Float l, Float r => Ok (Float (f64_add l r))
  | Float l, BigInt r => Ok (Float (f64_add l (of_big r)))
  | Float l, Rational rn rd => Ok (Float (f64_add l (r_f64_nan (rn, rd))))
  | Rational ln ld, Fixnum r =>
      let fb := f64_add (r_f64_nan (ln, ld)) (of_i64 r) in
      if in_i32 r then or_float (rchecked_add p W32 (rfrom_integer r) (ln, ld)) fb
      else Ok (Float fb)
  | Rational ln ld, Float r => Ok (Float (f64_add (r_f64_nan (ln, ld)) r))
  | Rational ln ld, BigInt r =>
      if ris_integer (ln, ld) then do i <- rto_integer W32 (ln, ld); Ok (BigInt (r + i))
      else Ok (Float (f64_add (of_big r) (r_f64_nan (ln, ld))))
  | Rational ln ld, Rational rn rd =>
      or_float (rchecked_add p W32 (ln, ld) (rn, rd))
               (f64_add (r_f64_nan (ln, ld)) (r_f64_nan (rn, rd)))
  end.

(* ---------------------------------------------------------------- Mul 535-607 *)
Definition num_mul p (a b : num) : out num :=
  match a, b with
  | Fixnum l, Fixnum r =>
      Ok (match ichecked_mul W64 l r with Some z => Fixnum z | None => BigInt (l * r) end)
  | Fixnum l, BigInt r => Ok (BigInt (r * l))
  | Fixnum l, Float r => Ok (Float (f64_mul (of_i64 l) r))
  | Fixnum l, Rational rn rd =>
      let fb := f64_mul (of_i64 l) (r_f64_nan (rn, rd)) in
      if in_i32 l then or_float (rchecked_mul p W32 (rfrom_integer l) (rn, rd)) fb
      else Ok (Float fb)
  | BigInt l, Fixnum r => Ok (BigInt (l * r))
  | BigInt l, BigInt r => Ok (BigInt (l * r))
  | BigInt l, Float r => Ok (Float (f64_mul (of_big l) r))
  | BigInt l, Rational rn rd =>
      if ris_integer (rn, rd) then do i <- rto_integer W32 (rn, rd); Ok (BigInt (l * i))
      else Ok (Float (f64_mul (of_big l) (r_f64_nan (rn, rd))))
  | Float l, Fixnum r => Ok (Float (f64_mul l (of_i64 r)))
  | Float l, Float r => Ok (Float (f64_mul l r))
  | Float l, BigInt r => Ok (Float (f64_mul l (of_big r)))
  | Float l, Rational rn rd => Ok (Float (f64_mul l (r_f64_nan (rn, rd))))
  | Rational ln ld, Fixnum r =>
      let fb := f64_mul (r_f64_nan (ln, ld)) (of_i64 r) in
      if in_i32 r then or_float (rchecked_mul p W32 (rfrom_integer r) (ln, ld)) fb
      else Ok (Float fb)
  | Rational ln ld, Float r => Ok (Float (f64_mul (r_f64_nan (ln, ld)) r))
  | Rational ln ld, BigInt r =>
      if ris_integer (ln, ld) then do i <- rto_integer W32 (ln, ld); Ok (BigInt (r * i))
      else Ok (Float (f64_mul (of_big r) (r_f64_nan (ln, ld))))
  | Rational ln ld, Rational rn rd =>
      or_float (rchecked_mul p W32 (ln, ld) (rn, rd))
               (f64_mul (r_f64_nan (ln, ld)) (r_f64_nan (rn, rd)))
  end.

(* ---------------------------------------------------------------- Sub 616-688 *)
Definition num_sub p (a b : num) : out num :=
  match a, b with
  | Fixnum l, Fixnum r =>
      Ok (match ichecked_sub W64 l r with Some z => Fixnum z | None => BigInt (l - r) end)
  | Fixnum l, BigInt r => Ok (BigInt (l - r))
  | Fixnum l, Float r => Ok (Float (f64_sub (of_i64 l) r))
  | Fixnum l, Rational rn rd =>
      let fb := f64_sub (of_i64 l) (r_f64_nan (rn, rd)) in
      if in_i32 l then or_float (rchecked_sub p W32 (rfrom_integer l) (rn, rd)) fb
      else Ok (Float fb)
  | BigInt l, Fixnum r => Ok (BigInt (l - r))
  | BigInt l, BigInt r => Ok (BigInt (l - r))
  | BigInt l, Float r => Ok (Float (f64_sub (of_big l) r))
  | BigInt l, Rational rn rd =>
      if ris_integer (rn, rd) then do i <- rto_integer W32 (rn, rd); Ok (BigInt (l - i))
      else Ok (Float (f64_sub (of_big l) (r_f64_nan (rn, rd))))
  | Float l, Fixnum r => Ok (Float (f64_sub l (of_i64 r)))
  | Float l, Float r => Ok (Float (f64_sub l r))
  | Float l, BigInt r => Ok (Float (f64_sub l (of_big r)))
  | Float l, Rational rn rd => Ok (Float (f64_sub l (r_f64_nan (rn, rd))))
  | Rational ln ld, Fixnum r =>
      let fb := f64_sub (r_f64_nan (ln, ld)) (of_i64 r) in
      if in_i32 r then or_float (rchecked_sub p W32 (ln, ld) (rfrom_integer r)) fb
      else Ok (Float fb)
  | Rational ln ld, Float r => Ok (Float (f64_sub (r_f64_nan (ln, ld)) r))
  | Rational ln ld, BigInt r =>
      if ris_integer (ln, ld) then do i <- rto_integer W32 (ln, ld); Ok (BigInt (i - r))
      else Ok (Float (f64_sub (r_f64_nan (ln, ld)) (of_big r)))
  | Rational ln ld, Rational rn rd =>
      or_float (rchecked_sub p W32 (ln, ld) (rn, rd))
               (f64_sub (r_f64_nan (ln, ld)) (r_f64_nan (rn, rd)))
  end.

(* ---------------------------------------------------------------- Div 697-792 *)
(* Rational32::new(l as i32, r as i32).into() *)
Definition ratio_of_ints p (l r : Z) : out num := do q <- rnew p W32 l r; Ok (r32 q).
Definition num_div p (a b : num) : out num :=
  match a, b with
  | Fixnum l, Fixnum r =>
      if in_i32 l && in_i32 r then ratio_of_ints p l r
      else Ok (Float (f64_div (of_i64 l) (of_i64 r)))
  | Fixnum l, BigInt r =>
      if in_i32 l && in_i32 r then ratio_of_ints p l r
      else Ok (Float (f64_div (of_i64 l) (of_big r)))
  | Fixnum l, Float r => Ok (Float (f64_div (of_i64 l) r))
  | Fixnum l, Rational rn rd =>
      let fb := f64_div (of_i64 l) (r_f64_nan (rn, rd)) in
      if in_i32 l then or_float (rchecked_div p W32 (rfrom_integer l) (rn, rd)) fb
      else Ok (Float fb)
  | BigInt l, Fixnum r =>
      if in_i32 l && in_i32 r then ratio_of_ints p l r
      else Ok (Float (f64_div (of_big l) (of_i64 r)))
  | BigInt l, BigInt r =>
      if in_i32 l && in_i32 r then ratio_of_ints p l r
      else Ok (Float (f64_div (of_big l) (of_big r)))
  | BigInt l, Float r => Ok (Float (f64_div (of_big l) r))
  | BigInt l, Rational rn rd =>
      let fb := f64_div (of_big l) (r_f64_nan (rn, rd)) in
      if in_i32 l then or_float (rchecked_div p W32 (rfrom_integer l) (rn, rd)) fb
      else Ok (Float fb)
  | Float l, Fixnum r => Ok (Float (f64_div l (of_i64 r)))
  | Float l, Float r => Ok (Float (f64_div l r))
  | Float l, BigInt r => Ok (Float (f64_div l (of_big r)))
  | Float l, Rational rn rd => Ok (Float (f64_div l (r_f64_nan (rn, rd))))
  | Rational ln ld, Fixnum r =>
      let fb := f64_div (r_f64_or F64_MAX (ln, ld)) (of_i64 r) in
      if in_i32 r then or_float (rchecked_div p W32 (ln, ld) (rfrom_integer r)) fb
      else Ok (Float fb)
  | Rational ln ld, Float r => Ok (Float (f64_div (r_f64_nan (ln, ld)) r))
  | Rational ln ld, BigInt r =>
      let fb := f64_div (r_f64_or F64_MAX (ln, ld)) (of_big r) in
      if in_i32 r then or_float (rchecked_div p W32 (ln, ld) (rfrom_integer r)) fb
      else Ok (Float fb)
  | Rational ln ld, Rational rn rd =>
      or_float (rchecked_div p W32 (ln, ld) (rn, rd))
               (f64_div (r_f64_nan (ln, ld)) (r_f64_nan (rn, rd)))
  end.

(* BigInt / and % (num-bigint: truncating, panics on a zero divisor) *)
Definition big_div (a b : Z) : out Z := if b =? 0 then Panic P_BIGDIV0 else Ok (Z.quot a b).
Definition big_rem (a b : Z) : out Z := if b =? 0 then Panic P_BIGDIV0 else Ok (Z.rem a b).

(* Option<Number> results: Ok None is the Rust None *)
Definition some_fix (o : out Z) : out (option num) := do z <- o; Ok (Some (Fixnum z)).
Definition some_big (o : out Z) : out (option num) := do z <- o; Ok (Some (BigInt z)).

(* after the fix of F12: lhs.checked_div(rhs) with a BigInt fallback (which still
   panics on a zero divisor), and lhs.wrapping_rem(rhs) *)
Definition fix_quot (l r : Z) : out (option num) :=
  if (r =? 0) || ((l =? I64_MIN) && (r =? -1)) then some_big (big_div l r)
  else Ok (Some (Fixnum (Z.quot l r))).
Definition fix_wrapping_rem (l r : Z) : out Z :=
  if r =? 0 then Panic P_DIV0 else Ok (Z.rem l r).

(* ------------------------------------------------------------ quotient 795-852 *)
Definition num_quotient p (a b : num) : out (option num) :=
  match a, b with
  | Fixnum l, Fixnum r => fix_quot l r
  | Fixnum l, BigInt r => some_big (big_div l r)
  | Fixnum l, Float r => Ok (Some (Float (f64_trunc (f64_div (of_i64 l) r))))
  | Fixnum l, Rational rn rd =>
      if ris_integer (rn, rd) then do i <- rto_integer W32 (rn, rd); fix_quot l i
      else Ok None
  | BigInt l, Fixnum r => some_big (big_div l r)
  | BigInt l, BigInt r => some_big (big_div l r)
  | BigInt l, Float r => Ok (Some (Float (f64_trunc (f64_div (of_big l) r))))
  | BigInt l, Rational rn rd =>
      if ris_integer (rn, rd) then do i <- rto_integer W32 (rn, rd); some_big (big_div l i)
      else Ok None
  | Float l, Fixnum r => Ok (Some (Float (f64_div l (of_i64 r))))
  | Float l, Float r => Ok (Some (Float (f64_trunc (f64_div l r))))
  | Float l, BigInt r => Ok None
  | Float l, Rational rn rd =>
      Ok (match rto_f64 (rn, rd) with Some r => Some (Float (f64_div l r)) | None => None end)
  | Rational ln ld, _ =>
      if ris_integer (ln, ld) then
        match b with
        | Fixnum r => do i <- rto_integer W32 (ln, ld); some_fix (idiv W64 i r)
        | Float r =>
            Ok (match rto_f64 (ln, ld) with
                | Some l => Some (Float (f64_trunc (f64_div l r))) | None => None end)
        | BigInt r => do i <- rto_integer W32 (ln, ld); some_big (big_div i r)
        | Rational rn rd =>
            if ris_integer (rn, rd) then
              do q <- rdiv p W32 (ln, ld) (rn, rd); do t <- rtrunc W32 q; Ok (Some (r32 t))
            else Ok None
        end
      else Ok None
  end.

(* ----------------------------------------------------------------- Rem 862-920 *)
Definition num_rem p (a b : num) : out (option num) :=
  match a, b with
  | Fixnum l, Fixnum r => some_fix (fix_wrapping_rem l r)
  | Fixnum l, BigInt r => some_big (big_rem l r)
  | Fixnum l, Float r => Ok (Some (Float (f64_rem (of_i64 l) r)))
  | Fixnum l, Rational rn rd =>
      (* Rational64::from_integer(l) % Rational64::from((n as i64, d as i64)) *)
      do rhs <- rnew p W64 rn rd;
      do res <- rrem p W64 (rfrom_integer l) rhs;
      do q <- rnew p W32 (wrap 32 (fst res)) (wrap 32 (snd res));
      Ok (Some (r32 q))
  | BigInt l, Fixnum r => some_big (big_rem l r)
  | BigInt l, BigInt r => some_big (big_rem l r)
  | BigInt l, Float r => Ok None
  | BigInt l, Rational rn rd =>
      if ris_integer (rn, rd) then do i <- rto_integer W32 (rn, rd); some_big (big_rem l i)
      else
        do m <- big_rem (l * rd) rn;
        match to_i32 m with
        | None => Panic P_UNWRAP
        | Some m32 => do q <- rnew p W32 m32 rd; Ok (Some (r32 q))
        end
  | Float l, Fixnum r => Ok (Some (Float (f64_rem l (of_i64 r))))
  | Float l, Float r => Ok (Some (Float (f64_rem l r)))
  | Float l, BigInt r => Ok (Some (Float (f64_rem l (of_big r))))
  | Float l, Rational rn rd =>
      Ok (match rto_f64 (rn, rd) with Some r => Some (Float (f64_rem l r)) | None => None end)
  | Rational ln ld, Fixnum r => do i <- rto_integer W32 (ln, ld); some_fix (irem W64 i r)
  | Rational ln ld, Float r =>
      Ok (match rto_f64 (ln, ld) with Some l => Some (Float (f64_rem l r)) | None => None end)
  | Rational ln ld, BigInt r => do i <- rto_integer W32 (ln, ld); some_big (big_rem i r)
  | Rational ln ld, Rational rn rd =>
      do q <- rrem p W32 (ln, ld) (rn, rd); Ok (Some (r32 q))
  end.

(* modulo 271-276 *)
Definition num_modulo p (a b : num) : out (option num) :=
  do r <- num_rem p a b;
  match r with
  | Some n => do s <- num_add p n b; num_rem p s b
  | None => Ok None
  end.

(* --------------------------------------------------- PartialEq 333-387 *)
Definition num_eq p (a b : num) : out bool :=
  match a, b with
  | Fixnum l, Fixnum r => Ok (l =? r)
  | Fixnum l, BigInt r => Ok (l =? r)
  | Fixnum l, Float r => Ok (f64_eqb (of_i64 l) r)
  | Fixnum l, Rational rn rd =>
      if in_i32 l then req p W32 (rfrom_integer l) (rn, rd) else Ok false
  | BigInt l, Fixnum r => Ok (l =? r)
  | BigInt l, BigInt r => Ok (l =? r)
  | BigInt l, Float r => Ok (f64_eqb (of_big l) r)
  | BigInt l, Rational rn rd =>
      if in_i32 l then req p W32 (rfrom_integer l) (rn, rd) else Ok false
  | Float l, Fixnum r => Ok (f64_eqb l (of_i64 r))
  | Float l, Float r => Ok (f64_eqb l r)
  | Float l, BigInt r => Ok (f64_eqb l (of_big r))
  | Float l, Rational rn rd =>
      Ok (match rto_f64 (rn, rd) with Some r => f64_eqb l r | None => false end)
  | Rational ln ld, Fixnum r =>
      if in_i32 r then req p W32 (rfrom_integer r) (ln, ld) else Ok false
  | Rational ln ld, Float r =>
      Ok (match rto_f64 (ln, ld) with Some l => f64_eqb l r | None => false end)
  | Rational ln ld, BigInt r =>
      if in_i32 r then req p W32 (ln, ld) (rfrom_integer r) else Ok false
  | Rational ln ld, Rational rn rd => req p W32 (ln, ld) (rn, rd)
  end.

(* --------------------------------------------------- PartialOrd 389-436
   with the fix of F9: an integer outside i32 against a rational is ordered by
   its sign (a reduced Rational32 lies strictly inside (i32::MIN-1, i32::MAX+1)) *)
Definition some_cmp (o : out comparison) : out (option comparison) := do c <- o; Ok (Some c).
Definition num_partial_cmp p (a b : num) : out (option comparison) :=
  match a, b with
  | Fixnum l, Fixnum r => Ok (Some (l ?= r))
  | Fixnum l, BigInt r => Ok (Some (l ?= r))
  | Fixnum l, Float r => Ok (f64_cmp (of_i64 l) r)
  | Fixnum l, Rational rn rd =>
      if in_i32 l then some_cmp (rcmp p W32 (rfrom_integer l) (rn, rd))
      else Ok (Some (if 0 <? l then Gt else Lt))
  | BigInt l, Fixnum r => Ok (Some (l ?= r))
  | BigInt l, BigInt r => Ok (Some (l ?= r))
  | BigInt l, Float r => Ok (f64_cmp (of_big l) r)
  | BigInt l, Rational rn rd =>
      if in_i32 l then some_cmp (rcmp p W32 (rfrom_integer l) (rn, rd))
      else Ok (Some (if 0 <? l then Gt else Lt))
  | Float l, Fixnum r => Ok (f64_cmp l (of_i64 r))
  | Float l, Float r => Ok (f64_cmp l r)
  | Float l, BigInt r => Ok (f64_cmp l (of_big r))
  | Float l, Rational rn rd => do r <- r_f64_unwrap (rn, rd); Ok (f64_cmp l r)
  | Rational ln ld, Fixnum r =>
      if in_i32 r then some_cmp (rcmp p W32 (ln, ld) (rfrom_integer r))
      else Ok (Some (if 0 <? r then Lt else Gt))
  | Rational ln ld, Float r => do l <- r_f64_unwrap (ln, ld); Ok (f64_cmp l r)
  | Rational ln ld, BigInt r =>
      if in_i32 r then some_cmp (rcmp p W32 (ln, ld) (rfrom_integer r))
      else Ok (Some (if 0 <? r then Lt else Gt))
  | Rational ln ld, Rational rn rd => some_cmp (rcmp p W32 (ln, ld) (rn, rd))
  end.
(* the provided methods of PartialOrd (core::cmp): lt le gt ge from partial_cmp *)
Definition num_lt p a b : out bool :=
  do c <- num_partial_cmp p a b; Ok (match c with Some Lt => true | _ => false end).
Definition num_le p a b : out bool :=
  do c <- num_partial_cmp p a b; Ok (match c with Some Lt | Some Eq => true | _ => false end).
Definition num_gt p a b : out bool :=
  do c <- num_partial_cmp p a b; Ok (match c with Some Gt => true | _ => false end).
Definition num_ge p a b : out bool :=
  do c <- num_partial_cmp p a b; Ok (match c with Some Gt | Some Eq => true | _ => false end).

(* ------------------------------------------------------------ unary, 126-330 *)
Definition num_is_integer (a : num) : bool :=
  match a with
  | Fixnum _ | BigInt _ => true
  | Float f => f64_eqb (f64_floor f) f
  | Rational n d => ris_integer (n, d)
  end.
Definition num_is_zero p (a : num) : out bool := num_eq p a (Fixnum 0).

Definition num_to_inexact (a : num) : out (option num) :=
  match a with
  | Fixnum z => Ok (Some (Float (of_i64 z)))
  | Float f => Ok (Some (Float f))
  | BigInt z => Ok (Some (Float (of_big z)))
  | Rational n d => do f <- r_f64_unwrap (n, d); Ok (Some (Float f))
  end.

Definition I128_MIN := - 2 ^ 127.
Definition I128_MAX := 2 ^ 127 - 1.
Definition num_to_exact p (a : num) : out (option num) :=
  match a with
  | Float f =>
      if num_is_integer a then
        match f64_to_int I64_MIN I64_MAX f with
        | Some i => Ok (Some (Fixnum i))
        | None => Ok (match f64_to_int I128_MIN I128_MAX f with
                      | Some i => Some (BigInt i) | None => None end)
        end
      else
        do r <- ratio32_from_f64 p f;
        Ok (Some (match r with Some q => r32 q | None => Float f end))
  | _ => Ok (Some a)
  end.

Definition num_numerator (a : num) : num :=
  match a with
  | Fixnum _ | BigInt _ => a
  | Float f => match f64_to_frac f with Some (n, _) => BigInt n | None => a end
  | Rational n _ => Fixnum n
  end.
Definition num_denominator (a : num) : num :=
  match a with
  | Fixnum _ | BigInt _ => Fixnum 1
  | Float f => match f64_to_frac f with Some (_, d) => BigInt d | None => a end
  | Rational _ d => Fixnum d
  end.

Definition num_abs p (a : num) : out num :=
  match a with
  | Fixnum z => Ok (of_u64 (Z.abs z))          (* unsigned_abs().into() *)
  | Float f => Ok (Float (f64_abs f))
  | BigInt z => Ok (BigInt (Z.abs z))
  | Rational n d => do q <- rabs p W32 (n, d); Ok (r32 q)
  end.

Definition num_round p (a : num) : out num :=
  match a with
  | Fixnum _ | BigInt _ => Ok a
  | Float f => Ok (Float (f64_round f))
  | Rational n d => do q <- rround p W32 (n, d); Ok (r32 q)
  end.
Definition num_floor p (a : num) : out num :=
  match a with
  | Fixnum _ | BigInt _ => Ok a
  | Float f => Ok (Float (f64_floor f))
  | Rational n d => do q <- rfloor p W32 (n, d); Ok (r32 q)
  end.
Definition num_ceil p (a : num) : out num :=
  match a with
  | Fixnum _ | BigInt _ => Ok a
  | Float f => Ok (Float (f64_ceil f))
  | Rational n d => do q <- rceil p W32 (n, d); Ok (r32 q)
  end.
Definition num_truncate (a : num) : out num :=
  match a with
  | Fixnum _ | BigInt _ => Ok a
  | Float f => Ok (Float (f64_trunc f))
  | Rational n d => do q <- rtrunc W32 (n, d); Ok (r32 q)
  end.

(* pow 311-329; exp is a u32 *)
Definition num_pow p (a : num) (exp : Z) : out num :=
  match a with
  | Fixnum z => Ok (match ichecked_pow W64 z exp with Some r => Fixnum r | None => BigInt (z ^ exp) end)
  | Float _ => Err E_LIBM
  | BigInt z => Ok (BigInt (z ^ exp))
  | Rational n d =>
      if in_i32 exp then do q <- rpow p W32 (n, d) exp; Ok (r32 q)
      else Err E_LIBM
  end.

(* integer conversions 126-175 *)
Definition USIZE_MAX := U64_MAX.
Definition U32_MAX := 2 ^ 32 - 1.
Definition range_opt (lo hi z : Z) : option Z := if (lo <=? z) && (z <=? hi) then Some z else None.
Definition num_to_usize (a : num) : out (option Z) :=
  match a with
  | Fixnum z => Ok (if 0 <=? z then range_opt 0 USIZE_MAX z else None)
  | BigInt z => Ok (range_opt 0 USIZE_MAX z)
  | Rational n d =>
      if ris_integer (n, d) then do i <- rto_integer W32 (n, d); Ok (range_opt 0 USIZE_MAX i) else Ok None
  | Float _ => Ok None
  end.
Definition num_to_i64 (a : num) : out (option Z) :=
  match a with
  | Fixnum z => Ok (Some z)
  | BigInt z => Ok (to_i64 z)
  | Rational n d =>
      if ris_integer (n, d) then do i <- rto_integer W32 (n, d); Ok (Some i) else Ok None
  | Float f => Ok (if num_is_integer a then f64_to_int I64_MIN I64_MAX f else None)
  end.
Definition num_to_u64 (a : num) : out (option Z) :=
  match a with
  | Fixnum z => Ok (if 0 <=? z then Some z else None)
  | BigInt z => Ok (range_opt 0 U64_MAX z)
  | Rational n d =>
      if ris_integer (n, d) then do i <- rto_integer W32 (n, d); Ok (range_opt 0 U64_MAX i) else Ok None
  | Float f => Ok (if num_is_integer a then f64_to_int 0 U64_MAX f else None)
  end.
Definition num_to_u32 (a : num) : out (option Z) :=
  match a with
  | Fixnum z => Ok (range_opt 0 U32_MAX z)
  | BigInt z => Ok (range_opt 0 U32_MAX z)
  | Rational n d =>
      if ris_integer (n, d) then do i <- rto_integer W32 (n, d); Ok (range_opt 0 U32_MAX i) else Ok None
  | Float f => Ok (if num_is_integer a then f64_to_int 0 U32_MAX f else None)
  end.
Definition num_to_f64 (a : num) : option f64 :=
  match a with
  | Fixnum z => Some (of_i64 z)
  | BigInt z => Some (of_big z)
  | Rational n d => rto_f64 (n, d)
  | Float f => Some f
  end.

(* ==================================================== builtin/number.rs ======= *)
(* an argument: a number or some other object; a result: a number or a boolean *)
Inductive arg := ANum (n : num) | AOther.
Inductive res := RNum (n : num) | RBool (b : bool).

Definition err {A} : out A := Err E_OTHER.

(* pop_argc (builtin/mod.rs:68-75) *)
Definition argc_ok (n : nat) (lo : nat) (hi : option nat) : bool :=
  (lo <=? n)%nat && match hi with Some h => (n <=? h)%nat | None => true end.

(* pop_number / pop_integer (mod.rs:81-97) *)
Definition pop_number (a : arg) : out num := match a with ANum n => Ok n | AOther => err end.
Definition pop_integer (a : arg) : out num :=
  do n <- pop_number a; if num_is_integer n then Ok n else err.

(* The arguments were pushed left to right: the procedures pop the LAST one first. *)

(* num_comp 74-103: y = last argument; then right to left *)
Inductive cmpop := CEq | CLt | CGt | CLe | CGe.
Definition apply_cmp (o : cmpop) p (x y : num) : out bool :=
  match o with
  | CEq => num_eq p x y | CLt => num_lt p x y | CGt => num_gt p x y
  | CLe => num_le p x y | CGe => num_ge p x y
  end.
Fixpoint num_comp_loop (o : cmpop) p (rest : list arg) (y : num) (result : bool) : out bool :=
  match rest with
  | [] => Ok result
  | ANum x :: r =>
      do c <- apply_cmp o p x y;
      if (c : bool) then num_comp_loop o p r x result else num_comp_loop o p r y false
  | AOther :: r => num_comp_loop o p r y false
  end.
Definition b_num_comp (o : cmpop) p (args : list arg) : out res :=
  match rev args with
  | [] => err
  | ANum y :: r => do b <- num_comp_loop o p r y true; Ok (RBool b)
  | AOther :: r => do b <- num_comp_loop o p r (Fixnum 0) false; Ok (RBool b)
  end.

(* num_unary_predicate 131-142 and its five users 105-129 *)
Inductive upred := PZero | PPositive | PNegative | POdd | PEven.
Definition opt_num_eq p (a b : option num) : out bool :=   (* derived PartialEq of Option<Number> *)
  match a, b with
  | Some x, Some y => num_eq p x y
  | None, None => Ok true
  | _, _ => Ok false
  end.
Definition b_upred (u : upred) p (args : list arg) : out res :=
  match args with
  | [a] =>
      match a with
      | AOther => Ok (RBool false)
      | ANum x =>
          do b <- match u with
                  | PZero => num_eq p x (Fixnum 0)
                  | PPositive => num_gt p x (Fixnum 0)
                  | PNegative => num_lt p x (Fixnum 0)
                  | POdd => do r <- num_rem p x (Fixnum 2);
                            do e <- opt_num_eq p r (Some (Fixnum 0)); Ok (negb e)
                  | PEven => do r <- num_rem p x (Fixnum 2); opt_num_eq p r (Some (Fixnum 0))
                  end;
          Ok (RBool b)
      end
  | _ => err
  end.

(* plus 144-159, multiply 192-207: fold from the last argument to the first *)
Fixpoint fold_args (f : num -> num -> out num) (acc : num) (rest : list arg) : out num :=
  match rest with
  | [] => Ok acc
  | ANum n :: r => do acc' <- f acc n; fold_args f acc' r
  | AOther :: _ => err
  end.
Definition b_plus p (args : list arg) : out res :=
  do s <- fold_args (num_add p) (Fixnum 0) (rev args); Ok (RNum s).
Definition b_multiply p (args : list arg) : out res :=
  do s <- fold_args (num_mul p) (Fixnum 1) (rev args); Ok (RNum s).

(* minus 161-190 *)
Definition b_minus p (args : list arg) : out res :=
  match args with
  | [] => err
  | first :: others =>
      do s <- fold_args (num_add p) (Fixnum 0) (rev others);
      do r <- match first with ANum n => num_sub p n s | AOther => Ok s end;
      do r' <- match others with [] => num_mul p r (Fixnum (-1)) | _ => Ok r end;
      Ok (RNum r')
  end.

(* divide 209-226 *)
Definition b_divide p (args : list arg) : out res :=
  match args with
  | [ya] =>
      do y <- pop_number ya;
      do z <- num_is_zero p y;
      if (z : bool) then err else do r <- num_div p (Fixnum 1) y; Ok (RNum r)
  | [xa; ya] =>
      do y <- pop_number ya;
      do z <- num_is_zero p y;
      if (z : bool) then err
      else do x <- pop_number xa; do r <- num_div p x y; Ok (RNum r)
  | _ => err
  end.

(* remainder / modulo / quotient 228-286 *)
Inductive idivop := IQuotient | IRemainder | IModulo.
Definition b_intdiv (o : idivop) p (args : list arg) : out res :=
  match args with
  | [xa; ya] =>
      do y <- pop_integer ya;
      do x <- pop_integer xa;
      do z <- num_is_zero p y;
      if (z : bool) then err
      else
        do r <- match o with
                | IQuotient => num_quotient p x y
                | IRemainder => num_rem p x y
                | IModulo => num_modulo p x y
                end;
        match r with Some n => Ok (RNum n) | None => err end
  | _ => err
  end.

(* expt 349-362 *)
Definition b_expt p (args : list arg) : out res :=
  match args with
  | [xa; ea] =>
      do e <- pop_integer ea;
      do x <- pop_number xa;
      do e32 <- num_to_u32 e;
      match e32 with
      | None => err
      | Some k => do r <- num_pow p x k; Ok (RNum r)
      end
  | _ => err
  end.

(* the one-argument procedures 364-438 *)
Inductive unop := UAbs | UFloor | UCeiling | UTruncate | URound | UNumerator | UDenominator
                | UExactInexact | UInexactExact.
Definition b_unary (u : unop) p (args : list arg) : out res :=
  match args with
  | [a] =>
      do x <- pop_number a;
      do r <- match u with
              | UAbs => num_abs p x
              | UFloor => num_floor p x
              | UCeiling => num_ceil p x
              | UTruncate => num_truncate x
              | URound => num_round p x
              | UNumerator => Ok (num_numerator x)
              | UDenominator => Ok (num_denominator x)
              | UExactInexact => do o <- num_to_inexact x; Ok (match o with Some n => n | None => x end)
              | UInexactExact => do o <- num_to_exact p x; Ok (match o with Some n => n | None => x end)
              end;
      Ok (RNum r)
  | _ => err
  end.

(* min / max 440-464: result = last argument, then right to left *)
Fixpoint minmax_loop (is_max : bool) p (rest : list arg) (result : num) : out num :=
  match rest with
  | [] => Ok result
  | a :: r =>
      do n <- pop_number a;
      do c <- (if is_max then num_gt p n result else num_lt p n result);
      minmax_loop is_max p r (if (c : bool) then n else result)
  end.
Definition b_minmax (is_max : bool) p (args : list arg) : out res :=
  match rev args with
  | a :: (_ :: _) as r => do first <- pop_number a; do m <- minmax_loop is_max p r first; Ok (RNum m)
  | _ => err
  end.
