(* NumSpec.v — the mathematical reading of a model number: exactness, the value
   in Q of an exact number, well-formedness (DESIGN 5 C08: i64 range; Ratio<i32>
   reduced with positive denominator; a BigInt may carry a small value).
   Executable/boolean definitions only.                                         *)
From Coq Require Import ZArith QArith.
From MW Require Import Model.Base Model.F64 Model.Num Model.Ratio32.
Open Scope Z_scope.

Definition is_exact (x : num) : bool := match x with Float _ => false | _ => true end.

(* ⟦x⟧ for exact x *)
Definition qv (x : num) : Q :=
  match x with
  | Fixnum z | BigInt z => inject_Z z
  | Rational n d => n # Z.to_pos d
  | Float _ => 0
  end.

Definition rwfb (n d : Z) : bool :=
  in_i32 n && in_i32 d && (0 <? d) && (Z.gcd n d =? 1).
Definition wfb (x : num) : bool :=
  match x with
  | Fixnum z => in_i64 z
  | BigInt _ => true
  | Rational n d => rwfb n d
  | Float _ => true
  end.

(* an exact integer *)
Definition int_of (x : num) : option Z :=
  match x with
  | Fixnum z | BigInt z => Some z
  | Rational n d => if d =? 1 then Some n else None
  | Float _ => None
  end.
