(* Str.v — marwood/src/vm/builtin/string.rs and builtin/char.rs as written (tree with
   the fix: commits 86060cc "string index errors ... no longer underflow", aaefa9e
   "substring range helper validates ..." and the zero-argument fix of `string` /
   `string-append`), plus the index poppers of builtin/mod.rs and the conversions of
   number.rs they use.  Definitions only.

   A Rust String is UTF-8; the model keeps the list of code points ([text]) and
   computes every byte offset the Rust computes with [utf8_len], so that a slice or a
   replace_range that would fall inside a character or beyond the end is an explicit
   [Panic].  Unicode classification and case mapping are the oracle tables of
   Gen/CaseTables.v (dumped from the std the harness is built with).                 *)
From Coq Require Import String.
From MW Require Import Model.Base Model.F64 Model.Num Model.Datum Model.TransformDef
  Model.VmTypes Model.Heap Model.VmBase Gen.CaseTables.
Open Scope N_scope.

(* panic sites of this file *)
Definition P_SLICE : N := 150.        (* &s[a..b] off a boundary / out of range / a > b *)
Definition P_REPLACE : N := 151.      (* String::replace_range, same conditions *)
Definition P_USIZE_SUB : N := 152.    (* usize subtraction below zero (debug build; wraps in release) *)
Definition P_UNWRAP : N := 153.       (* Option::unwrap on None *)

(* ===================================================== number.rs conversions *)
(* Number::is_integer, number.rs:182-189 *)
Definition num_is_integer (n : num) : bool :=
  match n with
  | Fixnum _ | BigInt _ => true
  | Float f => f64_eqb (f64_floor f) f
  | Rational _ d => (d =? 1)%Z            (* Ratio::is_integer: denom == 1 *)
  end.

(* Number::to_usize, number.rs:124-135 (64-bit usize).  Ratio::to_usize goes through
   to_integer().to_u64(): the (i32) numerator when it is not negative. *)
Definition num_to_usize (n : num) : option N :=
  match n with
  | Fixnum z => if (0 <=? z)%Z then Some (Z.to_N z) else None
  | BigInt z => if (0 <=? z)%Z && (z <=? Z.of_N USIZE_MAX)%Z then Some (Z.to_N z) else None
  | Rational z d => if (d =? 1)%Z then (if (0 <=? z)%Z then Some (Z.to_N z) else None) else None
  | Float _ => None
  end.

Definition U32_MAX : Z := 4294967295.
(* Number::to_u32, number.rs:160-170.  f64::to_u32 (num-traits): Some(trunc) when
   -1 < f < 2^32; the guard is_integer makes the truncation exact *)
Definition num_to_u32 (n : num) : option N :=
  match n with
  | Fixnum z => if (0 <=? z)%Z && (z <=? U32_MAX)%Z then Some (Z.to_N z) else None
  | BigInt z => if (0 <=? z)%Z && (z <=? U32_MAX)%Z then Some (Z.to_N z) else None
  | Rational z d => if (d =? 1)%Z then (if (0 <=? z)%Z then Some (Z.to_N z) else None) else None
  | Float f =>
      if num_is_integer n then
        match f64_to_Z (f64_trunc f) with
        | Some z => if (0 <=? z)%Z && (z <=? U32_MAX)%Z then Some (Z.to_N z) else None
        | None => None
        end
      else None
  end.

(* `num >= Number::from(0)` as evaluated by PartialOrd for Number (number.rs:388-431)
   against Fixnum(0); in pop_usize it is reached only when is_integer holds, so a
   Rational has denominator 1 and Ratio's comparison compares the numerators *)
Definition num_ge_zero (n : num) : bool :=
  match n with
  | Fixnum z | BigInt z => (0 <=? z)%Z
  | Rational z _ => (0 <=? z)%Z
  | Float f => f64_leb f64_zero f
  end.

(* Number::from(u64) / from(usize), number.rs:1032-1050 *)
Definition num_of_usize (n : N) : num :=
  if (I64_MAX <? Z.of_N n)%Z then BigInt (Z.of_N n) else Fixnum (Z.of_N n).

(* ==================================================== builtin/mod.rs poppers *)
(* pop_integer, builtin/mod.rs:91-97 *)
Definition pop_integer : M num :=
  dom n <- pop_number; if num_is_integer n then ret n else fail E_OTHER.

(* pop_usize, builtin/mod.rs:99-107 *)
Definition pop_usize : M N :=
  dom n <- pop_number;
  if num_is_integer n && num_ge_zero n then
    match num_to_usize n with Some k => ret k | None => fail E_OTHER end
  else fail E_OTHER.

(* pop_index, builtin/mod.rs:141-154 *)
Definition pop_index : M N :=
  dom v <- pop_value;
  match v with
  | VNum n => match num_to_usize n with Some k => ret k | None => fail E_OTHER end
  | _ => fail E_OTHER
  end.

(* ========================================================= UTF-8 primitives *)
Definition char_count (t : text) : N := len t.                 (* s.chars().count() *)

(* s.char_indices().nth(idx): byte offset and character *)
Fixpoint ci_nth (t : text) (off idx : N) : option (N * cp) :=
  match t with
  | [] => None
  | c :: r => if idx =? 0 then Some (off, c) else ci_nth r (off + utf8_len c) (idx - 1)
  end.

(* a - b on usize: panics in a debug build when b > a (a release build wraps to
   2^64 - (b - a); every use below is then followed by a failing lookup) *)
Definition usize_sub (a b : N) : out N := if a <? b then Panic P_USIZE_SUB else Ok (a - b).
Definition sat_sub (a b : N) : N := a - b.                     (* usize::saturating_sub *)

(* &s[a..b] *)
Definition slice_bytes (t : text) (a b : N) : out text :=
  if b <? a then Panic P_SLICE else
  match take_bytes a t with
  | None => Panic P_SLICE
  | Some (_, rest) =>
      match take_bytes (b - a) rest with
      | None => Panic P_SLICE
      | Some (mid, _) => Ok mid
      end
  end.

(* String::replace_range(a..b, w) *)
Definition replace_range (t : text) (a b : N) (w : text) : out text :=
  if b <? a then Panic P_REPLACE else
  match take_bytes a t with
  | None => Panic P_REPLACE
  | Some (pre, rest) =>
      match take_bytes (b - a) rest with
      | None => Panic P_REPLACE
      | Some (_, post) => Ok (pre ++ w ++ post)
      end
  end.

(* the UTF-8 encoding (what `<`, `==` on &str compare) *)
Definition utf8_bytes (c : cp) : list N :=
  if c <? 0x80 then [c]
  else if c <? 0x800 then [0xC0 + c / 64; 0x80 + c mod 64]
  else if c <? 0x10000 then [0xE0 + c / 4096; 0x80 + (c / 64) mod 64; 0x80 + c mod 64]
  else [0xF0 + c / 262144; 0x80 + (c / 4096) mod 64; 0x80 + (c / 64) mod 64; 0x80 + c mod 64].
Definition str_bytes (t : text) : list N := flat_map utf8_bytes t.

(* lexicographic comparison of two sequences (Ord for [u8] / for str) *)
Fixpoint lex_cmp (a b : list N) : comparison :=
  match a, b with
  | [], [] => Eq
  | [], _ :: _ => Lt
  | _ :: _, [] => Gt
  | x :: a', y :: b' => match x ?= y with Eq => lex_cmp a' b' | c => c end
  end.
Definition str_cmp (x y : text) : comparison := lex_cmp (str_bytes x) (str_bytes y).

Inductive cmpop := CEq | CLt | CGt | CLe | CGe.
Definition cmp_holds (o : cmpop) (c : comparison) : bool :=
  match o, c with
  | CEq, Eq => true | CEq, _ => false
  | CLt, Lt => true | CLt, _ => false
  | CGt, Gt => true | CGt, _ => false
  | CLe, Gt => false | CLe, _ => true
  | CGe, Lt => false | CGe, _ => true
  end.

(* ============================================= std case conversion on strings *)
Definition SIGMA : cp := 0x3A3.
(* str::to_lowercase (alloc/src/str.rs): every character through char::to_lowercase
   except capital sigma, which becomes final sigma when it is preceded by a cased
   letter and not followed by one, case-ignorable characters skipped on both sides
   (case_ignorable_then_cased).  [before] is the text before the character, reversed. *)
Fixpoint skip_ignorable (l : text) : text :=
  match l with
  | c :: r => if tbl_ignorable c then skip_ignorable r else l
  | [] => []
  end.
Definition case_ignorable_then_cased (l : text) : bool :=
  match skip_ignorable l with c :: _ => tbl_cased c | [] => false end.
Fixpoint str_lower_from (before : text) (l : text) : text :=
  match l with
  | [] => []
  | c :: r =>
      (if c =? SIGMA then
         if case_ignorable_then_cased before && negb (case_ignorable_then_cased r)
         then [0x3C2] else [0x3C3]
       else tbl_to_lower c) ++ str_lower_from (c :: before) r
  end.
Definition str_to_lowercase (t : text) : text := str_lower_from [] t.
Definition str_to_uppercase (t : text) : text := flat_map tbl_to_upper t.

Definition is_ascii (c : cp) : bool := c <? 128.
Definition to_ascii_uppercase (c : cp) : cp := if (97 <=? c) && (c <=? 122) then c - 32 else c.
Definition to_ascii_lowercase (c : cp) : cp := if (65 <=? c) && (c <=? 90) then c + 32 else c.

(* ================================================================ string.rs *)
(* char_offset, string.rs:86-91 (the error value is built with saturating_sub since
   86060cc; error payloads are not modelled) *)
Definition char_offset (t : text) (idx : N) : out N :=
  match ci_nth t 0 idx with Some (o, _) => Ok o | None => Err E_OTHER end.

(* char_offset_inclusive, string.rs:93-98 *)
Definition char_offset_inclusive (t : text) (idx : N) : out N :=
  match ci_nth t 0 idx with Some (o, c) => Ok (o + utf8_len c) | None => Err E_OTHER end.

(* char_substring_offset, string.rs:100-139 *)
Definition char_substring_offset (t : text) (start end_ : option N) : out (N * N) :=
  let len := char_count t in
  (* :107-111 (aaefa9e) for idx in [start, end].flatten(): idx > len is an error *)
  if match start with Some s => len <? s | None => false end then Err E_OTHER else
  if match end_ with Some e => len <? e | None => false end then Err E_OTHER else
  (* :113-122 *)
  match (match start, end_ with
         | Some s, Some e =>
             if s =? e then Some (Ok (0, 0))
             else if e <? s then Some (Err E_OTHER) else None
         | _, _ => None
         end) with
  | Some r => r
  | None =>
      (* :124-126 *)
      if match start with Some s => s =? len | None => false end then Ok (0, 0) else
      (* :128-131 *)
      do so <- match start with Some s => char_offset t s | None => Ok 0 end;
      (* :133-136; `end - 1` *)
      do eo <- match end_ with
               | Some e => do e1 <- usize_sub e 1; char_offset_inclusive t e1
               | None => Ok (blen t)
               end;
      Ok (so, eo)
  end.

(* the common part of string->list / string-copy: offsets, then &s[start..end] *)
Definition substring_core (t : text) (start end_ : option N) : out text :=
  do (a, b) <- char_substring_offset t start end_;
  slice_bytes t a b.

(* string-ref :75-84 after the pops *)
Definition string_ref_core (t : text) (idx : N) : out cp :=
  match ci_nth t 0 idx with Some (_, c) => Ok c | None => Err E_OTHER end.

(* string-set! :274-280 after the pops *)
Definition string_set_core (t : text) (idx : N) (c : cp) : out text :=
  match ci_nth t 0 idx with
  | None => Err E_OTHER
  | Some (o, old) => replace_range t o (o + utf8_len old) [c]
  end.

(* string-fill! :255-264 after the pops *)
Definition string_fill_core (t : text) (start end_ : option N) (c : cp) : out text :=
  let count :=
    match start, end_ with
    | Some s, Some e => if s <=? e then e - s else char_count t
    | Some s, None => sat_sub (char_count t) s
    | _, _ => char_count t
    end in
  do (a, b) <- char_substring_offset t start end_;
  replace_range t a b (repeat c (N.to_nat count)).

Definition opt_pop_index (b : bool) : M (option N) :=
  if b then (dom i <- pop_index; ret (Some i)) else ret None.

(* string_append, string.rs:37-45; argc >= 0 since the zero-argument fix *)
Fixpoint string_append_loop (n : nat) (output : text) : M text :=
  match n with
  | O => ret output
  | S k => dom sid <- pop_string; dom t <- str_get sid; string_append_loop k (t ++ output)
  end.
Definition string_append : M vcell :=
  dom argc <- pop_argc 0 None;
  dom out <- string_append_loop (N.to_nat argc) [];
  str_new out.

(* string_length, string.rs:47-52 *)
Definition string_length : M vcell :=
  dom _ <- pop_argc 1 (Some 1);
  dom sid <- pop_string; dom t <- str_get sid;
  ret (VNum (num_of_usize (char_count t))).

(* string_downcase / string_upcase / string_foldcase, string.rs:54-73 *)
Definition string_downcase : M vcell :=
  dom _ <- pop_argc 1 (Some 1);
  dom sid <- pop_string; dom t <- str_get sid; str_new (str_to_lowercase t).
Definition string_upcase : M vcell :=
  dom _ <- pop_argc 1 (Some 1);
  dom sid <- pop_string; dom t <- str_get sid; str_new (str_to_uppercase t).
Definition string_foldcase : M vcell :=
  dom _ <- pop_argc 1 (Some 1);
  dom sid <- pop_string; dom t <- str_get sid; str_new (str_to_lowercase t).

(* string_ref, string.rs:75-84 *)
Definition string_ref : M vcell :=
  dom _ <- pop_argc 2 (Some 2);
  dom idx <- pop_index;
  dom sid <- pop_string; dom t <- str_get sid;
  dom c <- lift (string_ref_core t idx);
  ret (VChar c).

(* string_list, string.rs:141-168: the list is built back to front in the heap *)
Fixpoint chars_to_list (rev_chars : text) (list : vcell) : M vcell :=
  match rev_chars with
  | [] => ret list
  | c :: r =>
      dom pc <- hput (VChar c);
      dom a <- as_ptr pc; dom d <- as_ptr list;
      dom l <- hput (VPair a d);
      chars_to_list r l
  end.
Definition string_list : M vcell :=
  dom argc <- pop_argc 1 (Some 3);
  dom end_ <- opt_pop_index (argc =? 3);
  dom start <- opt_pop_index ((argc =? 2) || (argc =? 3));
  dom sid <- pop_string; dom t <- str_get sid;
  dom sub <- lift (substring_core t start end_);
  dom nl <- hput VNil;
  chars_to_list (rev sub) nl.

(* string_vector, string.rs:170-178 *)
Definition string_vector : M vcell :=
  dom _ <- pop_argc 1 (Some 1);
  dom sid <- pop_string; dom t <- str_get sid;
  vec_new (map VChar t).

(* vector_string, string.rs:180-190 *)
Fixpoint vector_string_loop (l : list vcell) (s : text) : M text :=
  match l with
  | [] => ret s
  | x :: r =>
      dom v <- hderef x;
      match v with
      | VChar c => vector_string_loop r (s ++ [c])
      | _ => fail E_OTHER
      end
  end.
Definition vector_string : M vcell :=
  dom _ <- pop_argc 1 (Some 1);
  dom vid <- pop_vector; dom l <- vec_get vid;
  dom s <- vector_string_loop l [];
  str_new s.

(* list_string, string.rs:192-212.  `while rest.is_pair()` follows cdr pointers; on a
   cyclic list it does not terminate (fuel).  A non-pair, non-nil tail ends the loop
   silently: an improper list is accepted (recorded, not claimed). *)
Fixpoint list_string_loop (fuel : nat) (rest : vcell) (s : text) : M text :=
  match fuel with
  | O => fun _ => RNoFuel
  | S f =>
      match rest with
      | VPair a d =>
          dom v <- hget a;
          match v with
          | VChar c => dom rest' <- hget d; list_string_loop f rest' (s ++ [c])
          | _ => fail E_OTHER
          end
      | _ => ret s
      end
  end.
Definition list_string : M vcell :=
  dom _ <- pop_argc 1 (Some 1);
  dom rest <- pop_value;
  match rest with
  | VPair _ _ | VNil =>
      dom h <- get_vm;
      dom s <- list_string_loop (S (N.to_nat (hlen (hp h)))) rest [];
      str_new s
  | _ => fail E_OTHER
  end.

(* string_copy, string.rs:214-234 *)
Definition string_copy : M vcell :=
  dom argc <- pop_argc 1 (Some 3);
  dom end_ <- opt_pop_index (argc =? 3);
  dom start <- opt_pop_index ((argc =? 2) || (argc =? 3));
  dom sid <- pop_string; dom t <- str_get sid;
  dom sub <- lift (substring_core t start end_);
  str_new sub.

(* string_fill, string.rs:236-266 *)
Definition string_fill : M vcell :=
  dom argc <- pop_argc 2 (Some 4);
  dom end_ <- opt_pop_index (argc =? 4);
  dom start <- opt_pop_index ((argc =? 3) || (argc =? 4));
  dom c <- pop_char;
  dom sid <- pop_string; dom t <- str_get sid;
  dom t' <- lift (string_fill_core t start end_ c);
  dom _ <- str_set sid t';
  ret VVoid.

(* string_set, string.rs:268-281 *)
Definition string_set : M vcell :=
  dom _ <- pop_argc 3 (Some 3);
  dom c <- pop_char;
  dom idx <- pop_index;
  dom sid <- pop_string; dom t <- str_get sid;
  dom t' <- lift (string_set_core t idx c);
  dom _ <- str_set sid t';
  ret VVoid.

(* make_string, string.rs:283-293 *)
Definition make_string : M vcell :=
  dom argc <- pop_argc 1 (Some 2);
  dom c <- (if argc =? 1 then ret 0 else pop_char);
  dom size <- pop_usize;
  str_new (repeat c (N.to_nat size)).

(* string, string.rs:295-302: v[argc - it - 1] = pop_char for it in 0..argc *)
Fixpoint string_loop (n : nat) (v : text) : M text :=
  match n with
  | O => ret v
  | S k => dom c <- pop_char; string_loop k (c :: v)
  end.
Definition string_ : M vcell :=
  dom argc <- pop_argc 0 None;
  dom v <- string_loop (N.to_nat argc) [];
  str_new v.

(* string_comp, string.rs:354-372 *)
Fixpoint string_comp_loop (comp : text -> text -> bool) (n : nat) (y : N) (result : bool) : M bool :=
  match n with
  | O => ret result
  | S k =>
      dom x <- pop_string;
      dom ys <- str_get y; dom xs <- str_get x;
      string_comp_loop comp k x (if comp xs ys then result else false)
  end.
Definition string_comp (comp : text -> text -> bool) : M vcell :=
  dom argc <- pop_argc 1 None;
  dom y <- pop_string;
  dom r <- string_comp_loop comp (N.to_nat (argc - 1)) y true;
  ret (VBool r).

Definition str_comp (o : cmpop) (x y : text) : bool := cmp_holds o (str_cmp x y).
Definition str_ci_comp (o : cmpop) (x y : text) : bool :=
  cmp_holds o (str_cmp (str_to_lowercase x) (str_to_lowercase y)).
Definition string_cmp (o : cmpop) : M vcell := string_comp (str_comp o).         (* :304-322 *)
Definition string_ci_cmp (o : cmpop) : M vcell := string_comp (str_ci_comp o).   (* :324-352 *)

(* ================================================================== char.rs *)
Definition char_pred (p : cp -> bool) : M vcell :=                  (* char.rs:32-60 *)
  dom _ <- pop_argc 1 (Some 1);
  dom c <- pop_char; ret (VBool (p c)).
Definition char_is_alphabetic := char_pred tbl_alphabetic.
Definition char_is_numeric := char_pred tbl_numeric.
Definition char_is_lower_case := char_pred tbl_lowercase.
Definition char_is_upper_case := char_pred tbl_uppercase.
Definition char_is_whitespace := char_pred tbl_whitespace.

(* integer_to_char, char.rs:62-73; char::from_u32 = is_scalar *)
Definition integer_to_char : M vcell :=
  dom _ <- pop_argc 1 (Some 1);
  dom n <- pop_integer;
  match num_to_u32 n with
  | Some u => if is_scalar u then ret (VChar u) else fail E_OTHER
  | None => fail E_OTHER
  end.

(* char_to_integer, char.rs:75-79 *)
Definition char_to_integer : M vcell :=
  dom _ <- pop_argc 1 (Some 1);
  dom c <- pop_char; ret (VNum (Fixnum (Z.of_N c))).

(* char_upcase / char_downcase / char_foldcase, char.rs:81-115 *)
Definition upcase_char (c : cp) : cp :=
  if is_ascii c then to_ascii_uppercase c
  else match tbl_to_upper c with [x] => x | _ => c end.
Definition downcase_char (c : cp) : cp :=
  if is_ascii c then to_ascii_lowercase c
  else match tbl_to_lower c with [x] => x | _ => c end.
Definition char_map (f : cp -> cp) : M vcell :=
  dom _ <- pop_argc 1 (Some 1);
  dom c <- pop_char; ret (VChar (f c)).
Definition char_upcase := char_map upcase_char.
Definition char_downcase := char_map downcase_char.
Definition char_foldcase := char_map downcase_char.

(* digit_value, char.rs:117-125 *)
Definition digit_value : M vcell :=
  dom _ <- pop_argc 1 (Some 1);
  dom c <- pop_char;
  if negb (is_digit c) then ret (VBool false)
  else ret (VNum (Fixnum (Z.of_N (c - 48)))).

(* char_comp, char.rs:175-189 *)
Fixpoint char_comp_loop (comp : cp -> cp -> bool) (n : nat) (y : cp) (result : bool) : M bool :=
  match n with
  | O => ret result
  | S k => dom x <- pop_char; char_comp_loop comp k x (if comp x y then result else false)
  end.
Definition char_comp (comp : cp -> cp -> bool) : M vcell :=
  dom argc <- pop_argc 1 None;
  dom y <- pop_char;
  dom r <- char_comp_loop comp (N.to_nat (argc - 1)) y true;
  ret (VBool r).
Definition chr_comp (o : cmpop) (x y : cp) : bool := cmp_holds o (x ?= y).
(* char-ci: ASCII folding only (eq_ignore_ascii_case / to_ascii_lowercase), :147-173 *)
Definition chr_ci_comp (o : cmpop) (x y : cp) : bool :=
  cmp_holds o (to_ascii_lowercase x ?= to_ascii_lowercase y).
Definition char_cmp (o : cmpop) : M vcell := char_comp (chr_comp o).
Definition char_ci_cmp (o : cmpop) : M vcell := char_comp (chr_ci_comp o).

(* prelude.scm:189-190  (define (substring string start end) (string-copy string start end)):
   a three-parameter lambda; the arity check is the VM's *)
Definition substring (nargs : N) : M vcell :=
  if nargs =? 3 then string_copy else fail E_OTHER.

(* the CALL of a builtin (run.rs): the arguments are pushed left to right, then argc,
   and control passes to the Rust function *)
Fixpoint push_all (l : list vcell) : M unit :=
  match l with
  | [] => ret tt
  | v :: r => dom _ <- push v; push_all r
  end.
Definition run_builtin (f : M vcell) (args : list vcell) : M vcell :=
  dom _ <- push_all args; dom _ <- push (VArgc (len args)); f.
