(* Heap.v — marwood/src/vm/heap.rs: allocation, interning, datum <-> heap
   conversion (the collector is in Gc.v).  Definitions only. *)
From MW Require Import Model.Base Model.F64 Model.Num Model.Datum Model.TransformDef Model.VmTypes.
Open Scope N_scope.

Definition text_eqb (a b : text) : bool := if list_eq_dec N.eq_dec a b then true else false.

(* (0..n).rev() / (a..b) pushed in order: [range_desc a n] = [a+n-1; ...; a] *)
Fixpoint range_asc (a : N) (n : nat) : list N :=
  match n with O => [] | S k => a :: range_asc (a + 1) k end.

(* Heap::new, heap.rs:30-38: free_list = (0..chunk).rev(), popped from the END of
   the Vec; the model keeps the Vec reversed (head = next to pop) *)
Definition heap_new (chunk_size : N) : heap :=
  mk_heap tempty chunk_size (range_asc 0 (N.to_nat chunk_size)) tempty [] chunk_size.

(* heap.rs:44-54: new_size = ceil((len/chunk) * 1.5) * chunk; the new cells
   current..new are pushed in ascending order, so they pop in descending order *)
Definition heap_grow (h : heap) : heap :=
  let cur := hlen h in
  let chunks := cur / chunk h in
  let new_chunks := (chunks * 3 + 1) / 2 in
  let new_size := new_chunks * chunk h in
  mk_heap (cells h) new_size
          (rev (range_asc cur (N.to_nat (new_size - cur))) ++ free_list h)
          (gcmap h) (symtab h) (chunk h).

(* heap.rs:59-70.  After one grow the free list is non-empty (chunk > 0). *)
Definition heap_alloc (h : heap) : N * heap :=
  let h1 := match free_list h with [] => heap_grow h | _ => h end in
  match free_list h1 with
  | p :: fl => (p, mk_heap (cells h1) (hlen h1) fl (tset (gcmap h1) p GAllocated) (symtab h1) (chunk h1))
  | [] => (0, h1)   (* unreachable when chunk > 0 *)
  end.

Definition heap_get (h : heap) (p : N) : out vcell :=
  if p <? hlen h then Ok (match tget (cells h) p with Some v => v | None => VUndef end)
  else Panic 10.   (* "heap index out of bounds" *)

Definition heap_set (h : heap) (p : N) (v : vcell) : out heap :=
  if p <? hlen h then Ok (mk_heap (tset (cells h) p v) (hlen h) (free_list h) (gcmap h) (symtab h) (chunk h))
  else Panic 10.

Fixpoint symtab_find (s : list (text * N)) (name : text) : option N :=
  match s with
  | [] => None
  | (n, p) :: r => if text_eqb n name then Some p else symtab_find r name
  end.
Fixpoint symtab_remove (s : list (text * N)) (name : text) : list (text * N) :=
  match s with
  | [] => []
  | (n, p) :: r => if text_eqb n name then symtab_remove r name else (n, p) :: symtab_remove r name
  end.

Definition heap_store_new (h : heap) (v : vcell) : N * heap :=
  let '(p, h1) := heap_alloc h in
  (p, mk_heap (tset (cells h1) p v) (hlen h1) (free_list h1) (gcmap h1) (symtab h1) (chunk h1)).

(* Heap::put, heap.rs:89-108 *)
Definition heap_put (h : heap) (v : vcell) : vcell * heap :=
  match v with
  | VPtr _ => (v, h)
  | VSym name =>
      match symtab_find (symtab h) name with
      | Some p => (VPtr p, h)
      | None =>
          let '(p, h1) := heap_store_new h v in
          (VPtr p, mk_heap (cells h1) (hlen h1) (free_list h1) (gcmap h1) ((name, p) :: symtab h1) (chunk h1))
      end
  | _ => let '(p, h1) := heap_store_new h v in (VPtr p, h1)
  end.

(* Heap::maybe_put, heap.rs:118-143 *)
Definition heap_maybe_put (h : heap) (v : vcell) : vcell * heap :=
  match v with
  | VNum _ | VBool _ | VChar _ | VNil | VVoid | VUndef => (v, h)
  | _ => heap_put h v
  end.

(* Heap::get, heap.rs:229-240: dereference one pointer *)
Definition heap_deref (h : heap) (v : vcell) : out vcell :=
  match v with VPtr p => heap_get h p | _ => Ok v end.

(* fresh Rc objects *)
Definition new_str (s : store) (t : text) : N * store :=
  (next_id s, mk_store (tset (strs s) (next_id s) t) (vecs s) (envs s) (lams s) (conts s) (macros s) (next_id s + 1)).
Definition new_vec (s : store) (l : list vcell) : N * store :=
  (next_id s, mk_store (strs s) (tset (vecs s) (next_id s) l) (envs s) (lams s) (conts s) (macros s) (next_id s + 1)).
Definition new_env (s : store) (l : list vcell) : N * store :=
  (next_id s, mk_store (strs s) (vecs s) (tset (envs s) (next_id s) l) (lams s) (conts s) (macros s) (next_id s + 1)).
Definition new_lam (s : store) (l : lambda) : N * store :=
  (next_id s, mk_store (strs s) (vecs s) (envs s) (tset (lams s) (next_id s) l) (conts s) (macros s) (next_id s + 1)).
Definition new_cont (s : store) (k : cont) : N * store :=
  (next_id s, mk_store (strs s) (vecs s) (envs s) (lams s) (tset (conts s) (next_id s) k) (macros s) (next_id s + 1)).
Definition new_macro (s : store) (m : transform) : N * store :=
  (next_id s, mk_store (strs s) (vecs s) (envs s) (lams s) (conts s) (tset (macros s) (next_id s) m) (next_id s + 1)).
Definition set_str (s : store) (i : N) (t : text) : store :=
  mk_store (tset (strs s) i t) (vecs s) (envs s) (lams s) (conts s) (macros s) (next_id s).
Definition set_vec (s : store) (i : N) (l : list vcell) : store :=
  mk_store (strs s) (tset (vecs s) i l) (envs s) (lams s) (conts s) (macros s) (next_id s).
Definition set_env (s : store) (i : N) (l : list vcell) : store :=
  mk_store (strs s) (vecs s) (tset (envs s) i l) (lams s) (conts s) (macros s) (next_id s).
Definition store_empty : store := mk_store tempty tempty tempty tempty tempty tempty 0.

(* Heap::put_cell / maybe_put_cell, heap.rs:153-200.  Structural on the datum. *)
Fixpoint maybe_put_cell (h : heap) (s : store) (c : cell) {struct c} : out (vcell * heap * store) :=
  match c with
  | CUndef => Ok (VUndef, h, s)
  | CVoid => Ok (VVoid, h, s)
  | CNil => Ok (VNil, h, s)
  | CNum n => Ok (VNum n, h, s)
  | CBool b => Ok (VBool b, h, s)
  | CChar ch => Ok (VChar ch, h, s)
  | CPair a d =>
      (* put_cell car, then put_cell cdr, then put the pair *)
      do (va, h1, s1) <- maybe_put_cell h s a;
      let '(pa, h2) := match va with VPtr _ => (va, h1) | _ => heap_put h1 va end in
      do (vd, h3, s3) <- maybe_put_cell h2 s1 d;
      let '(pd, h4) := match vd with VPtr _ => (vd, h3) | _ => heap_put h3 vd end in
      match pa, pd with
      | VPtr x, VPtr y => let '(p, h5) := heap_put h4 (VPair x y) in Ok (p, h5, s3)
      | _, _ => Panic 11
      end
  | CStr t => let '(sid, s1) := new_str s t in let '(p, h1) := heap_put h (VStr sid) in Ok (p, h1, s1)
  | CSym t => let '(p, h1) := heap_put h (VSym t) in Ok (p, h1, s)
  | CCont | CMacro | CProc _ => Panic 12
  | CVec l =>
      let fix elems (h : heap) (s : store) (l : list cell) (acc : list vcell) : out (list vcell * heap * store) :=
        match l with
        | [] => Ok (rev acc, h, s)
        | x :: r => do (v, h1, s1) <- maybe_put_cell h s x; elems h1 s1 r (v :: acc)
        end in
      do (vs, h1, s1) <- elems h s l [];
      let '(vid, s2) := new_vec s1 vs in
      let '(p, h2) := heap_put h1 (VVec vid) in Ok (p, h2, s2)
  end.

Definition put_cell (h : heap) (s : store) (c : cell) : out (vcell * heap * store) :=
  do (v, h1, s1) <- maybe_put_cell h s c;
  match v with
  | VPtr _ => Ok (v, h1, s1)
  | _ => let '(p, h2) := heap_put h1 v in Ok (p, h2, s1)
  end.

(* Lambda Display, lambda.rs:131-138: "(λ <formals>)" *)
Definition lambda_desc (l : lambda) : text :=
  match l_desc l with
  | Some args => [40; 955; 32] ++ display args ++ [41]
  | None => [40; 955; 32; 40; 41; 41]
  end.

(* Heap::get_as_cell, heap.rs:266-326.  The Rust function loops along cdr and
   recurses elsewhere; on cyclic data it does not terminate, hence the fuel.
   [bname] gives the description of a builtin. *)
Section GetAsCell.
Variable bname : N -> text.
Variable h : heap.
Variable s : store.

Fixpoint get_as_cell (fuel : nat) (v : vcell) : out cell :=
  match fuel with
  | O => NoFuel
  | S f =>
      match v with
      | VBool b => Ok (CBool b)
      | VChar c => Ok (CChar c)
      | VNum n => Ok (CNum n)
      | VNil => Ok CNil
      | VPair a d =>
          (* v.push(get_as_cell(Ptr car)); then follow the cdr *)
          do ca <- get_as_cell f (VPtr a);
          do dv <- heap_get h d;
          match dv with
          | VPair _ _ => do rest <- get_as_cell f dv; Ok (CPair ca rest)
          | VNil => Ok (CPair ca CNil)
          | other => do cd <- get_as_cell f other; Ok (CPair ca cd)
          end
      | VPtr p => do x <- heap_get h p; get_as_cell f x
      | VStr sid => match tget (strs s) sid with Some t => Ok (CStr t) | None => Panic 13 end
      | VSym t => Ok (CSym t)
      | VUndef => Ok CUndef
      | VVoid => Ok CVoid
      | VCont _ => Ok CCont
      | VClosure lp _ =>
          do lv <- heap_get h lp;
          match lv with
          | VLambda lid => match tget (lams s) lid with
                           | Some l => Ok (CProc (Some (lambda_desc l)))
                           | None => Panic 13 end
          | _ => Ok (CProc None)
          end
      | VLambda lid => match tget (lams s) lid with
                       | Some l => Ok (CProc (Some (lambda_desc l)))
                       | None => Panic 13 end
      | VBuiltin b => Ok (CProc (Some (bname b)))
      | VMacro _ => Ok CMacro
      | VVec vid =>
          match tget (vecs s) vid with
          | None => Panic 13
          | Some l =>
              let fix elems (l : list vcell) : out (list cell) :=
                match l with
                | [] => Ok []
                | x :: r => do c <- get_as_cell f x; do cs <- elems r; Ok (c :: cs)
                end in
              do cs <- elems l; Ok (CVec cs)
          end
      | VAcc | VArgc _ | VBp _ | VBpOff _ | VEp _ | VGSlot _ | VLexEnv _ | VLexSlot _
      | VLexPtr _ _ | VOp _ | VIp _ _ => Panic 14     (* "cannot convert VCell to Cell" *)
      end
  end.
End GetAsCell.
