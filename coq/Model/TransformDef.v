(* TransformDef.v — data types of marwood/src/vm/transform.rs (types only; the
   functions live in Model/Transform.v). *)
From MW Require Import Model.Base Model.Num Model.Datum.

(* transform.rs:28-36 *)
Record pattern := mk_pattern {
  p_expr : cell;
  p_variables : list cell;
  p_expanded_variables : list cell;
  p_ellipsis : cell;
  p_literals : list cell;
  p_underscore : cell
}.

(* transform.rs:158-164 *)
Record transform := mk_transform {
  tr_keyword : cell;
  tr_ellipsis : cell;
  tr_rules : list (pattern * cell);
  tr_literals : list cell
}.
