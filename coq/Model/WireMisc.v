(* WireMisc.v — wire interfaces of the "misc" area (see docs/AGENT_GUIDE.md for the id range).
   [run_misc c] receives the whole case (first element = interface id). *)
From Coq Require Import String.
From MW Require Import Model.Base Model.Datum.
Open Scope N_scope.

Definition run_misc (c : list N) : list N := S_ "BADCASE".
