(* WireMisc.v — wire interfaces of the "misc" area (see docs/AGENT_GUIDE.md for the id range).
   [run_misc c] receives the whole case (first element = interface id).

   C19 (ids 110-119; 100-109 are left to the C06 package): the depth functions of
   Model/Depth.v on the case's text; the lines are those of harness/src/area_misc.rs.

     110 cp...            D parse=<n> <OK|ERR|ERR incomplete>
     111 len cp1.. cp2..  D put=.. get=.. write=.. mark=.. equal=.. OK <equal? result> <write text>
     112 cp...            D transform=.. compile=.. ffs=.. <OK|ERR>                          *)
From Coq Require Import String.
From MW Require Import Model.Base Model.F64 Model.Num Model.NumFmt Model.Datum Model.Lex Model.Parse
  Model.TransformDef Model.Transform Model.VmTypes Model.Heap Model.VmBase Model.Compile Model.Gc
  Model.Depth.
Open Scope N_scope.

Definition show_nat (n : nat) : list N := show_N (N.of_nat n).
Definition show_status {A} (o : out A) : list N :=
  match o with
  | Ok _ => S_ "OK"
  | Err e => if e =? E_INCOMPLETE then S_ "ERR incomplete" else S_ "ERR"
  | Panic _ => S_ "PANIC"
  | NoFuel => S_ "NOFUEL"
  end.

Definition run_parse_depth (t : text) : list N :=
  let '(d, o) := parse_text_d t in
  S_ "D parse=" ++ show_nat d ++ [32] ++ show_status o.

(* fuel of the heap traversals: every frame visits a cell or a payload *)
Definition heap_fuel (h : heap) (s : store) : nat :=
  (4 * N.to_nat (hlen h) + 4 * N.to_nat (next_id s) + 16)%nat.

Definition run_datum_depth (t1 t2 : text) : list N :=
  match parse_text t1 with
  | Ok (x, _) =>
      match (match t2 with [] => Ok (x, None) | _ => parse_text t2 end) with
      | Ok (y, _) =>
          match maybe_put_cell (heap_new 1024) store_empty x with
          | Ok (v, h1, s1) =>
              let fuel := heap_fuel h1 s1 in
              let '(dget, oget) := gac_d (fun _ => []) h1 s1 fuel v in
              let '(dmark, _) :=
                match v with
                | VPtr p => mark_d h1 s1 (store_depth s1) fuel p (gcmap h1)
                | other => mark_vcell_d s1 (fun p m => mark_d h1 s1 (store_depth s1) fuel p m)
                                        (S (store_depth s1)) other (gcmap h1)
                end in
              (* (equal? 'X 'Y): X is put first, Y second; the builtin pops Y as `left` *)
              match maybe_put_cell h1 s1 y with
              | Ok (w, h2, s2) =>
                  let '(deq, oeq) := equal_d Debug h2 s2 (heap_fuel h2 s2) w v in
                  match oget with
                  | Ok back =>
                      S_ "D put=" ++ show_nat (maybe_put_cell_depth x)
                      ++ S_ " get=" ++ show_nat dget
                      ++ S_ " write=" ++ show_nat (display_depth back)
                      ++ S_ " mark=" ++ show_nat dmark
                      ++ S_ " equal=" ++ show_nat deq
                      ++ S_ " OK " ++ match oeq with
                                      | Ok true => S_ "#t" | Ok false => S_ "#f"
                                      | Err _ => S_ "ERR" | Panic _ => S_ "PANIC" | NoFuel => S_ "NOFUEL"
                                      end
                      ++ [32] ++ esc_text (write back)
                  | other => show_status other
                  end
              | Err e => show_status (@Err unit e) | Panic p => S_ "PANIC" | NoFuel => S_ "NOFUEL"
              end
          | Err e => show_status (@Err unit e) | Panic p => S_ "PANIC" | NoFuel => S_ "NOFUEL"
          end
      | other => show_status other
      end
  | other => show_status other
  end.

(* Vm::prepare_eval on a machine without macros: transform, then compile *)
Definition run_expr_depth (t : text) : list N :=
  match parse_text t with
  | Ok (e, _) =>
      let s0 := vm_empty 8192 in
      let '(dt, ot) := transform_d TRANSFORM_FUEL s0 e in
      let '(dc, df) := match ot with Ok e' => compile_depth e' | _ => (O, O) end in
      let status := match compile_runnable e s0 with
                    | ROk _ _ => S_ "OK" | RErr _ _ _ => S_ "ERR"
                    | RPanic _ => S_ "PANIC" | RNoFuel => S_ "NOFUEL" end in
      S_ "D transform=" ++ show_nat dt ++ S_ " compile=" ++ show_nat dc
      ++ S_ " ffs=" ++ show_nat df ++ [32] ++ status
  | other => show_status other
  end.

Fixpoint split_at {A} (n : nat) (l : list A) : list A * list A :=
  match n, l with
  | O, _ => ([], l)
  | S k, x :: r => let '(a, b) := split_at k r in (x :: a, b)
  | S _, [] => ([], [])
  end.

Definition run_misc (c : list N) : list N :=
  match c with
  | 110 :: t => run_parse_depth t
  | 111 :: n :: r => let '(t1, t2) := split_at (N.to_nat n) r in run_datum_depth t1 t2
  | 112 :: t => run_expr_depth t
  | _ => S_ "BADCASE"
  end.
