(* SymbolB.v — marwood/src/vm/builtin/symbol.rs: the name encoding of string->symbol
   (symbol.rs:13-29) and the decoding of symbol->string (symbol.rs:31-36, through
   parse::parse_string, Model/Parse.v).  Definitions only.

   The stored NAME of the symbol made by (string->symbol s) is the encoded text: the first
   character is kept when it is identifier-initial, a later one when it is identifier-
   subsequent, everything else becomes \x<hex>; .  [string_to_symbol_pinned] is the pinned
   code (where `\` — identifier-initial for the lexer — passes through unescaped);
   [string_to_symbol] is the code after fix F10 (`\` is written \x5c;).                  *)
From Coq Require Import String.
From MW Require Import Model.Base Model.F64 Model.Num Model.NumFmt Model.Datum Model.Lex Model.Parse.
Open Scope N_scope.

Definition sym_hex_escape (c : cp) : text := [92; 120] ++ show_hex c ++ [59].

(* one arm of the `match c` in string_symbol; [first] is `idx == 0` *)
Definition sym_encode_char_pinned (first : bool) (c : cp) : text :=
  if first && is_initial_identifier c then [c]
  else if negb first && is_subsequent_identifier c then [c]
  else sym_hex_escape c.

Definition sym_encode_char (first : bool) (c : cp) : text :=
  if c =? 92 then [92; 120; 53; 99; 59]             (* fix F10: '\\' => "\\x5c;" *)
  else sym_encode_char_pinned first c.

Definition encode_with (f : bool -> cp -> text) (t : text) : text :=
  match t with
  | [] => []
  | c :: r => f true c ++ flat_map (f false) r
  end.

Definition string_to_symbol_pinned : text -> text := encode_with sym_encode_char_pinned.
Definition string_to_symbol : text -> text := encode_with sym_encode_char.

(* symbol_string: parse::parse_string(sym)?; the result is always Cell::String *)
Definition symbol_to_string (y : text) : out text :=
  do c <- parse_string y;
  match c with CStr s => Ok s | _ => Err E_OTHER end.

(* a symbol as the READER produces it from an identifier token: the token text verbatim
   (parse.rs: TokenType::Symbol => Cell::Symbol(span)) *)
Definition reader_symbol_name (token_text : text) : text := token_text.
