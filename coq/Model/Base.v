(* Base.v — shared definitions of the marwood model: outcomes, text, UTF-8 widths,
   character classes.  Executable definitions only (no proofs).               *)
From Coq Require Export NArith ZArith List Bool.
Export ListNotations.
Open Scope N_scope.

(* ------------------------------------------------------------------ outcomes *)
(* Every Rust entry point returns Ok / Err; a panic and non-termination are
   explicit outcomes of the model so that C06 can be stated ("no Panic").      *)
Inductive out (A : Type) : Type :=
| Ok (a : A)
| Err (e : N)          (* error class, see the constants below *)
| Panic (site : N)     (* a Rust panic; [site] identifies the source location *)
| NoFuel.              (* the model ran out of fuel: stands for a hang *)
Arguments Ok {A} a.
Arguments Err {A} e.
Arguments Panic {A} site.
Arguments NoFuel {A}.

Definition E_INCOMPLETE : N := 0.
Definition E_OTHER : N := 1.

Definition bind {A B} (x : out A) (f : A -> out B) : out B :=
  match x with
  | Ok a => f a
  | Err e => Err e
  | Panic s => Panic s
  | NoFuel => NoFuel
  end.
Notation "'do' x <- e1 ; e2" := (bind e1 (fun x => e2))
  (at level 200, x pattern, e1 at level 100, e2 at level 200, right associativity).

(* ---------------------------------------------------------------------- text *)
(* A Rust [char] is a Unicode scalar value; a [&str]/[String] is a list of them.
   Byte offsets (token spans, slicing) are computed with [utf8_len].            *)
Definition cp := N.
Definition text := list cp.

Definition utf8_len (c : cp) : N :=
  if c <? 0x80 then 1 else if c <? 0x800 then 2 else if c <? 0x10000 then 3 else 4.

Fixpoint blen (l : text) : N :=
  match l with [] => 0 | c :: r => utf8_len c + blen r end.

Definition is_scalar (c : cp) : bool :=
  (c <? 0xD800) || ((0xDFFF <? c) && (c <? 0x110000)).

(* take exactly [n] bytes worth of characters from [l]; None if [n] falls inside a
   character or beyond the end (Rust: slicing panics) *)
Fixpoint take_bytes (n : N) (l : text) : option (text * text) :=
  if n =? 0 then Some ([], l) else
  match l with
  | [] => None
  | c :: r =>
      if utf8_len c <=? n then
        match take_bytes (n - utf8_len c) r with
        | Some (a, b) => Some (c :: a, b)
        | None => None
        end
      else None
  end.

Definition mem (c : cp) (l : list N) : bool := existsb (N.eqb c) l.

(* ------------------------------------------------------------- char classes *)
Definition is_digit (c : cp) := (48 <=? c) && (c <=? 57).
Definition is_hex (c : cp) :=
  is_digit c || ((65 <=? c) && (c <=? 70)) || ((97 <=? c) && (c <=? 102)).
Definition is_ascii_alpha (c : cp) :=
  ((65 <=? c) && (c <=? 90)) || ((97 <=? c) && (c <=? 122)).
Definition is_ascii_alnum (c : cp) := is_ascii_alpha c || is_digit c.

(* char::is_alphabetic restricted to <= 0xFF: lex.rs:322-323 short-circuits
   everything above 0xFF before the result can matter. *)
Definition is_alpha_latin1 (c : cp) :=
  is_ascii_alpha c || (c =? 0xAA) || (c =? 0xB5) || (c =? 0xBA)
  || ((0xC0 <=? c) && (c <=? 0xD6)) || ((0xD8 <=? c) && (c <=? 0xF6))
  || ((0xF8 <=? c) && (c <=? 0xFF)).
(* char::is_whitespace restricted to <= 0xFF (consulted only after the
   is_initial_identifier test, lex.rs:120-126) *)
Definition is_ws_latin1 (c : cp) :=
  ((9 <=? c) && (c <=? 13)) || (c =? 32) || (c =? 0x85) || (c =? 0xA0).
(* char::is_control = general category Cc *)
Definition is_control (c : cp) := (c <? 32) || ((127 <=? c) && (c <=? 159)).

(* ------------------------------------------------------------ show helpers *)
Fixpoint uint_digits (u : Decimal.uint) : list N :=
  match u with
  | Decimal.Nil => []
  | Decimal.D0 r => 48 :: uint_digits r | Decimal.D1 r => 49 :: uint_digits r
  | Decimal.D2 r => 50 :: uint_digits r | Decimal.D3 r => 51 :: uint_digits r
  | Decimal.D4 r => 52 :: uint_digits r | Decimal.D5 r => 53 :: uint_digits r
  | Decimal.D6 r => 54 :: uint_digits r | Decimal.D7 r => 55 :: uint_digits r
  | Decimal.D8 r => 56 :: uint_digits r | Decimal.D9 r => 57 :: uint_digits r
  end.
Definition show_N (n : N) : list N := uint_digits (N.to_uint n).
Definition show_Z (z : Z) : list N :=
  match z with
  | Z0 => [48]
  | Zpos p => show_N (Npos p)
  | Zneg p => 45 :: show_N (Npos p)
  end.

Definition hex_digit (d : N) : N := if d <? 10 then 48 + d else 87 + d.
(* lower-case hexadecimal rendering, fuel-based (fuel = number of bits) *)
Fixpoint show_hex_fuel (fuel : nat) (n : N) (acc : list N) : list N :=
  match fuel with
  | O => acc
  | S f =>
      let d := N.land n 15 in
      let q := N.shiftr n 4 in
      if q =? 0 then hex_digit d :: acc else show_hex_fuel f q (hex_digit d :: acc)
  end.
Definition show_hex (n : N) : list N := show_hex_fuel (S (N.to_nat (N.size n))) n [].

(* canonical ASCII rendering of text on the wire: printable ASCII except '\'
   verbatim, everything else as \u{hex} *)
Definition esc_cp (c : cp) : list N :=
  if (32 <=? c) && (c <=? 126) && negb (c =? 92) then [c]
  else [92; 117; 123] ++ show_hex c ++ [125].
Definition esc_text (t : text) : list N := flat_map esc_cp t.

(* ASCII string literals for result lines *)
Definition ascii_of_string (s : String.string) : list N :=
  List.map Ascii.N_of_ascii (String.list_ascii_of_string s).
