(* Transform.v — PLACEHOLDER for marwood/src/vm/transform.rs (work package "mac").
   Interface used by Compile.v:
     transform_try_new : cell -> out transform          (Transform::try_new on a (define-syntax ...) form)
     transform_apply   : nat -> transform -> cell -> out cell   (Transform::transform with fuel)     *)
From MW Require Import Model.Base Model.Num Model.Datum Model.TransformDef.

Definition transform_try_new (e : cell) : out transform := Err E_OTHER.
Definition transform_apply (fuel : nat) (tr : transform) (e : cell) : out cell := Err E_OTHER.
