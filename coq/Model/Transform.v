(* Transform.v — model of marwood/src/vm/transform.rs (syntax-rules) AS WRITTEN over
   [cell], and of the recursive expansion driver of marwood/src/vm/compile.rs:78-118.
   Executable definitions only (no proofs).

   Iterators.  [Cell::iter] (cell.rs:99-101, 304-333) walks the cdr chain, yields every
   car, and yields an improper tail (a non-pair, non-nil last cdr) as one more element;
   called on a non-pair, non-nil cell it yields that cell once.  An iterator is therefore
   modelled by the list of elements it has still to yield ([elems] of its [next] field);
   [Peekable::peek] is the head of that list, [ExactSizeIterator::len] its length
   (size_hint = remaining elements + the peeked one).

   Outcomes.  Definition-time analysis is structurally recursive in the Rust and in the
   model (no fuel).  [pattern_match] recurses on elements of the pattern (structural in
   the Rust); the model takes a nesting fuel only because the "current pattern" travels
   through loop state ([pm_fuel] always suffices, proved in Proofs/TransformProofs.v).
   [expand] re-expands one template element for as long as it yields [Some]: that loop
   is not structural and has no measure in general; [NoFuel] stands for a hang.       *)
From Coq Require Import String.
From MW Require Import Model.Base Model.F64 Model.Num Model.Datum Model.TransformDef.
Open Scope N_scope.

(* ------------------------------------------------------------------ cell helpers *)
(* #[derive(PartialEq)] on Cell (cell.rs:9).  Number equality is number.rs:334-399
   (by value across representations); only the integer representations are modelled
   here (the reader model produces no others), the remaining pairs are compared
   representation by representation. *)
Definition num_eqb (a b : num) : bool :=
  match a, b with
  | Fixnum x, Fixnum y | Fixnum x, BigInt y | BigInt x, Fixnum y | BigInt x, BigInt y => Z.eqb x y
  | Rational n d, Rational n' d' => Z.eqb n n' && Z.eqb d d'
  | Float x, Float y => f64_eqb x y
  | _, _ => false
  end.

Definition text_eqb (a b : text) : bool := if list_eq_dec N.eq_dec a b then true else false.

Definition opt_text_eqb (a b : option text) : bool :=
  match a, b with
  | Some x, Some y => text_eqb x y
  | None, None => true
  | _, _ => false
  end.

Fixpoint cell_eqb (a b : cell) {struct a} : bool :=
  match a, b with
  | CBool x, CBool y => Bool.eqb x y
  | CChar x, CChar y => x =? y
  | CNil, CNil => true
  | CNum x, CNum y => num_eqb x y
  | CPair a1 d1, CPair a2 d2 => cell_eqb a1 a2 && cell_eqb d1 d2
  | CStr x, CStr y => text_eqb x y
  | CSym x, CSym y => text_eqb x y
  | CVec l1, CVec l2 =>
      (fix veq (l1 l2 : list cell) {struct l1} : bool :=
         match l1, l2 with
         | [], [] => true
         | x :: r1, y :: r2 => cell_eqb x y && veq r1 r2
         | _, _ => false
         end) l1 l2
  | CCont, CCont | CMacro, CMacro | CUndef, CUndef | CVoid, CVoid => true
  | CProc x, CProc y => opt_text_eqb x y
  | _, _ => false
  end.

Definition is_pair (c : cell) : bool := match c with CPair _ _ => true | _ => false end.
Definition is_nil (c : cell) : bool := match c with CNil => true | _ => false end.
Definition is_symbol (c : cell) : bool := match c with CSym _ => true | _ => false end.

(* Cell::iter / collect_vec: the elements, an improper tail counted as an element *)
Fixpoint elems (c : cell) : list cell :=
  match c with
  | CPair a d => a :: elems d
  | CNil => []
  | other => [other]
  end.

(* the last cdr of a chain *)
Fixpoint last_cdr (c : cell) : cell :=
  match c with CPair _ d => last_cdr d | other => other end.
(* cell.rs:127-155 *)
Definition is_list (c : cell) : bool := is_pair c && is_nil (last_cdr c).
Definition is_improper_list (c : cell) : bool := is_pair c && negb (is_nil (last_cdr c)).

Definition car_ (c : cell) : out cell := match c with CPair a _ => Ok a | _ => Err E_OTHER end.  (* car! *)
Definition cdr_ (c : cell) : out cell := match c with CPair _ d => Ok d | _ => Err E_OTHER end.  (* cdr! *)

Definition mem_cell (c : cell) (l : list cell) : bool := existsb (fun it => cell_eqb it c) l.

Definition peek_is (x : cell) (it : list cell) : bool :=
  match it with y :: _ => cell_eqb y x | [] => false end.

Definition UNDERSCORE : cell := CSym [95].
Definition DOTS : cell := CSym [46;46;46].
Definition SYNTAX_RULES : cell := CSym (S_ "syntax-rules"%string).

(* ------------------------------------------------------------ Pattern (38-153) *)
Definition is_ellipsis (p : pattern) (c : cell) : bool := cell_eqb c (p_ellipsis p).   (* 57-59 *)
Definition is_literal (p : pattern) (c : cell) : bool := mem_cell c (p_literals p).    (* 61-63 *)
Definition is_variable (p : pattern) (c : cell) : bool := mem_cell c (p_variables p).  (* 65-67 *)
Definition is_expanded_variable (p : pattern) (c : cell) : bool :=                     (* 69-71 *)
  mem_cell c (p_expanded_variables p).
Definition is_variable_candidate (p : pattern) (c : cell) : bool :=                    (* 73-78 *)
  is_symbol c && negb (is_literal p c) && negb (is_ellipsis p c)
  && negb (cell_eqb c (p_underscore p)).

Definition push_variable (p : pattern) (c : cell) : pattern :=
  mk_pattern (p_expr p) (p_variables p ++ [c]) (p_expanded_variables p) (p_ellipsis p)
             (p_literals p) (p_underscore p).
Definition push_expanded (p : pattern) (c : cell) : pattern :=
  mk_pattern (p_expr p) (p_variables p) (p_expanded_variables p ++ [c]) (p_ellipsis p)
             (p_literals p) (p_underscore p).

(* find_expanded_variables, 136-152: `for it in expr` is the same iterator (an improper
   tail is visited as an element) *)
Fixpoint find_expanded_variables (expr : cell) (p : pattern) {struct expr} : pattern :=
  match expr with
  | CSym _ =>
      if is_variable_candidate p expr && negb (mem_cell expr (p_expanded_variables p))
      then push_expanded p expr else p
  | CPair a d =>
      (fix walk (rest : cell) (p : pattern) {struct rest} : pattern :=
         match rest with
         | CPair it rest' => walk rest' (find_expanded_variables it p)
         | CNil => p
         | other => find_expanded_variables other p
         end) d (find_expanded_variables a p)
  | _ => p
  end.

(* the head of the iterator positioned at [rest]: Peekable::peek *)
Definition peek_cell (rest : cell) : option cell :=
  match rest with CPair x _ => Some x | CNil => None | other => Some other end.
Definition ellipsis_next (p : pattern) (rest : cell) : bool :=
  match peek_cell rest with Some c => is_ellipsis p c | None => false end.

(* the body of the `while let` of build for a Symbol element, 91-123:
   None = `continue` after counting an ellipsis *)
Definition build_symbol (p : pattern) (it : cell) (idx len : N) (improper enext : bool) (ect : N)
  : out (pattern * N) :=
  if is_ellipsis p it then
    if (idx =? 0) || ((idx =? len - 1) && improper) then Err E_OTHER
    else let ect1 := ect + 1 in                       (* ellipsis_ct += 1 *)
         if 1 <? ect1 then Err E_OTHER else Ok (p, ect1)
  else
    do p1 <- (if is_variable_candidate p it then
                if is_variable p it then Err E_OTHER else Ok (push_variable p it)
              else if enext then Err E_OTHER else Ok p);
    Ok (if enext then find_expanded_variables it p1 else p1, ect).

(* Pattern::build, 80-134.  [expr.iter().enumerate().peekable()] walks the chain; the
   recursive call ([rec]) is on an element that is a pair (an improper tail is never a
   pair).  The loop is written with the recursive function as a parameter so that it has
   a name of its own. *)
Definition build_loop (rec : cell -> pattern -> out pattern) (len : N) (improper : bool) :=
  fix loop (rest : cell) (idx : N) (ect : N) (p : pattern) {struct rest} : out pattern :=
    match rest with
    | CNil => Ok p
    | CPair it rest' =>
        let enext := ellipsis_next p rest' in
        match it with
        | CSym _ =>
            do (p1, ect1) <- build_symbol p it idx len improper enext ect;
            loop rest' (idx + 1) ect1 p1
        | CPair _ _ =>
            let p1 := if enext then find_expanded_variables it p else p in
            do p2 <- rec it p1;
            loop rest' (idx + 1) ect p2
        | _ => loop rest' (idx + 1) ect p
        end
    | other =>
        (* the improper tail, yielded as the last element (peek = None), or a non-pair
           [expr], which its own iterator yields once (idx 0, len 1) *)
        match other with
        | CSym _ => do (p1, _) <- build_symbol p other idx len improper false ect; Ok p1
        | _ => Ok p
        end
    end.

Fixpoint build (expr : cell) (p : pattern) {struct expr} : out pattern :=
  build_loop build (N.of_nat (length (elems expr))) (is_improper_list expr) expr 0 0 p.

(* Pattern::try_new, 39-55 *)
Definition pattern_try_new (expr ellipsis : cell) (literals : list cell) : out pattern :=
  if negb (is_pair expr) then Err E_OTHER else
  let p := mk_pattern expr [] [] ellipsis literals UNDERSCORE in
  do d <- cdr_ expr;
  build d p.

(* -------------------------------------------------- check_template_syntax (249-283) *)
(* Models the REPAIRED code (fix F15, see [expands] below); the pinned code is the same
   without the [expands] test. *)
(* the Symbol arm of the loop body, 265-278 *)
Definition cts_symbol (p : pattern) (ellipsis : cell) (t : cell) (improper : bool)
    (peek : option cell) (eip : bool) : out bool :=
  let peek_ell := match peek with Some c => cell_eqb c ellipsis | None => false end in
  if negb (is_variable p t) && peek_ell then Err E_OTHER
  else if cell_eqb t ellipsis then
    if eip || (improper && match peek with None => true | Some _ => false end) then Err E_OTHER
    else Ok true
  else Ok eip.

(* [expands], added by the F15 fix (repo branch wp-mac, a436e50): can expanding the
   element run out of bindings — is it, or does it contain outside of a nested ellipsis,
   a variable bound under an ellipsis in the pattern? *)
Definition followed_by (ellipsis : cell) (rest : cell) : bool :=       (* iter.peek() == Some(&ellipsis) *)
  match peek_cell rest with Some c => cell_eqb c ellipsis | None => false end.

Definition expands_atom (p : pattern) (t : cell) : bool :=
  match t with CSym _ => is_expanded_variable p t | _ => false end.
Fixpoint expands (p : pattern) (ellipsis : cell) (t : cell) {struct t} : bool :=
  match t with
  | CSym _ => is_expanded_variable p t
  | CPair _ _ =>
      (fix walk (rest : cell) {struct rest} : bool :=
         match rest with
         | CPair it rest' =>
             if negb (followed_by ellipsis rest') && expands p ellipsis it then true
             else walk rest'
         | CNil => false
         | other => expands_atom p other      (* the improper tail: peek = None *)
         end) t
  | _ => false
  end.

(* the `while let` of 262-281, the recursive function as a parameter *)
Definition cts_loop (rec : cell -> out unit) (p : pattern) (ellipsis : cell) (improper : bool) :=
  fix loop (rest : cell) (eip : bool) {struct rest} : out unit :=
    match rest with
    | CNil => Ok tt
    | CPair t rest' =>
        (* F15 fix: the element before an ellipsis must be able to run out of bindings *)
        if followed_by ellipsis rest' && negb (expands p ellipsis t) then Err E_OTHER else
        match t with
        | CPair _ _ => do _ <- rec t; loop rest' eip
        | CSym _ => do eip1 <- cts_symbol p ellipsis t improper (peek_cell rest') eip; loop rest' eip1
        | _ => loop rest' eip
        end
    | other =>
        (* an improper tail, or a non-pair template (yielded once by its own iterator) *)
        match other with
        | CSym _ => do _ <- cts_symbol p ellipsis other improper None eip; Ok tt
        | _ => Ok tt
        end
    end.

Fixpoint check_template_syntax (template : cell) (p : pattern) (ellipsis : cell)
    {struct template} : out unit :=
  if (match template with CPair a _ => cell_eqb a ellipsis | _ => false end) then Err E_OTHER  (* 258-260 *)
  else cts_loop (fun t => check_template_syntax t p ellipsis) p ellipsis
                (is_improper_list template) template false.

(* ------------------------------------------------------ Transform::try_new (174-230) *)
Definition all_symbols (l : list cell) : bool := forallb is_symbol l.

Fixpoint build_rules (rules : list cell) (ellipsis : cell) (literals : list cell)
  : out (list (pattern * cell)) :=
  match rules with
  | [] => Ok []
  | it :: rest =>
      do pat <- car_ it;
      do d <- cdr_ it;
      do template <- car_ d;
      do p <- pattern_try_new pat ellipsis literals;
      do _ <- check_template_syntax template p ellipsis;
      do r <- build_rules rest ellipsis literals;
      Ok ((p, template) :: r)
  end.

Definition transform_try_new (expr : cell) : out transform :=
  match elems expr with
  | [_; keyword; syntax_rules] =>
      if negb (is_symbol keyword) then Err E_OTHER else
      do head <- car_ syntax_rules;
      if negb (cell_eqb head SYNTAX_RULES) then Err E_OTHER else
      do sr1 <- cdr_ syntax_rules;
      do c1 <- car_ sr1;
      do (ellipsis, sr2) <- (match c1 with
                             | CSym _ => do d <- cdr_ sr1; Ok (c1, d)
                             | _ => Ok (DOTS, sr1)
                             end);
      do lits <- car_ sr2;
      let literals := elems lits in
      if negb (all_symbols literals) then Err E_OTHER else
      do sr3 <- cdr_ sr2;
      do rules <- build_rules (elems sr3) ellipsis literals;
      Ok (mk_transform keyword ellipsis rules literals)
  | _ => Err E_OTHER
  end.

Definition transform_keyword (tr : transform) : cell := tr_keyword tr.     (* 239-241 *)

(* ------------------------------------------------------- pattern_match (323-419) *)
Definition bindings := list (cell * cell).        (* PatternEnvironment.bindings, 488 *)

Section Match.
Variable literals : list cell.       (* self.literals *)
Variable ellipsis : cell.            (* self.ellipsis *)

Definition tr_is_literal (c : cell) : bool := mem_cell c literals.       (* 235-237 *)

(* expr_iter.next() returned None, 354-369 *)
Definition pm_end (in_ellipsis : bool) (pit : list cell) : bool :=
  let pit1 := if in_ellipsis then tl pit else pit in
  match pit1 with
  | [] => true
  | _ :: pit2 =>
      if peek_is ellipsis pit2 then match tl pit2 with [] => true | _ => false end
      else false
  end.

(* "Get the next pattern", 375-393 *)
Inductive pm_sel := SelReturn (b : bool) | SelPattern (cur : cell) (pit : list cell).
Definition pm_select (in_ellipsis : bool) (pit : list cell) (cur : cell) (expr_len : nat) : pm_sel :=
  if in_ellipsis then
    if Nat.eqb (length pit) (expr_len + 2) then
      match tl pit with
      | p :: pit' => SelPattern p pit'
      | [] => SelReturn (Nat.eqb expr_len 0)
      end
    else SelPattern cur pit
  else
    match pit with
    | p :: pit' => SelPattern p pit'
    | [] => SelReturn false
    end.

(* the `loop` of 345-418; [rec] is the recursive call of 408 *)
Definition pm_loop (rec : cell -> cell -> bindings -> out (option bindings)) :=
  fix loop (eit : list cell) (pit : list cell) (cur : cell) (in_ellipsis : bool)
           (env : bindings) {struct eit} : out (option bindings) :=
    match eit with
    | [] => Ok (if pm_end in_ellipsis pit then Some env else None)
    | e :: eit' =>
        match pm_select in_ellipsis pit cur (length eit') with
        | SelReturn b => Ok (if b then Some env else None)
        | SelPattern cur' pit' =>
            let in_ellipsis' := peek_is ellipsis pit' in          (* 395 *)
            match cur' with
            | CSym _ =>
                if tr_is_literal cur' then
                  if negb (cell_eqb cur' e) then Ok None
                  else loop eit' pit' cur' in_ellipsis' env
                else if negb (cell_eqb cur' UNDERSCORE) then
                  loop eit' pit' cur' in_ellipsis' (env ++ [(cur', e)])   (* add_binding *)
                else loop eit' pit' cur' in_ellipsis' env
            | CPair _ _ =>
                do r <- rec cur' e env;
                match r with
                | Some env' => loop eit' pit' cur' in_ellipsis' env'
                | None => Ok None
                end
            | _ =>
                if negb (cell_eqb cur' e) then Ok None
                else loop eit' pit' cur' in_ellipsis' env
            end
        end
    end.

(* the two guards of 330-335 *)
Definition pm_guard (pattern expr : cell) : bool :=
  ((is_pair pattern || is_nil pattern) && negb (is_pair expr || is_nil expr))
  || (is_pair expr && is_pair pattern && negb (Bool.eqb (is_list expr) (is_list pattern))).

Fixpoint pattern_match (fuel : nat) (pattern expr : cell) (env : bindings) {struct fuel}
  : out (option bindings) :=
  match fuel with
  | O => NoFuel
  | S f =>
      if pm_guard pattern expr then Ok None
      else pm_loop (pattern_match f) (elems expr) (elems pattern) CNil false env
  end.
End Match.

(* nesting depth of pairs through cars: the fuel pattern_match needs *)
Fixpoint car_depth (c : cell) : nat :=
  match c with
  | CPair a d => Nat.max (S (car_depth a)) (car_depth d)
  | _ => O
  end.
Definition pm_fuel (pattern : cell) : nat := S (S (car_depth pattern)).

(* ------------------------------------------------- PatternEnvironment (486-557) *)
Definition iters := list (cell * option N).

Definition env_new (p : pattern) : iters := map (fun it => (it, None)) (p_expanded_variables p).

Fixpoint iters_find (its : iters) (sym : cell) : option (option N) :=
  match its with
  | [] => None
  | (k, v) :: r => if cell_eqb k sym then Some v else iters_find r sym
  end.
Fixpoint iters_set (its : iters) (sym : cell) (v : option N) : iters :=
  match its with
  | [] => []
  | (k, v0) :: r => if cell_eqb k sym then (k, v) :: r else (k, v0) :: iters_set r sym v
  end.

(* position and value of the first binding of [sym] *)
Fixpoint find_binding (bs : bindings) (sym : cell) (k : N) : option (N * cell) :=
  match bs with
  | [] => None
  | (p, e) :: r => if cell_eqb p sym then Some (k, e) else find_binding r sym (k + 1)
  end.

(* get_expanded_binding, 529-556 *)
Definition get_expanded_binding (bs : bindings) (its : iters) (sym : cell)
  : out (option cell * iters) :=
  match iters_find its sym with
  | None => Ok (None, its)
  | Some pos =>
      let start := match pos with Some p => p | None => 0 end in
      if N.of_nat (length bs) <? start then Panic 542      (* slice start beyond the end *)
      else
        match find_binding (skipn (N.to_nat start) bs) sym 0 with
        | Some (k, v) => Ok (Some v, iters_set its sym (Some (start + k + 1)))
        | None => Ok (None, iters_set its sym None)
        end
  end.

(* get_binding, 516-527 *)
Definition get_binding (p : pattern) (bs : bindings) (its : iters) (sym : cell)
  : out (option cell * iters) :=
  if negb (is_variable p sym) then Ok (None, its)
  else if is_expanded_variable p sym then get_expanded_binding bs its sym
  else Ok (option_map snd (find_binding bs sym 0), its).

(* ----------------------------------------------------------- expand (430-477) *)
Section Expand.
Variable ellipsis : cell.
Variable p : pattern.
Variable bs : bindings.

Fixpoint expand (fuel : nat) (template : cell) (its : iters) {struct fuel}
  : out (option cell * iters) :=
  match fuel with
  | O => NoFuel
  | S f =>
      match template with
      | CSym _ =>
          if is_variable p template then get_binding p bs its template
          else Ok (Some template, its)
      | CPair _ _ =>
          match elems template with
          | [] => Panic 447                              (* template_iter.next().unwrap() *)
          | t0 :: tit => expand_loop f t0 tit [] its
          end
      | c => Ok (Some c, its)
      end
  end
(* the `loop` of 449-472: [t] current element, [tit] the iterator, [v] the output vector *)
with expand_loop (fuel : nat) (t : cell) (tit : list cell) (v : list cell) (its : iters)
    {struct fuel} : out (option cell * iters) :=
  match fuel with
  | O => NoFuel
  | S f =>
      let in_ellipsis := peek_is ellipsis tit in
      do (r, its1) <- expand f t its;
      match r with
      | Some c =>
          if in_ellipsis then expand_loop f t tit (v ++ [c]) its1          (* continue *)
          else match tit with
               | t' :: tit' => expand_loop f t' tit' (v ++ [c]) its1
               | [] => Ok (Some (new_list (v ++ [c])), its1)
               end
      | None =>
          if negb in_ellipsis then Ok (None, its1)
          else match tl tit with
               | t' :: tit' => expand_loop f t' tit' v its1
               | [] => Ok (Some (new_list v), its1)
               end
      end
  end.
End Expand.

Fixpoint cell_size (c : cell) : nat :=
  match c with
  | CPair a d => S (cell_size a + cell_size d)
  | _ => 1%nat
  end.

(* fuel handed to [expand] by the entry points: far above what any terminating run of
   the generated cases needs (Proofs/TransformProofs.v gives the bound on the supported
   fragment); running out of it stands for the hang of the real loop *)
Definition expand_fuel (template : cell) (bs : bindings) : nat :=
  (4 * (cell_size template + 2) * (length bs + 3))%nat.

(* ------------------------------------------------ Transform::transform (293-312) *)
(* [extra]: additional expand fuel on top of [expand_fuel] (0 in this package) *)
Fixpoint transform_rules (extra : nat) (tr : transform) (rules : list (pattern * cell)) (expr : cell)
  : out cell :=
  match rules with
  | [] => Err E_OTHER                                  (* no matching syntax *)
  | (pat, template) :: rest =>
      do pd <- cdr_ (p_expr pat);
      do ed <- cdr_ expr;
      do m <- pattern_match (tr_literals tr) (tr_ellipsis tr) (pm_fuel pd) pd ed [];
      match m with
      | Some bs =>
          do (r, _) <- expand (tr_ellipsis tr) pat bs (expand_fuel template bs + extra) template (env_new pat);
          match r with
          | Some c => Ok c
          | None => Err E_OTHER
          end
      | None => transform_rules extra tr rest expr
      end
  end.

Definition transform_apply_fuel (extra : nat) (tr : transform) (expr : cell) : out cell :=
  if negb (is_pair expr) then Err E_OTHER
  else transform_rules extra tr (tr_rules tr) expr.
Definition transform_apply (tr : transform) (expr : cell) : out cell :=
  transform_apply_fuel 0 tr expr.

(* ------------------------------ the expansion driver, compile.rs:78-118 *)
(* [lookup] stands for heap.get_sym_ref + globenv lookup: Some for a symbol currently
   bound to a macro.  The re-expansion of an expansion is not structural: fuel. *)
Section Driver.
Variable lookup : cell -> option transform.

Fixpoint vm_transform (fuel : nat) (expr : cell) {struct fuel} : out cell :=
  match fuel with
  | O => NoFuel
  | S f =>
      match expr with
      | CPair proc rest =>
          (* transform_procedure_application, 86-118 *)
          if sym_is proc QUOTE || sym_is proc (S_ "define-syntax"%string) then Ok expr
          else
            match (match proc with CSym _ => lookup proc | _ => None end) with
            | Some tr =>
                do expansion <- transform_apply tr expr;
                vm_transform f expansion
            | None =>
                do p0 <- vm_transform f proc;
                (fix args (rest : cell) (v : list cell) {struct rest} : out cell :=
                   match rest with
                   | CPair a rest' => do a' <- vm_transform f a; args rest' (v ++ [a'])
                   | CNil => Ok (new_list v)
                   | other => do r <- vm_transform f other; Ok (new_improper_list v r)
                   end) rest [p0]
            end
      | c => Ok c
      end
  end.
End Driver.

(* stable entry point for other packages: expansion of one use by one transformer *)
(* (the expand fuel is [expand_fuel template bindings + fuel]; NoFuel = the real loop hangs) *)
Definition transform_expand (tr : transform) (expr : cell) (fuel : nat) : out cell :=
  transform_apply_fuel fuel tr expr.
