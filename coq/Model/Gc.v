(* Gc.v — the collector of marwood: the two-bit packed state map (vm/gc.rs), Heap::free,
   mark, mark_vcell, mark_continuation, mark_lambda, sweep (vm/heap.rs:76-83, 335-511)
   and Vm::run_gc (vm/run.rs:482-508), as written.  Executable definitions only; the
   specification (refs/children/reach) and the proofs are in Proofs/GcProofs.v.        *)
From Coq Require Import ZArith FMapPositive.
From Flocq Require Import IEEE754.BinarySingleNaN.
From MW Require Import Model.Base Model.F64 Model.Num Model.Datum Model.TransformDef
  Model.VmTypes Model.Heap Model.VmBase.
Open Scope N_scope.

(* ===================================================================== gc.rs *)
(* gc.rs:14-17: Map { size, map: Vec<u8> }, four two-bit states per byte *)
Record pmap := mk_pmap { pm_size : N; pm_bytes : list N }.

(* gc.rs:42-50 State::bits, gc.rs:52-61 From<u8> *)
Definition state_bits (s : gcstate) : N :=
  match s with GFree => 0 | GAllocated => 1 | GUsed => 2 end.
Definition state_of_bits (b : N) : out gcstate :=
  match b with
  | 0 => Ok GFree | 1 => Ok GAllocated | 2 => Ok GUsed
  | _ => Panic 61                                  (* "invalid gc state" *)
  end.

(* gc.rs:69-75 Map::new *)
Definition pmap_new (size : N) : out pmap :=
  if size mod 4 =? 0 then Ok (mk_pmap size (repeat 0 (N.to_nat (size / 4))))
  else Panic 60.                                   (* assert_eq!(size % 4, 0) *)

(* Vec::resize(n, 0) *)
Definition vec_resize (l : list N) (n : nat) : list N :=
  firstn n l ++ repeat 0 (n - length l).
(* gc.rs:80-84 Map::resize *)
Definition pmap_resize (m : pmap) (size : N) : out pmap :=
  if size mod 4 =? 0 then Ok (mk_pmap size (vec_resize (pm_bytes m) (N.to_nat (size / 4))))
  else Panic 60.

(* gc.rs:93-98 Map::get: None when index/4 is outside the byte vector; the
   conversion of the bit pair 0b11 panics *)
Definition pmap_get (m : pmap) (index : N) : out (option gcstate) :=
  match nth_error (pm_bytes m) (N.to_nat (index / 4)) with
  | None => Ok None
  | Some byte =>
      do s <- state_of_bits (N.land (N.shiftr byte ((index mod 4) * 2)) 3); Ok (Some s)
  end.

Fixpoint list_upd (l : list N) (i : nat) (v : N) : list N :=
  match l, i with
  | [], _ => []
  | _ :: r, O => v :: r
  | x :: r, S k => x :: list_upd r k v
  end.

(* gc.rs:109-119 Map::set; u8 arithmetic: mask and flag fit in a byte, !mask = 255 - mask *)
Definition pmap_set (m : pmap) (index : N) (s : gcstate) : out pmap :=
  match nth_error (pm_bytes m) (N.to_nat (index / 4)) with
  | Some byte =>
      let mask := N.shiftl 3 ((index mod 4) * 2) in
      let flag := N.shiftl (state_bits s) ((index mod 4) * 2) in
      let byte1 := N.land byte (255 - mask) in
      let byte2 := N.lor byte1 flag in
      Ok (mk_pmap (pm_size m) (list_upd (pm_bytes m) (N.to_nat (index / 4)) byte2))
  | None => Panic 62                               (* "invalid gc index" *)
  end.

(* gc.rs:121-127 *)
Definition pmap_mark (m : pmap) (index : N) : out pmap := pmap_set m index GUsed.
Definition pmap_is_marked (m : pmap) (index : N) : out bool :=
  do s <- pmap_get m index;
  Ok (match s with Some GUsed => true | _ => false end).

(* =========================================================== abstract state map *)
(* The heap record carries the map as a table (absent entry = Free); Proofs/GcProofs.v
   shows that the packed map refines it ([pmap_get_set]). *)
Definition gmap := tbl gcstate.
Definition g_get (m : gmap) (i : N) : gcstate :=
  match tget m i with Some x => x | None => GFree end.
Definition g_is_used (m : gmap) (i : N) : bool :=
  match g_get m i with GUsed => true | _ => false end.

(* self.heap.get(ptr) for ptr < len *)
Definition cell_at (h : heap) (p : N) : vcell :=
  match tget (cells h) p with Some v => v | None => VUndef end.

Definition set_gcmap (h : heap) (m : gmap) : heap :=
  mk_heap (cells h) (hlen h) (free_list h) m (symtab h) (chunk h).

(* ============================================================ Heap::free 76-83 *)
(* heap_map.set panics on an invalid index; the symbol-table entry is removed BY NAME *)
Definition heap_free (h : heap) (ptr : N) : out heap :=
  if ptr <? hlen h then
    let st := match cell_at h ptr with
              | VSym sym => symtab_remove (symtab h) sym
              | _ => symtab h
              end in
    Ok (mk_heap (tset (cells h) ptr VUndef) (hlen h) (ptr :: free_list h)
                (tset (gcmap h) ptr GFree) st (chunk h))
  else Panic 62.

(* ================================================================== marking *)
Section Mark.
Variable h : heap.     (* cells and length are not modified while marking *)
Variable s : store.

(* sequential marking of values / addresses *)
Fixpoint mark_list (f : vcell -> gmap -> out gmap) (l : list vcell) (m : gmap) : out gmap :=
  match l with
  | [] => Ok m
  | v :: r => do m1 <- f v m; mark_list f r m1
  end.
Fixpoint mark_addrs (f : N -> gmap -> out gmap) (l : list N) (m : gmap) : out gmap :=
  match l with
  | [] => Ok m
  | a :: r => do m1 <- f a m; mark_addrs f r m1
  end.

Section MarkVcell.
(* Heap::mark, passed in so that mark_vcell can be used both inside [mark] (at a
   smaller fuel) and for the roots *)
Variable mark_rec : N -> gmap -> out gmap.

(* heap.rs:407-456 mark_vcell, with mark_continuation (461-467) and mark_lambda
   (472-487) inlined at their call sites.  [vf] bounds the nesting of Rc payloads
   inside Rc payloads (a vector value inside a vector, a continuation on a saved
   stack, ...): the Rust recursion does not terminate on an Rc cycle.  A missing
   payload id cannot occur in Rust (an Rc is always valid): Panic 63. *)
Fixpoint mark_vcell_f (vf : nat) (v : vcell) (m : gmap) : out gmap :=
  match vf with
  | O => NoFuel
  | S vf' =>
      match v with
      | VIp lambda _ => mark_rec lambda m
      | VCont cid =>
          match tget (conts s) cid with
          | None => Panic 63
          | Some k =>
              (* mark_continuation: every slot of the saved stack, then ip.0, then ep *)
              do m1 <- mark_list (mark_vcell_f vf') (k_stack k) m;
              do m2 <- mark_rec (fst (k_ip k)) m1;
              mark_rec (k_ep k) m2
          end
      | VLambda lid =>
          match tget (lams s) lid with
          | None => Panic 63
          | Some lam =>
              (* mark_lambda: bytecode, formal arguments, envmap keys *)
              do m1 <- mark_list (mark_vcell_f vf') (l_bc lam) m;
              do m2 <- mark_list (mark_vcell_f vf') (l_args lam) m1;
              mark_list (mark_vcell_f vf') (map fst (l_envmap lam)) m2
          end
      | VClosure lambda env => do m1 <- mark_rec lambda m; mark_rec env m1
      | VPair car cdr => do m1 <- mark_rec car m; mark_rec cdr m1
      | VPtr ptr => mark_rec ptr m
      | VLexPtr ptr _ => mark_rec ptr m
      | VVec vid =>
          match tget (vecs s) vid with
          | None => Panic 63
          | Some l => mark_list (mark_vcell_f vf') l m
          end
      | VEp ep => mark_rec ep m
      | VAcc | VArgc _ | VBp _ | VBpOff _ | VBool _ | VChar _ | VGSlot _ | VLexEnv _
      | VLexSlot _ | VNil | VNum _ | VOp _ | VStr _ | VSym _ | VBuiltin _ | VMacro _
      | VUndef | VVoid => Ok m
      end
  end.
End MarkVcell.

(* heap.rs:335-405 Heap::mark.  The Rust function loops along Pair-cdr and Ptr and
   recurses for everything else; the loop iteration is the tail call here.  It
   returns when the index is outside the heap or the cell is already marked.
   [vd] is the payload-nesting bound handed to mark_vcell. *)
Fixpoint mark (vd : nat) (fuel : nat) (ptr : N) (m : gmap) : out gmap :=
  match fuel with
  | O => NoFuel
  | S f =>
      if negb (ptr <? hlen h) then Ok m                  (* self.heap.get(ptr) = None *)
      else
        let vcell := cell_at h ptr in
        if g_is_used m ptr then Ok m                     (* is_marked *)
        else
          let m := tset m ptr GUsed in                   (* heap_map.mark(ptr) *)
          match vcell with
          | VPair car cdr => do m1 <- mark vd f car m; mark vd f cdr m1   (* ptr = cdr *)
          | VPtr cdr => mark vd f cdr m                                  (* ptr = cdr *)
          | VCont _ => mark_vcell_f (mark vd f) (S vd) vcell m           (* mark_continuation *)
          | VLambda _ => mark_vcell_f (mark vd f) (S vd) vcell m         (* mark_lambda *)
          | VClosure lambda env => do m1 <- mark vd f lambda m; mark vd f env m1
          | VLexEnv eid =>
              match tget (envs s) eid with
              | None => Panic 63
              | Some l => mark_list (mark_vcell_f (mark vd f) vd) l m
              end
          | VVec _ => mark_vcell_f (mark vd f) (S vd) vcell m
          | VEp p => mark vd f p m
          | VAcc | VArgc _ | VBp _ | VBpOff _ | VBool _ | VChar _ | VBuiltin _ | VGSlot _
          | VLexSlot _ | VLexPtr _ _ | VIp _ _ | VNil | VNum _ | VOp _ | VStr _ | VSym _
          | VMacro _ | VUndef | VVoid => Ok m
          end
  end.
End Mark.

(* number of cells of the heap not marked Used: the fuel of [mark] (+ 1) *)
Fixpoint count_unmarked (m : gmap) (a : N) (n : nat) : nat :=
  match n with
  | O => O
  | S k => (if g_is_used m a then 0 else 1)%nat + count_unmarked m (a + 1) k
  end.
Definition unmarked (h : heap) (m : gmap) : nat := count_unmarked m 0 (N.to_nat (hlen h)).

(* a bound on the nesting of Rc payloads: an acyclic nesting visits each payload
   object at most once *)
Definition store_depth (s : store) : nat :=
  S (S (PositiveMap.cardinal (conts s) + PositiveMap.cardinal (lams s)
        + PositiveMap.cardinal (vecs s))).

(* ================================================================ sweep 497-511 *)
Fixpoint sweep_from (h : heap) (it : N) (n : nat) : out heap :=
  match n with
  | O => Ok h
  | S k =>
      do h1 <- match g_get (gcmap h) it with
               | GAllocated => heap_free h it
               | GUsed => Ok (set_gcmap h (tset (gcmap h) it GAllocated))
               | GFree => Ok h
               end;
      sweep_from h1 (it + 1) k
  end.
Definition sweep (h : heap) : out heap := sweep_from h 0 (N.to_nat (hlen h)).

(* ============================================================ run_gc 482-508 *)
(* heap.rs:530-532 used_size = capacity() - free_size(): usize subtraction *)
Definition used_size (prof : profile) (h : heap) : out N :=
  let fl := N.of_nat (length (free_list h)) in
  if fl <=? hlen h then Ok (hlen h - fl)
  else match prof with
       | Debug => Panic 64                             (* attempt to subtract with overflow *)
       | Release => Ok (hlen h + 18446744073709551616 - fl)
       end.

Definition f64_three_quarters : f64 := f64_of_Z2 3 (-2).     (* 0.75_f64 *)
Definition utilisation (used cap : N) : f64 :=
  f64_div (f64_of_Z (Z.of_N used)) (f64_of_Z (Z.of_N cap)).

(* filter_map(|it| it.as_ptr().ok()) over the global slots *)
Fixpoint slot_ptrs (l : list vcell) : list N :=
  match l with
  | [] => []
  | VPtr p :: r => p :: slot_ptrs r
  | _ :: r => slot_ptrs r
  end.

(* marking of the roots in the order of run.rs:487-501.  [order] stands for the
   iteration order of the bindings HashMap (a permutation of its keys). *)
Definition mark_roots (vd fuel : nat) (order : list N) (v : vm) (m0 : gmap) : out gmap :=
  let h := hp v in
  let mk := mark h (st v) vd fuel in
  let mv := mark_vcell_f (st v) mk (S vd) in
  do m1 <- mark_addrs mk order m0;
  do m2 <- mark_addrs mk (slot_ptrs (g_slots v)) m1;
  (* self.stack[0..self.sp + 1] *)
  do stk <- (if sp v <? scap v then Ok (stack_to_sp v) else Panic 65);
  do m3 <- mark_list mv stk m2;
  do m4 <- mv (acc v) m3;
  do m5 <- mk (fst (ip v)) m4;
  mk (ep v) m5.

(* the collection proper: mark from the roots, sweep *)
Definition collect (vd fuel : nat) (order : list N) (v : vm) : out heap :=
  do m <- mark_roots vd fuel order v (gcmap (hp v));
  sweep (set_gcmap (hp v) m).

(* [forced] = the verification hook bypasses the first utilisation test *)
Definition vm_run_gc_with (prof : profile) (forced : bool) (order : list N) (v : vm) : out vm :=
  do u <- used_size prof (hp v);
  if negb forced && f64_ltb (utilisation u (hlen (hp v))) f64_three_quarters then Ok v
  else
    let fuel := S (unmarked (hp v) (gcmap (hp v))) in
    do h1 <- collect (store_depth (st v)) fuel order v;
    do u1 <- used_size prof h1;
    if f64_ltb f64_three_quarters (utilisation u1 (hlen h1))
    then Ok (with_heap v (heap_grow h1))
    else Ok (with_heap v h1).

Definition vm_run_gc (prof : profile) (v : vm) : out vm :=
  vm_run_gc_with prof false (map fst (g_bind v)) v.
