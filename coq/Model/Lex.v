(* Lex.v — model of marwood/src/lex.rs (scanner).  Definitions only.
   Each sub-scanner returns the characters it consumed and the rest of the input;
   byte spans are computed from the UTF-8 width of what was consumed, as the Rust
   computes them from [char_indices] offsets and [len_utf8].                     *)
From MW Require Import Model.Base.
Open Scope N_scope.

Inductive ttype := TChar | TDot | TFalse | TLeft | TNumber | TNumPrefix | TQuasi | TRight
  | TQuote | TString | TSymbol | TTrue | TUnquote | THashParen.
(* TokenType::WhiteSpace exists in lex.rs:23 but no scanner produces it. *)

Definition ttype_eqb (a b : ttype) : bool :=
  match a, b with
  | TChar, TChar | TDot, TDot | TFalse, TFalse | TLeft, TLeft | TNumber, TNumber
  | TNumPrefix, TNumPrefix | TQuasi, TQuasi | TRight, TRight | TQuote, TQuote
  | TString, TString | TSymbol, TSymbol | TTrue, TTrue | TUnquote, TUnquote
  | THashParen, THashParen => true
  | _, _ => false
  end.

Record token := mk_token { t_start : N; t_end : N; t_ty : ttype }.

(* lex.rs:313-347 *)
Definition is_initial_identifier (c : cp) :=
  is_alpha_latin1 c || (0xFF <? c) || mem c [33;36;37;38;42;47;92;58;60;61;62;63;94;95;126].
Definition is_special_subsequent (c : cp) := mem c [43;45;46;64;59].
Definition is_subsequent_identifier (c : cp) :=
  is_initial_identifier c || is_digit c || is_special_subsequent c.
Definition is_initial_number (c : cp) := is_digit c || (c =? 43) || (c =? 45).
Definition is_subsequent_number (c : cp) := is_digit c || is_hex c || (c =? 46) || (c =? 47).

(* longest prefix satisfying p: the `while let Some(..) = cur.peek()` loops *)
Fixpoint span (p : cp -> bool) (l : text) : text * text :=
  match l with
  | c :: r => if p c then let '(a, b) := span p r in (c :: a, b) else ([], l)
  | [] => ([], [])
  end.

(* scan_number, lex.rs:295-311, after the unconditionally consumed first char:
   the token degrades to Symbol when a non-number identifier char other than ';'
   is seen *)
Fixpoint scan_number_rest (l : text) (ty : ttype) : text * ttype * text :=
  match l with
  | c :: r =>
      if is_subsequent_number c then
        let '(a, ty', b) := scan_number_rest r ty in (c :: a, ty', b)
      else if is_subsequent_identifier c && negb (c =? 59) then
        let '(a, ty', b) := scan_number_rest r TSymbol in (c :: a, ty', b)
      else ([], ty, l)
  | [] => ([], ty, [])
  end.

(* scan_dot loop, lex.rs:169-183 *)
Fixpoint scan_dot_rest (l : text) (ty : ttype) : text * ttype * text :=
  match l with
  | c :: r =>
      let ty1 := if c =? 46 then TSymbol else ty in
      let check := match ty1 with
                   | TSymbol => is_subsequent_identifier c
                   | TNumber => is_subsequent_number c
                   | _ => false end in
      if check then let '(a, ty', b) := scan_dot_rest r ty1 in (c :: a, ty', b)
      else ([], ty1, l)
  | [] => ([], ty, [])
  end.

(* scan_string body, lex.rs:240-256: consumed includes the closing quote *)
Fixpoint scan_string_rest (l : text) (esc : bool) : option (text * text) :=
  match l with
  | c :: r =>
      if (c =? 34) && negb esc then Some ([c], r)
      else match scan_string_rest r ((c =? 92) && negb esc) with
           | Some (a, b) => Some (c :: a, b)
           | None => None
           end
  | [] => None
  end.

(* scan_comment, lex.rs:140-147: consumes through the newline *)
Fixpoint skip_comment (l : text) : text * text :=
  match l with
  | c :: r => if c =? 10 then ([c], r) else let '(a, b) := skip_comment r in (c :: a, b)
  | [] => ([], [])
  end.

Inductive step :=
| STok (ty : ttype) (consumed rest : text)
| SSkip (consumed rest : text)
| SErr (e : N).

(* one iteration of the loop of lex::scan, lex.rs:114-132 *)
Definition lex1 (c : cp) (r : text) : step :=
  if mem c [40;91;123] then STok TLeft [c] r
  else if mem c [41;93;125] then STok TRight [c] r
  else if c =? 39 then STok TQuote [c] r
  else if c =? 96 then STok TQuasi [c] r
  else if c =? 44 then STok TUnquote [c] r
  else if c =? 35 then
    match r with
    | [] => SErr E_OTHER
    | c2 :: r2 =>
        if c2 =? 116 then STok TTrue [c; c2] r2
        else if c2 =? 102 then STok TFalse [c; c2] r2
        else if c2 =? 40 then STok THashParen [c; c2] r2
        else if mem c2 [101;105;98;111;100;120] then STok TNumPrefix [c; c2] r2
        else if c2 =? 92 then
          match r2 with
          | [] => SErr E_INCOMPLETE
          | c3 :: r3 =>
              if negb (is_ascii_alpha c3) then STok TChar [c; c2; c3] r3
              else let '(a, b) := span is_ascii_alnum r3 in STok TChar (c :: c2 :: c3 :: a) b
          end
        else SErr E_OTHER
    end
  else if c =? 46 then
    let ty := match r with
              | c2 :: _ => if is_subsequent_number c2 then TNumber
                           else if is_subsequent_identifier c2 then TSymbol else TDot
              | [] => TDot end in
    let '(a, ty', b) := scan_dot_rest r ty in STok ty' (c :: a) b
  else if c =? 34 then
    match scan_string_rest r false with
    | Some (a, b) => STok TString (c :: a) b
    | None => SErr E_INCOMPLETE
    end
  else if is_initial_identifier c then
    let '(a, b) := span is_subsequent_identifier r in STok TSymbol (c :: a) b
  else if is_initial_number c then
    let '(a, ty, b) := scan_number_rest r TNumber in STok ty (c :: a) b
  else if c =? 59 then
    let '(a, b) := skip_comment r in SSkip (c :: a) b
  else if is_ws_latin1 c then SSkip [c] r
  else SErr E_OTHER.

Fixpoint scan_fuel (fuel : nat) (o : N) (l : text) : out (list token) :=
  match fuel with
  | O => NoFuel
  | S f =>
      match l with
      | [] => Ok []
      | c :: r =>
          match lex1 c r with
          | STok ty a b =>
              let e := o + blen a in
              do ts <- scan_fuel f e b; Ok (mk_token o e ty :: ts)
          | SSkip a b => scan_fuel f (o + blen a) b
          | SErr e => Err e
          end
      end
  end.

(* lex::scan *)
Definition scan (t : text) : out (list token) := scan_fuel (S (length t)) 0 t.

(* Token::span: &text[start..end] (panics off a boundary / out of range) *)
Definition slice (t : text) (s e : N) : out text :=
  if e <? s then Panic 1 else
  match take_bytes s t with
  | None => Panic 1
  | Some (_, r) =>
      match take_bytes (e - s) r with
      | None => Panic 1
      | Some (m, _) => Ok m
      end
  end.
Definition tok_span (t : text) (k : token) : out text := slice t (t_start k) (t_end k).
Definition slice_from (t : text) (s : N) : out text :=
  match take_bytes s t with None => Panic 1 | Some (_, r) => Ok r end.
