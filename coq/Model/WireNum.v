(* WireNum.v — wire interfaces of the "num" area (ids 10-29).
   [run_num c] receives the whole case (first element = interface id).

   A number travels as  0 s m (Fixnum)  1 s m (BigInt)  2 sn |n| sd |d| (Rational,
   as stored)  3 bits (Float);  4 stands for a non-number argument (#t).
     10 op a b        Number API, binary:  0 + 1 - 2 * 3 / 4 quotient 5 % 6 modulo
                      7 == 8 partial_cmp 9 < 10 <= 11 > 12 >=
     11 op a          Number API, unary: 0 abs 1 floor 2 ceil 3 truncate 4 round
                      5 numerator 6 denominator 7 to_exact 8 to_inexact 9 is_integer
                      10 to_i64 11 to_u64 12 to_u32 13 to_usize 14 to_f64 15 is_zero
     11 16 e a        pow(e)
     12 proc args..   the builtin procedure through Vm::eval of (proc args..)
     13 op ..         num-rational on Rational32::new_raw values (see [run_ratio])
   The model has no access to the build profile of the harness, so a result line is
   the Debug line, followed by `|` and the Release line when they differ.        *)
From Coq Require Import String ZArith.
From MW Require Import Model.Base Model.F64 Model.F64More Model.Num Model.Datum
  Model.Ratio32 Model.NumArith.
Open Scope N_scope.

Definition sgn (s m : N) : Z := if s =? 0 then Z.of_N m else - Z.of_N m.

Definition decode_num (l : list N) : option (num * list N) :=
  match l with
  | 0 :: s :: m :: r => Some (Fixnum (sgn s m), r)
  | 1 :: s :: m :: r => Some (BigInt (sgn s m), r)
  | 2 :: sn :: n :: sd :: d :: r => Some (Rational (sgn sn n) (sgn sd d), r)
  | 3 :: b :: r => Some (Float (f64_of_bits (Z.of_N b)), r)
  | _ => None
  end.
Definition decode_arg (l : list N) : option (arg * list N) :=
  match l with
  | 4 :: r => Some (AOther, r)
  | _ => match decode_num l with Some (n, r) => Some (ANum n, r) | None => None end
  end.
Fixpoint decode_args (fuel : nat) (l : list N) : option (list arg) :=
  match fuel with
  | O => None
  | S f =>
      match l with
      | [] => Some []
      | _ => match decode_arg l with
             | Some (a, r) => match decode_args f r with Some t => Some (a :: t) | None => None end
             | None => None
             end
      end
  end.

Definition show_f64 (f : f64) : list N :=
  if f64_is_nan f then S_ "nan" else show_hex (Z.to_N (f64_bits f)).
Definition show_num (n : num) : list N :=
  match n with
  | Fixnum z => S_ " fix " ++ show_Z z
  | BigInt z => S_ " big " ++ show_Z z
  | Rational a b => S_ " rat " ++ show_Z a ++ [47] ++ show_Z b
  | Float f => S_ " flo " ++ show_f64 f
  end.
Definition show_ratio (r : ratio) : list N := 32 :: show_Z (fst r) ++ [47] ++ show_Z (snd r).
Definition show_b (b : bool) : list N := if b then S_ " true" else S_ " false".
Definition show_cmp (c : comparison) : list N :=
  match c with Lt => S_ " Less" | Eq => S_ " Equal" | Gt => S_ " Greater" end.
Definition show_opt {A} (f : A -> list N) (o : option A) : list N :=
  match o with Some a => f a | None => S_ " none" end.
Definition show_Zs (z : Z) : list N := 32 :: show_Z z.
Definition show_res (r : res) : list N :=
  match r with RNum n => show_num n | RBool true => S_ " #t" | RBool false => S_ " #f" end.

Definition show_o {A} (f : A -> list N) (o : out A) : list N :=
  match o with
  | Ok a => S_ "OK" ++ f a
  | Err e => if e =? E_LIBM then S_ "LIBM" else S_ "ERR"
  | Panic _ => S_ "PANIC"
  | NoFuel => S_ "NOFUEL"
  end.

Definition eq_line (a b : list N) : bool := if list_eq_dec N.eq_dec a b then true else false.
(* both profiles on one line *)
Definition both (f : profile -> list N) : list N :=
  let d := f Debug in
  let r := f Release in
  if eq_line d r then d else d ++ [124] ++ r.

Definition run_binary (op : N) (a b : num) (p : profile) : list N :=
  match op with
  | 0 => show_o show_num (num_add p a b)
  | 1 => show_o show_num (num_sub p a b)
  | 2 => show_o show_num (num_mul p a b)
  | 3 => show_o show_num (num_div p a b)
  | 4 => show_o (show_opt show_num) (num_quotient p a b)
  | 5 => show_o (show_opt show_num) (num_rem p a b)
  | 6 => show_o (show_opt show_num) (num_modulo p a b)
  | 7 => show_o show_b (num_eq p a b)
  | 8 => show_o (show_opt show_cmp) (num_partial_cmp p a b)
  | 9 => show_o show_b (num_lt p a b)
  | 10 => show_o show_b (num_le p a b)
  | 11 => show_o show_b (num_gt p a b)
  | 12 => show_o show_b (num_ge p a b)
  | _ => S_ "BADCASE"
  end.

Definition run_unary (op : N) (a : num) (p : profile) : list N :=
  match op with
  | 0 => show_o show_num (num_abs p a)
  | 1 => show_o show_num (num_floor p a)
  | 2 => show_o show_num (num_ceil p a)
  | 3 => show_o show_num (num_truncate a)
  | 4 => show_o show_num (num_round p a)
  | 5 => show_o show_num (Ok (num_numerator a))
  | 6 => show_o show_num (Ok (num_denominator a))
  | 7 => show_o (show_opt show_num) (num_to_exact p a)
  | 8 => show_o (show_opt show_num) (num_to_inexact a)
  | 9 => show_o show_b (Ok (num_is_integer a))
  | 10 => show_o (show_opt show_Zs) (num_to_i64 a)
  | 11 => show_o (show_opt show_Zs) (num_to_u64 a)
  | 12 => show_o (show_opt show_Zs) (num_to_u32 a)
  | 13 => show_o (show_opt show_Zs) (num_to_usize a)
  | 14 => show_o (show_opt (fun f => 32 :: show_f64 f)) (Ok (num_to_f64 a))
  | 15 => show_o show_b (num_is_zero p a)
  | _ => S_ "BADCASE"
  end.

Definition run_builtin (proc : N) (args : list arg) (p : profile) : list N :=
  show_o show_res
    match proc with
    | 0 => b_plus p args | 1 => b_minus p args | 2 => b_multiply p args | 3 => b_divide p args
    | 4 => b_num_comp CEq p args | 5 => b_num_comp CLt p args | 6 => b_num_comp CGt p args
    | 7 => b_num_comp CLe p args | 8 => b_num_comp CGe p args
    | 9 => b_minmax false p args | 10 => b_minmax true p args
    | 11 => b_upred PZero p args | 12 => b_upred PPositive p args | 13 => b_upred PNegative p args
    | 14 => b_upred POdd p args | 15 => b_upred PEven p args
    | 16 => b_unary UAbs p args
    | 17 => b_intdiv IQuotient p args | 18 => b_intdiv IRemainder p args | 19 => b_intdiv IModulo p args
    | 20 => b_unary UFloor p args | 21 => b_unary UCeiling p args | 22 => b_unary UTruncate p args
    | 23 => b_unary URound p args | 24 => b_unary UNumerator p args | 25 => b_unary UDenominator p args
    | 26 => b_expt p args
    | 27 => b_unary UExactInexact p args | 28 => b_unary UInexactExact p args
    | _ => Err 99
    end.

(* 13: num-rational directly.  13 op a [b]; ratios as sn |n| sd |d| *)
Definition decode_ratio (l : list N) : option (ratio * list N) :=
  match l with
  | sn :: n :: sd :: d :: r => Some ((sgn sn n, sgn sd d), r)
  | _ => None
  end.
Definition run_ratio1 (op : N) (e : Z) (a : ratio) (p : profile) : list N :=
  let w := 32%Z in
  match op with
  | 0 => show_o show_ratio (rnew p w (fst a) (snd a))
  | 6 => show_o show_ratio (rfloor p w a)
  | 7 => show_o show_ratio (rceil p w a)
  | 8 => show_o show_ratio (rtrunc w a)
  | 9 => show_o show_ratio (rround p w a)
  | 10 => show_o show_ratio (rfract w a)
  | 11 => show_o show_ratio (rpow p w a e)
  | 12 => show_o show_ratio (rabs p w a)
  | 13 => show_o (show_opt (fun f => 32 :: show_f64 f)) (Ok (rto_f64 a))
  | 19 => show_o show_Zs (rto_integer w a)
  | 20 => show_o show_Zs (igcd p w (fst a) (snd a))
  | 21 => show_o show_Zs (ipow p w (fst a) e)
  | _ => S_ "BADCASE"
  end.
Definition run_ratio2 (op : N) (a b : ratio) (p : profile) : list N :=
  let w := 32%Z in
  match op with
  | 1 => show_o (show_opt show_ratio) (rchecked_add p w a b)
  | 2 => show_o (show_opt show_ratio) (rchecked_sub p w a b)
  | 3 => show_o (show_opt show_ratio) (rchecked_mul p w a b)
  | 4 => show_o (show_opt show_ratio) (rchecked_div p w a b)
  | 5 => show_o show_cmp (rcmp p w a b)
  | 14 => show_o show_ratio (rrem p w a b)
  | 15 => show_o show_ratio (rdiv p w a b)
  | 16 => show_o show_ratio (radd p w a b)
  | 17 => show_o show_ratio (rsub p w a b)
  | _ => S_ "BADCASE"
  end.

(* 14 op k a1..ak b1..bm : the binary API operation on every pair (ai, bj) — the
   operands are the k resp. m representations of two values (C08 representation
   independence); 15 a b : == partial_cmp < <= > >= on the API; 16 args.. : the
   procedures = < > <= >= min max through Vm::eval on the same arguments;
   17 a b c : each of = < > <= >= on (a b) (b c) (a c) (a b c) *)
Fixpoint decode_nums (fuel : nat) (l : list N) : option (list num) :=
  match fuel with
  | O => None
  | S f =>
      match l with
      | [] => Some []
      | _ => match decode_num l with
             | Some (a, r) => match decode_nums f r with Some t => Some (a :: t) | None => None end
             | None => None
             end
      end
  end.
Definition semi (l : list N) : list N := 59 :: l.
Definition run_indep (op : N) (xs ys : list num) (p : profile) : list N :=
  S_ "ALL" ++ flat_map (fun a => flat_map (fun b => semi (run_binary op a b p)) ys) xs.
Definition run_cmp6 (a b : num) (p : profile) : list N :=
  S_ "CMP" ++ flat_map (fun op => semi (run_binary op a b p)) [7; 8; 9; 10; 11; 12].
Definition run_vm7 (args : list arg) (p : profile) : list N :=
  S_ "VM" ++ flat_map (fun proc => semi (run_builtin proc args p)) [4; 5; 6; 7; 8; 9; 10].
Definition run_tri (a b c : arg) (p : profile) : list N :=
  S_ "TRI" ++ flat_map (fun proc =>
      flat_map (fun args => semi (run_builtin proc args p)) [[a; b]; [b; c]; [a; c]; [a; b; c]])
    [4; 5; 6; 7; 8].

Definition run_num (c : list N) : list N :=
  match c with
  | 14 :: op :: k :: r =>
      match decode_nums (S (length r)) r with
      | Some l => both (run_indep op (firstn (N.to_nat k) l) (skipn (N.to_nat k) l))
      | None => S_ "BADCASE"
      end
  | 15 :: r =>
      match decode_nums (S (length r)) r with
      | Some [a; b] => both (run_cmp6 a b)
      | _ => S_ "BADCASE"
      end
  | 16 :: r =>
      match decode_args (S (length r)) r with
      | Some args => both (run_vm7 args)
      | None => S_ "BADCASE"
      end
  | 17 :: r =>
      match decode_args (S (length r)) r with
      | Some [a; b; c] => both (run_tri a b c)
      | _ => S_ "BADCASE"
      end
  | 10 :: op :: r =>
      match decode_num r with
      | Some (a, r1) => match decode_num r1 with
                        | Some (b, []) => both (run_binary op a b)
                        | _ => S_ "BADCASE"
                        end
      | None => S_ "BADCASE"
      end
  | 11 :: 16 :: e :: r =>
      match decode_num r with
      | Some (a, []) => both (fun p => show_o show_num (num_pow p a (Z.of_N e)))
      | _ => S_ "BADCASE"
      end
  | 11 :: op :: r =>
      match decode_num r with
      | Some (a, []) => both (run_unary op a)
      | _ => S_ "BADCASE"
      end
  | 12 :: proc :: r =>
      match decode_args (S (length r)) r with
      | Some args => both (run_builtin proc args)
      | None => S_ "BADCASE"
      end
  | 13 :: 18 :: bits :: [] =>
      both (fun p => show_o (show_opt show_ratio) (ratio32_from_f64 p (f64_of_bits (Z.of_N bits))))
  | 13 :: op :: es :: e :: r =>
      match decode_ratio r with
      | Some (a, []) => both (run_ratio1 op (sgn es e) a)
      | Some (a, r1) => match decode_ratio r1 with
                        | Some (b, []) => both (run_ratio2 op a b)
                        | _ => S_ "BADCASE"
                        end
      | None => S_ "BADCASE"
      end
  | _ => S_ "BADCASE"
  end.
