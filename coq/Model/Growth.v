(* Growth.v — the abstract counter machine of marwood's heap sizing policy (C12):
   Heap::alloc / Heap::grow (heap.rs:44-70) and the two utilisation tests of Vm::run_gc
   (run.rs:483-507), with ALL constants as parameters.  Definitions only.

   State: capacity and number of used cells.  Events:
     Alloc          one cell is allocated; the heap grows first iff the free list is empty
                    (used = capacity)
     Collect live   a collection point (every `cadence` instructions and at the end of an
                    evaluation): skipped when used/capacity < skip_below; otherwise the used
                    count drops to the number of live cells, and the heap grows once if
                    used/capacity > grow_above afterwards.
   Rationals are pairs (numerator, denominator) compared by cross-multiplication. *)
From Coq Require Import NArith List Bool.
Import ListNotations.
Open Scope N_scope.

Record gparams := mk_gparams {
  gp_chunk : N;                 (* HEAP_CHUNK_SIZE *)
  gp_fn : N; gp_fd : N;         (* growth factor fn/fd (1.5 = 15/10) *)
  gp_ln : N; gp_ld : N;         (* collection skipped when used/cap < ln/ld (0.75) *)
  gp_hn : N; gp_hd : N          (* grow after a collection when used/cap > hn/hd (0.75) *)
}.

(* chunk > 0, factor > 1, both thresholds strictly between 0 and 1 *)
Definition admissible (p : gparams) : bool :=
  (0 <? gp_chunk p) && (0 <? gp_fd p) && (gp_fd p <? gp_fn p)
  && (0 <? gp_ln p) && (gp_ln p <? gp_ld p)
  && (0 <? gp_hn p) && (gp_hn p <? gp_hd p).

Definition ceil_div (a b : N) : N := (a + b - 1) / b.

(* Heap::grow: new_size = ceil((len / chunk) * f) * chunk *)
Definition grow_cap (p : gparams) (cap : N) : N :=
  ceil_div ((cap / gp_chunk p) * gp_fn p) (gp_fd p) * gp_chunk p.

Record gstate := mk_gstate { g_cap : N; g_used : N; g_grows : N }.

Inductive gevent := Alloc | Collect (live : N).

Definition gstep (p : gparams) (s : gstate) (e : gevent) : gstate :=
  match e with
  | Alloc =>
      if g_used s <? g_cap s then mk_gstate (g_cap s) (g_used s + 1) (g_grows s)
      else mk_gstate (grow_cap p (g_cap s)) (g_used s + 1) (g_grows s + 1)
  | Collect live =>
      if g_used s * gp_ld p <? gp_ln p * g_cap s then s                   (* skipped *)
      else
        if gp_hn p * g_cap s <? live * gp_hd p                            (* still above *)
        then mk_gstate (grow_cap p (g_cap s)) live (g_grows s + 1)
        else mk_gstate (g_cap s) live (g_grows s)
  end.

Definition grun (p : gparams) (s : gstate) (tr : list gevent) : gstate := fold_left (gstep p) tr s.

(* the hypotheses on a trace: every collection point sees at most [L] live cells, and at
   most [B] cells are allocated between two consecutive collection points ([since] counts
   the allocations since the last one) *)
Fixpoint trace_ok (L B : N) (since : N) (tr : list gevent) : Prop :=
  match tr with
  | [] => True
  | Alloc :: r => since + 1 <= B /\ trace_ok L B (since + 1) r
  | Collect live :: r => live <= L /\ trace_ok L B 0 r
  end.

(* the explicit bound g(L, B, chunk, f, theta):
     f * max (L + B, ceil (B / (1 - lo)), ceil (L / hi)) + chunk          *)
Definition gbound_base (p : gparams) (L B : N) : N :=
  N.max (L + B)
        (N.max (ceil_div (B * gp_ld p) (gp_ld p - gp_ln p))
               (ceil_div (L * gp_hd p) (gp_hn p))).
Definition gbound (p : gparams) (L B : N) : N :=
  ceil_div (gbound_base p L B * gp_fn p) (gp_fd p) + gp_chunk p.
