(* Builtins.v — Vm::load_builtins (builtin/mod.rs:35-57) over the generated table
   Gen/Builtins.v, the dispatch of a builtin id to its model, Vm::new (boot with the
   generated prelude text) and the evaluation entry points used on the wire.

   The builtins themselves are the models of the work packages: number.rs =
   NumArith/NumProc, string.rs/char.rs = Str, symbol.rs = SymbolB, list.rs/vector.rs/
   predicate.rs = ListVec; procedure.rs/ports.rs are in Model/Vm.v.  What has no model
   (libm, rand, time, terminal size) answers [panic 99]; Proofs/BuiltinCoverage.v proves
   over the generated table that the list of such builtins is exactly the one named there. *)
From Coq Require Import String.
From MW Require Import Model.Base Model.F64 Model.Num Model.NumFmt Model.Datum Model.Lex Model.Parse
  Model.TransformDef Model.Transform Model.VmTypes Model.Heap Model.VmBase Model.Compile Model.Vm.
From MW Require Model.Ratio32 Model.NumArith Model.NumProc Model.Str Model.SymbolB Model.ListVec.
From MW Require Gen.Builtins Gen.Prelude.
Open Scope N_scope.

(* fuel of the list.rs / predicate.rs loops that follow cdr chains or nested data *)
Definition LV_FUEL_VM : nat := N.to_nat 400000.

(* builtin/list.rs, vector.rs, predicate.rs (Model/ListVec.v, package "lv") *)
Definition lv_builtin (b : N) : M vcell :=
  let n := builtin_name b in
  let F := LV_FUEL_VM in
  if text_is n "car" then ListVec.car F
  else if text_is n "cdr" then ListVec.cdr F
  else if text_is n "cons" then ListVec.cons_
  else if text_is n "set-car!" then ListVec.set_car
  else if text_is n "set-cdr!" then ListVec.set_cdr
  else if text_is n "append" then ListVec.append F
  else if text_is n "reverse" then ListVec.reverse F
  else if text_is n "list-tail" then ListVec.list_tail F
  else if text_is n "list-ref" then ListVec.list_ref F
  else if text_is n "vector" then ListVec.vector
  else if text_is n "make-vector" then ListVec.make_vector
  else if text_is n "vector-length" then ListVec.vector_length
  else if text_is n "vector-ref" then ListVec.vector_ref
  else if text_is n "vector-set!" then ListVec.vector_set
  else if text_is n "vector-fill!" then ListVec.vector_fill
  else if text_is n "vector->list" then ListVec.vector_to_list
  else if text_is n "list->vector" then ListVec.list_to_vector F
  else if text_is n "vector-copy" then ListVec.vector_copy
  else if text_is n "vector-copy!" then ListVec.vector_mut_copy
  else if text_is n "boolean?" then ListVec.is_boolean
  else if text_is n "char?" then ListVec.is_char
  else if text_is n "null?" then ListVec.is_null
  else if text_is n "number?" then ListVec.is_number
  else if text_is n "complex?" then ListVec.is_complex
  else if text_is n "real?" then ListVec.is_real
  else if text_is n "rational?" then ListVec.is_rational
  else if text_is n "integer?" then ListVec.is_integer
  else if text_is n "pair?" then ListVec.is_pair_b
  else if text_is n "procedure?" then ListVec.is_procedure
  else if text_is n "string?" then ListVec.is_string
  else if text_is n "symbol?" then ListVec.is_symbol
  else if text_is n "vector?" then ListVec.is_vector
  else if text_is n "port?" then ListVec.is_port
  else if text_is n "list?" then ListVec.is_list F
  else if text_is n "eq?" then ListVec.eq_b
  else if text_is n "eqv?" then ListVec.eqv_b
  else if text_is n "equal?" then ListVec.equal_b F
  else if text_is n "not" then ListVec.not_b
  else panic 99.     (* builtin not modelled (Proofs/BuiltinCoverage.v lists them) *)

(* ------------------------------------------ builtins of the work packages *)
(* builtin/number.rs at the value level (Model/NumArith.v, package "num"): pop argc
   and the arguments (dereferenced, as pop_number does), run the value-level model
   under the Debug profile, box the result.  A failing builtin leaves part of its
   arguments on the stack in the Rust; the error path of run_count wipes the stack
   (fix f6f5af0), so the difference is not observable. *)
Fixpoint pop_values (k : nat) (acc : list vcell) : M (list vcell) :=
  match k with
  | O => ret acc
  | S k' => dom v <- pop_value; pop_values k' (v :: acc)
  end.
Definition to_arg (v : vcell) : NumArith.arg :=
  match v with VNum n => NumArith.ANum n | _ => NumArith.AOther end.
Definition of_res (r : NumArith.res) : vcell :=
  match r with NumArith.RNum n => VNum n | NumArith.RBool b => VBool b end.
Definition num_builtin (f : Num.profile -> list NumArith.arg -> out NumArith.res) : M vcell :=
  dom a <- pop_raw; dom argc <- as_argc a;
  dom vs <- pop_values (N.to_nat argc) [];
  (* an arm that needs libm (powf) has no model: site 99 = "not modelled", never compared *)
  match f Debug (map to_arg vs) with
  | Err e => if e =? NumArith.E_LIBM then panic 99 else fail e
  | Ok r => ret (of_res r)
  | Panic k => panic k
  | NoFuel => fun _ => RNoFuel
  end.

(* number->string / string->number (Model/NumProc.v, package "numfmt") work on cells *)
Fixpoint pop_cells (k : nat) (acc : list cell) : M (list cell) :=
  match k with
  | O => ret acc
  | S k' => dom v <- pop_raw; dom c <- to_cell v; pop_cells k' (c :: acc)
  end.
Definition cell_builtin (f : list cell -> out cell) : M vcell :=
  dom a <- pop_raw; dom argc <- as_argc a;
  dom cs <- pop_cells (N.to_nat argc) [];
  dom r <- lift (f cs);
  maybe_put_cell_m r.

(* builtin/symbol.rs:13-52 over the name encoding of Model/SymbolB.v (package "gc") *)
Definition b_string_symbol : M vcell :=
  dom _ <- pop_argc 1 (Some 1); dom sid <- pop_string; dom t <- str_get sid;
  ret (VSym (SymbolB.string_to_symbol t)).
Definition b_symbol_string : M vcell :=
  dom _ <- pop_argc 1 (Some 1); dom name <- pop_symbol;
  dom t <- lift (SymbolB.symbol_to_string name); str_new t.
Fixpoint symbol_eq_loop (k : nat) (y : text) (result : bool) : M bool :=
  match k with
  | O => ret result
  | S k' => dom x <- pop_symbol; symbol_eq_loop k' x (result && text_eqb x y)
  end.
Definition b_symbol_eq : M vcell :=
  dom argc <- pop_argc 1 None; dom y <- pop_symbol;
  dom r <- symbol_eq_loop (N.to_nat (argc - 1)) y true; ret (VBool r).

Definition pkg_builtin (b : N) : M vcell :=
  let n := builtin_name b in
  (* ---- number.rs *)
  if text_is n "+" then num_builtin NumArith.b_plus
  else if text_is n "*" then num_builtin NumArith.b_multiply
  else if text_is n "-" then num_builtin NumArith.b_minus
  else if text_is n "/" then num_builtin NumArith.b_divide
  else if text_is n "=" then num_builtin (NumArith.b_num_comp NumArith.CEq)
  else if text_is n "<" then num_builtin (NumArith.b_num_comp NumArith.CLt)
  else if text_is n ">" then num_builtin (NumArith.b_num_comp NumArith.CGt)
  else if text_is n "<=" then num_builtin (NumArith.b_num_comp NumArith.CLe)
  else if text_is n ">=" then num_builtin (NumArith.b_num_comp NumArith.CGe)
  else if text_is n "zero?" then num_builtin (NumArith.b_upred NumArith.PZero)
  else if text_is n "positive?" then num_builtin (NumArith.b_upred NumArith.PPositive)
  else if text_is n "negative?" then num_builtin (NumArith.b_upred NumArith.PNegative)
  else if text_is n "odd?" then num_builtin (NumArith.b_upred NumArith.POdd)
  else if text_is n "even?" then num_builtin (NumArith.b_upred NumArith.PEven)
  else if text_is n "quotient" then num_builtin (NumArith.b_intdiv NumArith.IQuotient)
  else if text_is n "remainder" || text_is n "%" then num_builtin (NumArith.b_intdiv NumArith.IRemainder)
  else if text_is n "modulo" then num_builtin (NumArith.b_intdiv NumArith.IModulo)
  else if text_is n "expt" || text_is n "pow" then num_builtin NumArith.b_expt
  else if text_is n "abs" then num_builtin (NumArith.b_unary NumArith.UAbs)
  else if text_is n "floor" then num_builtin (NumArith.b_unary NumArith.UFloor)
  else if text_is n "ceiling" then num_builtin (NumArith.b_unary NumArith.UCeiling)
  else if text_is n "truncate" then num_builtin (NumArith.b_unary NumArith.UTruncate)
  else if text_is n "round" then num_builtin (NumArith.b_unary NumArith.URound)
  else if text_is n "numerator" then num_builtin (NumArith.b_unary NumArith.UNumerator)
  else if text_is n "denominator" then num_builtin (NumArith.b_unary NumArith.UDenominator)
  else if text_is n "exact->inexact" then num_builtin (NumArith.b_unary NumArith.UExactInexact)
  else if text_is n "inexact->exact" then num_builtin (NumArith.b_unary NumArith.UInexactExact)
  else if text_is n "min" then num_builtin (NumArith.b_minmax false)
  else if text_is n "max" then num_builtin (NumArith.b_minmax true)
  else if text_is n "number->string" then cell_builtin NumProc.number_string
  else if text_is n "string->number" then cell_builtin NumProc.string_number
  (* ---- string.rs / char.rs (Model/Str.v, package "str") *)
  else if text_is n "string-length" then Str.string_length
  else if text_is n "string-ref" then Str.string_ref
  else if text_is n "string-set!" then Str.string_set
  else if text_is n "string-copy" then Str.string_copy
  else if text_is n "string-fill!" then Str.string_fill
  else if text_is n "string->list" then Str.string_list
  else if text_is n "string->vector" then Str.string_vector
  else if text_is n "vector->string" then Str.vector_string
  else if text_is n "list->string" then Str.list_string
  else if text_is n "string" then Str.string_
  else if text_is n "make-string" then Str.make_string
  else if text_is n "string-append" then Str.string_append
  else if text_is n "string=?" then Str.string_cmp Str.CEq
  else if text_is n "string<?" then Str.string_cmp Str.CLt
  else if text_is n "string>?" then Str.string_cmp Str.CGt
  else if text_is n "string<=?" then Str.string_cmp Str.CLe
  else if text_is n "string>=?" then Str.string_cmp Str.CGe
  else if text_is n "string-ci=?" then Str.string_ci_cmp Str.CEq
  else if text_is n "string-ci<?" then Str.string_ci_cmp Str.CLt
  else if text_is n "string-ci>?" then Str.string_ci_cmp Str.CGt
  else if text_is n "string-ci<=?" then Str.string_ci_cmp Str.CLe
  else if text_is n "string-ci>=?" then Str.string_ci_cmp Str.CGe
  else if text_is n "string-upcase" then Str.string_upcase
  else if text_is n "string-downcase" then Str.string_downcase
  else if text_is n "string-foldcase" then Str.string_foldcase
  else if text_is n "char->integer" then Str.char_to_integer
  else if text_is n "integer->char" then Str.integer_to_char
  else if text_is n "char-alphabetic?" then Str.char_is_alphabetic
  else if text_is n "char-numeric?" then Str.char_is_numeric
  else if text_is n "char-whitespace?" then Str.char_is_whitespace
  else if text_is n "char-upper-case?" then Str.char_is_upper_case
  else if text_is n "char-lower-case?" then Str.char_is_lower_case
  else if text_is n "char-upcase" then Str.char_upcase
  else if text_is n "char-downcase" then Str.char_downcase
  else if text_is n "char-foldcase" then Str.char_foldcase
  else if text_is n "digit-value" then Str.digit_value
  else if text_is n "char=?" then Str.char_cmp Str.CEq
  else if text_is n "char<?" then Str.char_cmp Str.CLt
  else if text_is n "char>?" then Str.char_cmp Str.CGt
  else if text_is n "char<=?" then Str.char_cmp Str.CLe
  else if text_is n "char>=?" then Str.char_cmp Str.CGe
  else if text_is n "char-ci=?" then Str.char_ci_cmp Str.CEq
  else if text_is n "char-ci<?" then Str.char_ci_cmp Str.CLt
  else if text_is n "char-ci>?" then Str.char_ci_cmp Str.CGt
  else if text_is n "char-ci<=?" then Str.char_ci_cmp Str.CLe
  else if text_is n "char-ci>=?" then Str.char_ci_cmp Str.CGe
  else if text_is n "string->symbol" then b_string_symbol
  else if text_is n "symbol->string" then b_symbol_string
  else if text_is n "symbol=?" then b_symbol_eq
  (* ---- list.rs / vector.rs / predicate.rs *)
  else lv_builtin b.

Definition other_builtin : N -> M vcell := pkg_builtin.

(* ------------------------------------------------------- load_builtins *)
(* builtin/mod.rs:48-57: put the BuiltInProc, intern the symbol, bind the slot *)
Fixpoint load_builtins_from (l : list (list N * N)) (i : N) : M unit :=
  match l with
  | [] => ret tt
  | (name, _) :: r =>
      dom syscall <- hput (VBuiltin i);
      dom sym <- hput (VSym name);
      dom p <- as_ptr sym;
      dom slot <- get_binding p;
      dom _ <- (fun s => ROk tt (with_globals s (g_bind s) (list_set (g_slots s) slot syscall)));
      load_builtins_from r (i + 1)
  end.
Definition load_builtins : M unit := load_builtins_from Gen.Builtins.builtin_table 0.

(* ---------------------------------------------------------- evaluation *)
(* instruction budget of the MODEL per evaluation; passed as a parameter to the
   fixpoints below so that the guard checker never normalises the numeral *)
Definition EVAL_FUEL : nat := N.to_nat 400000.
Definition eval_cell_f (ef : nat) (e : cell) (s : vm) : res run_result := eval other_builtin ef e s.
Definition eval_cell := eval_cell_f EVAL_FUEL.

(* one outcome per datum of a text, in order (the front ends' loop over
   Vm::eval_text); stops at the first read error *)
Inductive form_result := FOk (c : cell) | FErr (e : N) (msg : text) | FPanic (site : N) | FNoFuel.

Fixpoint eval_text_all_f (ef : nat) (fuel : nat) (t : text) (s : vm) (acc : list form_result) {struct fuel} : list form_result * vm :=
  match fuel with
  | O => (rev (FNoFuel :: acc), s)
  | S f =>
      match parse_text t with
      | Ok (d, rest) =>
          match eval_cell_f ef d s with
          | ROk (Done c) s' =>
              match rest with
              | Some r => eval_text_all_f ef f r s' (FOk c :: acc)
              | None => (rev (FOk c :: acc), s')
              end
          | ROk (Failed e m _) s' =>
              match rest with
              | Some r => eval_text_all_f ef f r s' (FErr e m :: acc)
              | None => (rev (FErr e m :: acc), s')
              end
          | ROk Yield s' => (rev (FNoFuel :: acc), s')
          | RErr e m s' => (rev (FErr e m :: acc), s')
          | RPanic k => (rev (FPanic k :: acc), s)
          | RNoFuel => (rev (FNoFuel :: acc), s)
          end
      | Err e => (rev (FErr e [] :: acc), s)
      | Panic k => (rev (FPanic k :: acc), s)
      | NoFuel => (rev (FNoFuel :: acc), s)
      end
  end.

Definition eval_text_all := eval_text_all_f EVAL_FUEL.

(* Vm::new, vm/mod.rs:55-70 + load_prelude: scan/parse/eval every form of the
   GENERATED prelude text.  None when the prelude does not load (the Rust would
   panic with "invalid prelude"). *)
Definition boot_with (prelude : text) : option vm :=
  match load_builtins (vm_empty 8192) with
  | ROk _ s0 =>
      match scan prelude with Ok [] => Some s0 | _ =>
      let '(rs, s1) := eval_text_all (S (length prelude)) prelude s0 [] in
      if forallb (fun r => match r with FOk _ => true | _ => false end) rs then Some s1 else None
      end
  | _ => None
  end.
Definition booted : option vm := boot_with Gen.Prelude.prelude_text.
