(* Builtins.v — Vm::load_builtins (builtin/mod.rs:35-57) over the generated table
   Gen/Builtins.v, the dispatch of a builtin id to its model, Vm::new (boot with the
   generated prelude text) and the evaluation entry points used on the wire.

   TEMPORARY: [tmp_builtin] below contains quick models of a few list/number/
   predicate builtins so that sessions run before the work packages "lv", "num",
   "str" are merged; they are replaced by the packages' models at merge time.   *)
From Coq Require Import String.
From MW Require Import Model.Base Model.F64 Model.Num Model.NumFmt Model.Datum Model.Lex Model.Parse
  Model.TransformDef Model.Transform Model.VmTypes Model.Heap Model.VmBase Model.Compile Model.Vm.
From MW Require Gen.Builtins Gen.Prelude.
Open Scope N_scope.

(* ----------------------------------------------------- temporary builtins *)
Definition bool_v (b : bool) : vcell := VBool b.
Definition num_int (n : num) : option Z :=
  match n with Fixnum z | BigInt z => Some z | _ => None end.
Definition mk_int (z : Z) : vcell := VNum (if in_i64 z then Fixnum z else BigInt z).

Fixpoint pop_ints (k : nat) (acc : list Z) : M (list Z) :=
  match k with
  | O => ret acc
  | S k' => dom n <- pop_number;
            match num_int n with Some z => pop_ints k' (z :: acc) | None => panic 98 end
  end.
Fixpoint chain (rel : Z -> Z -> bool) (l : list Z) : bool :=
  match l with a :: (b :: _) as r => rel a b && chain rel r | _ => true end.

(* compare.rs:26-57 eqv on already-popped stack values *)
Definition eqv_v (l r : vcell) : M bool :=
  match l, r with
  | VPtr a, VPtr b => if a =? b then ret true else
      dom x <- hget a; dom y <- hget b;
      ret (match x, y with
           | VBool p, VBool q => Bool.eqb p q
           | VNum (Fixnum p), VNum (Fixnum q) => (p =? q)%Z
           | VNil, VNil => true
           | VPair p1 p2, VPair q1 q2 => (p1 =? q1) && (p2 =? q2)
           | VChar p, VChar q => p =? q
           | _, _ => false end)
  | _, _ =>
      dom x <- hderef l; dom y <- hderef r;
      ret (match x, y with
           | VBool p, VBool q => Bool.eqb p q
           | VNum (Fixnum p), VNum (Fixnum q) => (p =? q)%Z
           | VNil, VNil => true
           | VPair p1 p2, VPair q1 q2 => (p1 =? q1) && (p2 =? q2)
           | VChar p, VChar q => p =? q
           | _, _ => false end)
  end.

Definition tmp_builtin (b : N) : M vcell :=
  let n := builtin_name b in
  if text_is n "car" then
    dom _ <- pop_argc 1 (Some 1); dom v <- pop_value;
    match v with VPair a _ => ret (VPtr a) | _ => fail E_OTHER end
  else if text_is n "cdr" then
    dom _ <- pop_argc 1 (Some 1); dom v <- pop_value;
    match v with VPair _ d => ret (VPtr d) | _ => fail E_OTHER end
  else if text_is n "cons" then
    dom _ <- pop_argc 2 (Some 2);
    dom d <- pop_raw; dom dp <- hput d; dom di <- as_ptr dp;
    dom a <- pop_raw; dom ap <- hput a; dom ai <- as_ptr ap;
    ret (VPair ai di)
  else if text_is n "set-car!" then
    dom _ <- pop_argc 2 (Some 2);
    dom o <- pop_raw; dom op <- hput o; dom oi <- as_ptr op;
    dom pr <- pop_raw; dom pv <- hderef pr;
    match pv with
    | VPair _ d => dom p <- as_ptr pr; dom _ <- hset p (VPair oi d); ret VVoid
    | _ => fail E_OTHER end
  else if text_is n "set-cdr!" then
    dom _ <- pop_argc 2 (Some 2);
    dom o <- pop_raw; dom op <- hput o; dom oi <- as_ptr op;
    dom pr <- pop_raw; dom pv <- hderef pr;
    match pv with
    | VPair a _ => dom p <- as_ptr pr; dom _ <- hset p (VPair a oi); ret VVoid
    | _ => fail E_OTHER end
  else if text_is n "null?" then dom _ <- pop_argc 1 (Some 1); dom v <- pop_value;
    ret (bool_v (match v with VNil => true | _ => false end))
  else if text_is n "pair?" then dom _ <- pop_argc 1 (Some 1); dom v <- pop_value;
    ret (bool_v (match v with VPair _ _ => true | _ => false end))
  else if text_is n "vector?" then dom _ <- pop_argc 1 (Some 1); dom v <- pop_value;
    ret (bool_v (match v with VVec _ => true | _ => false end))
  else if text_is n "procedure?" then dom _ <- pop_argc 1 (Some 1); dom v <- pop_value;
    ret (bool_v (is_procedure v))
  else if text_is n "symbol?" then dom _ <- pop_argc 1 (Some 1); dom v <- pop_value;
    ret (bool_v (match v with VSym _ => true | _ => false end))
  else if text_is n "not" then dom _ <- pop_argc 1 (Some 1); dom v <- pop_value;
    ret (bool_v (match v with VBool false => true | _ => false end))
  else if text_is n "eq?" || text_is n "eqv?" then
    dom _ <- pop_argc 2 (Some 2); dom r <- pop_raw; dom l <- pop_raw;
    dom e <- eqv_v l r; ret (bool_v e)
  else if text_is n "+" then dom argc <- pop_argc 0 None; dom l <- pop_ints (N.to_nat argc) [];
    ret (mk_int (fold_left Z.add l 0%Z))
  else if text_is n "*" then dom argc <- pop_argc 0 None; dom l <- pop_ints (N.to_nat argc) [];
    ret (mk_int (fold_left Z.mul l 1%Z))
  else if text_is n "-" then dom argc <- pop_argc 1 None; dom l <- pop_ints (N.to_nat argc) [];
    match l with
    | [x] => ret (mk_int (- x))
    | x :: r => ret (mk_int (fold_left Z.sub r x))
    | [] => fail E_OTHER end
  else if text_is n "=" then dom argc <- pop_argc 1 None; dom l <- pop_ints (N.to_nat argc) []; ret (bool_v (chain Z.eqb l))
  else if text_is n "<" then dom argc <- pop_argc 1 None; dom l <- pop_ints (N.to_nat argc) []; ret (bool_v (chain Z.ltb l))
  else if text_is n ">" then dom argc <- pop_argc 1 None; dom l <- pop_ints (N.to_nat argc) []; ret (bool_v (chain Z.gtb l))
  else if text_is n "<=" then dom argc <- pop_argc 1 None; dom l <- pop_ints (N.to_nat argc) []; ret (bool_v (chain Z.leb l))
  else if text_is n ">=" then dom argc <- pop_argc 1 None; dom l <- pop_ints (N.to_nat argc) []; ret (bool_v (chain Z.geb l))
  else panic 99.     (* builtin not modelled yet *)

Definition other_builtin : N -> M vcell := tmp_builtin.

(* ------------------------------------------------------- load_builtins *)
(* builtin/mod.rs:48-57: put the BuiltInProc, intern the symbol, bind the slot *)
Fixpoint load_builtins_from (l : list (list N * N)) (i : N) : M unit :=
  match l with
  | [] => ret tt
  | (name, _) :: r =>
      dom syscall <- hput (VBuiltin i);
      dom sym <- hput (VSym name);
      dom p <- as_ptr sym;
      dom slot <- get_binding p;
      dom _ <- (fun s => ROk tt (with_globals s (g_bind s) (list_set (g_slots s) slot syscall)));
      load_builtins_from r (i + 1)
  end.
Definition load_builtins : M unit := load_builtins_from Gen.Builtins.builtin_table 0.

(* ---------------------------------------------------------- evaluation *)
(* instruction budget of the MODEL per evaluation; passed as a parameter to the
   fixpoints below so that the guard checker never normalises the numeral *)
Definition EVAL_FUEL : nat := N.to_nat 400000.
Definition eval_cell_f (ef : nat) (e : cell) (s : vm) : res run_result := eval other_builtin ef e s.
Definition eval_cell := eval_cell_f EVAL_FUEL.

(* one outcome per datum of a text, in order (the front ends' loop over
   Vm::eval_text); stops at the first read error *)
Inductive form_result := FOk (c : cell) | FErr (e : N) (msg : text) | FPanic | FNoFuel.

Fixpoint eval_text_all_f (ef : nat) (fuel : nat) (t : text) (s : vm) (acc : list form_result) {struct fuel} : list form_result * vm :=
  match fuel with
  | O => (rev (FNoFuel :: acc), s)
  | S f =>
      match parse_text t with
      | Ok (d, rest) =>
          match eval_cell_f ef d s with
          | ROk (Done c) s' =>
              match rest with
              | Some r => eval_text_all_f ef f r s' (FOk c :: acc)
              | None => (rev (FOk c :: acc), s')
              end
          | ROk (Failed e m _) s' =>
              match rest with
              | Some r => eval_text_all_f ef f r s' (FErr e m :: acc)
              | None => (rev (FErr e m :: acc), s')
              end
          | ROk Yield s' => (rev (FNoFuel :: acc), s')
          | RErr e m s' => (rev (FErr e m :: acc), s')
          | RPanic _ => (rev (FPanic :: acc), s)
          | RNoFuel => (rev (FNoFuel :: acc), s)
          end
      | Err e => (rev (FErr e [] :: acc), s)
      | Panic _ => (rev (FPanic :: acc), s)
      | NoFuel => (rev (FNoFuel :: acc), s)
      end
  end.

Definition eval_text_all := eval_text_all_f EVAL_FUEL.

(* Vm::new, vm/mod.rs:55-70 + load_prelude: scan/parse/eval every form of the
   GENERATED prelude text.  None when the prelude does not load (the Rust would
   panic with "invalid prelude"). *)
Definition boot_with (prelude : text) : option vm :=
  match load_builtins (vm_empty 8192) with
  | ROk _ s0 =>
      match scan prelude with Ok [] => Some s0 | _ =>
      let '(rs, s1) := eval_text_all (S (length prelude)) prelude s0 [] in
      if forallb (fun r => match r with FOk _ => true | _ => false end) rs then Some s1 else None
      end
  | _ => None
  end.
Definition booted : option vm := boot_with Gen.Prelude.prelude_text.
