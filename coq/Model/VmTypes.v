(* VmTypes.v — VCell (vcell.rs:31-67), Lambda, Continuation, LexicalEnvironment,
   GlobalEnvironment, Heap and the Vm registers as data.  Everything Rust holds
   behind an Rc lives in a side table keyed by an id, which keeps [vcell] flat and
   makes Rc identity explicit (two cells holding clones of one Rc hold the same id). *)
From Coq Require Import FMapPositive.
From MW Require Import Model.Base Model.F64 Model.Num Model.Datum Model.TransformDef.
Open Scope N_scope.

(* ------------------------------------------------------------------ tables *)
Definition tbl (A : Type) := PositiveMap.t A.
Definition tempty {A} : tbl A := PositiveMap.empty A.
Definition tget {A} (t : tbl A) (i : N) : option A := PositiveMap.find (N.succ_pos i) t.
Definition tset {A} (t : tbl A) (i : N) (a : A) : tbl A := PositiveMap.add (N.succ_pos i) a t.
Definition tdel {A} (t : tbl A) (i : N) : tbl A := PositiveMap.remove (N.succ_pos i) t.

(* opcode.rs:12-32 *)
Inductive opcode := OCons | OJmp | OJnt | OMov | OMovImmediate | OPush | OPushAcc
  | OPushImmediate | OHalt | OVPushAcc | OCallAcc | OClosureAcc | OEnter | ORet
  | OTCallAcc | OVarArg.

(* a builtin is identified by its index in the registration order (Gen/Builtins.v) *)
Definition builtin := N.

Inductive vcell :=
| VBool (b : bool) | VChar (c : cp) | VNil | VNum (n : num)
| VPair (car cdr : N)
| VSym (s : text)                 (* Rc<String>, immutable: carried by value *)
| VStr (sid : N)                  (* Rc<RefCell<String>>: id into [strs] *)
| VVec (vid : N)                  (* Rc<Vector>: id into [vecs] *)
| VUndef | VVoid
| VCont (cid : N)                 (* Rc<Continuation>: id into [conts] *)
| VClosure (lam env : N)          (* heap addresses of the lambda and its environment *)
| VLambda (lid : N)               (* Rc<Lambda>: id into [lams] *)
| VLexEnv (eid : N)               (* Rc<LexicalEnvironment>: id into [envs] *)
| VLexSlot (i : N) | VLexPtr (env i : N)
| VMacro (mid : N)                (* Rc<Transform>: id into [macros] *)
| VAcc | VArgc (n : N) | VBp (n : N) | VBpOff (z : Z) | VBuiltin (b : builtin)
| VEp (p : N) | VGSlot (i : N) | VIp (l i : N) | VOp (o : opcode) | VPtr (p : N).

(* environment.rs:27-49 *)
Inductive bsrc := BGlobal | BArgument (n : N) | BIofArgument (n : N) | BIofEnvironment (n : N)
  | BInternalDefinition.
Inductive bloc := LArgument (n : N) | LGlobal | LEnvironment (n : N).

(* lambda.rs:10-18 *)
Record lambda := mk_lambda {
  l_top : bool; l_vararg : bool;
  l_envmap : list (vcell * bsrc);
  l_args : list vcell;
  l_bc : list vcell;
  l_desc : option cell
}.

(* continuation.rs:5-11 with stack.rs to_continuation *)
Record cont := mk_cont { k_stack : list vcell; k_sp : N; k_ep : N; k_ip : N * N; k_bp : N }.

Inductive gcstate := GFree | GAllocated | GUsed.   (* gc.rs:34-40 *)

(* heap.rs:16-23; [cells] is total up to [hlen] (absent entry = Undefined), the
   two-bit map of gc.rs is modelled as a table (absent = Free) *)
Record heap := mk_heap {
  cells : tbl vcell; hlen : N; free_list : list N;
  gcmap : tbl gcstate; symtab : list (text * N); chunk : N
}.

(* the Rc side tables.  Ids are allocated from [next_id] and never reused. *)
Record store := mk_store {
  strs : tbl text; vecs : tbl (list vcell); envs : tbl (list vcell);
  lams : tbl lambda; conts : tbl cont; macros : tbl transform; next_id : N
}.

Inductive outev := EvDisplay (c : cell) | EvWrite (c : cell).

(* vm/mod.rs:31-49; stack.rs:17-25 (stack vector + sp) *)
Record vm := mk_vm {
  hp : heap; st : store;
  g_bind : list (N * N);         (* GlobalEnvironment.bindings: symbol address -> slot *)
  g_slots : list vcell;          (* GlobalEnvironment.slots *)
  stack : tbl vcell;             (* Stack.stack: slot i (absent = Undefined), i < scap *)
  scap : N;                      (* Stack.stack.len(): the capacity, never shrinks *)
  sp : N; bp : N; ep : N; ip : N * N; acc : vcell;
  out_log : list outev           (* SystemInterface display/write calls, newest first *)
}.
(* Vm::last_stacktrace is NOT part of [vm]: no instruction or builtin reads or writes
   it (only run_count does), so the run-level functions of Vm.v carry it in their
   result ([Failed e msg trace]) and the instruction-level monad cannot touch it. *)
Definition trace := list (option text * option cell).

Definition USIZE_MAX : N := 18446744073709551615.
