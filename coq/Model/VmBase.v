(* VmBase.v — the state-and-error monad of the VM model, the stack (stack.rs) and
   the typed argument poppers of builtin/mod.rs.  A builtin procedure of marwood,
   `fn(&mut Vm) -> Result<VCell, Error>`, is modelled as [M vcell].               *)
From Coq Require Import String.
From MW Require Import Model.Base Model.F64 Model.Num Model.Datum Model.TransformDef
  Model.VmTypes Model.Heap.
Open Scope N_scope.

(* error classes (errors are compared by class only) *)
Definition E_USER : N := 2.        (* Error::ErrorSignal: msg = the irritants in write form *)

(* Result of a VM-level computation.  Unlike [out], an error keeps the machine
   state at the point of failure (the Rust mutates the Vm in place). *)
Inductive res (A : Type) : Type :=
| ROk (a : A) (s : vm)
| RErr (e : N) (msg : text) (s : vm)
| RPanic (site : N)
| RNoFuel.
Arguments ROk {A} a s.
Arguments RErr {A} e msg s.
Arguments RPanic {A} site.
Arguments RNoFuel {A}.

Definition M (A : Type) := vm -> res A.
Definition ret {A} (a : A) : M A := fun s => ROk a s.
Definition bindM {A B} (m : M A) (f : A -> M B) : M B :=
  fun s => match m s with
           | ROk a s' => f a s'
           | RErr e msg s' => RErr e msg s'
           | RPanic k => RPanic k
           | RNoFuel => RNoFuel
           end.
Notation "'dom' x <- e1 ; e2" := (bindM e1 (fun x => e2))
  (at level 200, x pattern, e1 at level 100, e2 at level 200, right associativity).
Definition fail {A} (e : N) : M A := fun s => RErr e [] s.
Definition fail_msg {A} (e : N) (msg : text) : M A := fun s => RErr e msg s.
Definition panic {A} (site : N) : M A := fun _ => RPanic site.
Definition get_vm : M vm := fun s => ROk s s.
Definition put_vm (s' : vm) : M unit := fun _ => ROk tt s'.
(* a pure [out] computation inside M *)
Definition lift {A} (o : out A) : M A :=
  fun s => match o with
           | Ok a => ROk a s
           | Err e => RErr e [] s
           | Panic k => RPanic k
           | NoFuel => RNoFuel
           end.

(* field updates *)
Definition with_heap (s : vm) (h : heap) : vm :=
  mk_vm h (st s) (g_bind s) (g_slots s) (stack s) (scap s) (sp s) (bp s) (ep s) (ip s) (acc s) (out_log s).
Definition with_store (s : vm) (x : store) : vm :=
  mk_vm (hp s) x (g_bind s) (g_slots s) (stack s) (scap s) (sp s) (bp s) (ep s) (ip s) (acc s) (out_log s).
Definition with_stack (s : vm) (l : tbl vcell) (p : N) : vm :=
  mk_vm (hp s) (st s) (g_bind s) (g_slots s) l (scap s) p (bp s) (ep s) (ip s) (acc s) (out_log s).
Definition with_scap (s : vm) (c : N) : vm :=
  mk_vm (hp s) (st s) (g_bind s) (g_slots s) (stack s) c (sp s) (bp s) (ep s) (ip s) (acc s) (out_log s).
Definition with_sp (s : vm) (p : N) : vm := with_stack s (stack s) p.
Definition with_acc (s : vm) (v : vcell) : vm :=
  mk_vm (hp s) (st s) (g_bind s) (g_slots s) (stack s) (scap s) (sp s) (bp s) (ep s) (ip s) v (out_log s).
Definition with_ip (s : vm) (i : N * N) : vm :=
  mk_vm (hp s) (st s) (g_bind s) (g_slots s) (stack s) (scap s) (sp s) (bp s) (ep s) i (acc s) (out_log s).
Definition with_bp (s : vm) (b : N) : vm :=
  mk_vm (hp s) (st s) (g_bind s) (g_slots s) (stack s) (scap s) (sp s) b (ep s) (ip s) (acc s) (out_log s).
Definition with_ep (s : vm) (e : N) : vm :=
  mk_vm (hp s) (st s) (g_bind s) (g_slots s) (stack s) (scap s) (sp s) (bp s) e (ip s) (acc s) (out_log s).
Definition with_globals (s : vm) (b : list (N * N)) (sl : list vcell) : vm :=
  mk_vm (hp s) (st s) b sl (stack s) (scap s) (sp s) (bp s) (ep s) (ip s) (acc s) (out_log s).
Definition with_log (s : vm) (l : list outev) : vm :=
  mk_vm (hp s) (st s) (g_bind s) (g_slots s) (stack s) (scap s) (sp s) (bp s) (ep s) (ip s) (acc s) l.

(* ------------------------------------------------------------------ lists *)
Fixpoint list_get {A} (l : list A) (i : N) : option A := nth_error l (N.to_nat i).
Fixpoint list_set_nat {A} (l : list A) (i : nat) (a : A) : list A :=
  match l, i with
  | [], _ => []
  | _ :: r, O => a :: r
  | x :: r, S k => x :: list_set_nat r k a
  end.
Definition list_set {A} (l : list A) (i : N) (a : A) : list A := list_set_nat l (N.to_nat i) a.
Definition len {A} (l : list A) : N := N.of_nat (length l).

(* ------------------------------------------------------------------ stack *)
(* stack.rs: a Vec of slots (initially 256 x Undefined, doubling) and sp = index
   of the top value; slot 0 is never used by push.  The model keeps the slots in a
   table (absent = Undefined) and the Vec's length in [scap]. *)
Definition STACK_INIT : N := 256.
Definition stack_new : tbl vcell := tempty.
Definition sget (s : vm) (i : N) : vcell := match tget (stack s) i with Some v => v | None => VUndef end.
(* the slots 0..=sp as a list: Stack::iter_to_sp / to_continuation *)
Definition stack_to_sp (s : vm) : list vcell := map (sget s) (range_asc 0 (S (N.to_nat (sp s)))).

(* Stack::push, stack.rs:142-153: write at sp+1, growing (doubling) when needed *)
Definition push (v : vcell) : M unit := fun s =>
  let cap := if sp s + 1 <? scap s then scap s else scap s * 2 in
  ROk tt (with_scap (with_stack s (tset (stack s) (sp s + 1) v) (sp s + 1)) cap).

(* Stack::pop, stack.rs:158-167: Err(InvalidStackIndex) when sp = 0 *)
Definition pop_raw : M vcell := fun s =>
  if sp s =? 0 then RErr E_OTHER [] s
  else if sp s <? scap s then ROk (sget s (sp s)) (with_sp s (sp s - 1))
  else RErr E_OTHER [] (with_sp s (sp s - 1)).

(* Stack::get / get_mut (absolute index) *)
Definition stack_get (i : N) : M vcell := fun s =>
  if i <? scap s then ROk (sget s i) s else RErr E_OTHER [] s.
Definition stack_put (i : N) (v : vcell) : M unit := fun s =>
  if i <? scap s then ROk tt (with_stack s (tset (stack s) i v) (sp s))
  else RErr E_OTHER [] s.
(* Stack::get_offset(offset: i64): index = (sp as i64 + offset) as usize; a negative
   sum wraps to a huge usize and is simply out of range *)
Definition stack_get_offset (off : Z) : M vcell := fun s =>
  let i := (Z.of_N (sp s) + off)%Z in
  if (i <? 0)%Z then RErr E_OTHER [] s else stack_get (Z.to_N i) s.
Definition stack_put_offset (off : Z) (v : vcell) : M unit := fun s =>
  let i := (Z.of_N (sp s) + off)%Z in
  if (i <? 0)%Z then RErr E_OTHER [] s else stack_put (Z.to_N i) v s.

(* ------------------------------------------------------------------- heap *)
Definition hget (p : N) : M vcell := fun s => lift (heap_get (hp s) p) s.
Definition hset (p : N) (v : vcell) : M unit := fun s =>
  match heap_set (hp s) p v with
  | Ok h => ROk tt (with_heap s h)
  | Err e => RErr e [] s | Panic k => RPanic k | NoFuel => RNoFuel
  end.
Definition hput (v : vcell) : M vcell := fun s =>
  let '(p, h) := heap_put (hp s) v in ROk p (with_heap s h).
Definition hmaybe_put (v : vcell) : M vcell := fun s =>
  let '(p, h) := heap_maybe_put (hp s) v in ROk p (with_heap s h).
Definition hderef (v : vcell) : M vcell := fun s => lift (heap_deref (hp s) v) s.
(* Vm::pop (run.rs:584-589): pop and dereference a pointer *)
Definition pop_deref : M vcell := dom v <- pop_raw; hderef v.

Definition as_ptr (v : vcell) : M N :=
  match v with VPtr p => ret p | _ => fail E_OTHER end.

(* Rc payload access *)
Definition str_get (sid : N) : M text := fun s =>
  match tget (strs (st s)) sid with Some t => ROk t s | None => RPanic 20 end.
Definition str_set (sid : N) (t : text) : M unit := fun s => ROk tt (with_store s (set_str (st s) sid t)).
Definition vec_get (vid : N) : M (list vcell) := fun s =>
  match tget (vecs (st s)) vid with Some l => ROk l s | None => RPanic 20 end.
Definition vec_set (vid : N) (l : list vcell) : M unit := fun s => ROk tt (with_store s (set_vec (st s) vid l)).
Definition str_new (t : text) : M vcell := fun s =>
  let '(i, x) := new_str (st s) t in ROk (VStr i) (with_store s x).
Definition vec_new (l : list vcell) : M vcell := fun s =>
  let '(i, x) := new_vec (st s) l in ROk (VVec i) (with_store s x).

(* -------------------------------------------------- builtin/mod.rs poppers *)
(* pop_argc, builtin/mod.rs:62-69 *)
Definition pop_argc (min : N) (max : option N) : M N :=
  dom v <- pop_raw;
  match v with
  | VArgc n =>
      if (n <? min) || (match max with Some m => m <? n | None => false end)
      then fail E_OTHER else ret n
  | _ => fail E_OTHER
  end.

(* vm.heap.get(vm.stack.pop()?) *)
Definition pop_value : M vcell := pop_deref.

Definition pop_number : M num :=
  dom v <- pop_value; match v with VNum n => ret n | _ => fail E_OTHER end.
Definition pop_char : M cp :=
  dom v <- pop_value; match v with VChar c => ret c | _ => fail E_OTHER end.
Definition pop_string : M N :=      (* the Rc id *)
  dom v <- pop_value; match v with VStr sid => ret sid | _ => fail E_OTHER end.
Definition pop_symbol : M text :=
  dom v <- pop_value; match v with VSym t => ret t | _ => fail E_OTHER end.
Definition pop_vector : M N :=      (* the Rc id *)
  dom v <- pop_value; match v with VVec vid => ret vid | _ => fail E_OTHER end.

(* get_as_cell inside M, with explicit fuel *)
Definition builtin_name_default (b : N) : text := [].
Definition as_cell (bname : N -> text) (fuel : nat) (v : vcell) : M cell := fun s =>
  lift (get_as_cell bname (hp s) (st s) fuel v) s.

(* the initial machine of Vm::new before load_builtins/load_prelude (vm/mod.rs:55-70) *)
Definition vm_empty (chunk_size : N) : vm :=
  mk_vm (heap_new chunk_size) store_empty [] [] stack_new STACK_INIT 0 0 USIZE_MAX (USIZE_MAX, 0) VUndef [].
