(* Digits.v — positional digit strings in an arbitrary radix: the common core of
   every integer printer/parser of the number tower (std's {} {:x} {:o} {:b} for
   integers, num-bigint's to_str_radix, char::to_digit).  Definitions only.      *)
From MW Require Import Model.Base.
Open Scope Z_scope.

(* char::to_digit(36): 0-9, a-z, A-Z; None for every other scalar value *)
Definition char_digit (c : cp) : option Z :=
  if ((48 <=? c) && (c <=? 57))%N then Some (Z.of_N c - 48)
  else if ((97 <=? c) && (c <=? 122))%N then Some (Z.of_N c - 87)
  else if ((65 <=? c) && (c <=? 90))%N then Some (Z.of_N c - 55)
  else None.

(* char::to_digit(radix) *)
Definition to_digit (radix : Z) (c : cp) : option Z :=
  match char_digit c with
  | Some d => if d <? radix then Some d else None
  | None => None
  end.

(* the lower-case digit character of a digit value 0..35 *)
Definition digit_char (d : Z) : cp := if d <? 10 then Z.to_N (48 + d) else Z.to_N (87 + d).

(* most significant digit first; [to_digits r 0 = [0]].  One fuel unit per digit:
   a number n >= 1 has at most log2 n + 1 digits in any radix >= 2. *)
Fixpoint to_digits_fuel (fuel : nat) (r n : Z) (acc : list Z) : list Z :=
  match fuel with
  | O => acc
  | S f => if n <? r then n :: acc else to_digits_fuel f r (n / r) (n mod r :: acc)
  end.
Definition to_digits (r n : Z) : list Z := to_digits_fuel (S (Z.to_nat (Z.log2 n))) r n [].

Definition of_digits (r : Z) (l : list Z) : Z := fold_left (fun a d => a * r + d) l 0.

(* unsigned rendering of n >= 0 *)
Definition show_nat_radix (r n : Z) : text := map digit_char (to_digits r n).
(* sign-magnitude rendering: what Display for i64/i32/BigInt and LowerHex/Octal/Binary
   for BigInt print *)
Definition show_int_radix (r z : Z) : text :=
  if z <? 0 then 45%N :: show_nat_radix r (- z) else show_nat_radix r z.

(* value of a digit string, every character must be a digit below the radix *)
Fixpoint digits_value (radix : Z) (l : text) (acc : Z) : option Z :=
  match l with
  | [] => Some acc
  | c :: r => match to_digit radix c with
              | Some d => digits_value radix r (acc * radix + d)
              | None => None
              end
  end.
