(* WireNumFmt.v — wire interfaces 20-29 (work package "numfmt"): see
   harness/src/area_numfmt.rs for the case formats.                            *)
From Coq Require Import String ZArith.
From Flocq Require Import IEEE754.BinarySingleNaN.
From MW Require Import Model.Base Model.F64 Model.Num Model.Digits Model.F64Fmt Model.NumFmt Model.Datum
  Model.NumProc Model.Lex Model.Parse.
Open Scope N_scope.

Definition zsign (s a : N) : Z := if s =? 1 then Z.opp (Z.of_N a) else Z.of_N a.

(* one number in the wire encoding; returns it and the rest of the case *)
Definition take_num (c : list N) : option (num * list N) :=
  match c with
  | 0 :: s :: a :: r => Some (Fixnum (zsign s a), r)
  | 1 :: s :: a :: r => Some (BigInt (zsign s a), r)
  | 2 :: ns :: na :: ds :: da :: r => Some (Rational (zsign ns na) (zsign ds da), r)
  | 3 :: b :: r => Some (Float (f64_of_bits (Z.of_N b)), r)
  | _ => None
  end.

Definition show_sz (z : Z) : list N :=
  (if (z <? 0)%Z then [49] else [48]) ++ [32] ++ show_N (Z.abs_N z).

Definition show_hexZ (z : Z) : list N := map digit_char (to_digits 16 z).

Definition show_num (n : num) : list N :=
  match n with
  | Fixnum z => S_ "FIX " ++ show_sz z
  | BigInt z => S_ "BIG " ++ show_sz z
  | Rational a b => S_ "RAT " ++ show_sz a ++ [32] ++ show_sz b
  | Float f => S_ "FLO " ++ show_hexZ (f64_bits f)
  end.

Definition show_res_cell (c : cell) : list N :=
  match c with
  | CNum n => show_num n
  | CStr s => S_ "STR " ++ esc_text s
  | CBool false => S_ "FALSE"
  | other => S_ "OTHER " ++ esc_text (write other)
  end.

Definition show_o {A} (f : A -> list N) (o : out A) : list N :=
  match o with
  | Ok a => S_ "OK " ++ f a
  | Err _ => S_ "ERR"
  | Panic _ => S_ "PANIC"
  | NoFuel => S_ "NOFUEL"
  end.

Definition ex_of (n : N) : exactness := if n =? 1 then Exact else if n =? 2 then Inexact else Unspecified.

Definition show_opt_num (o : option num) : list N :=
  match o with Some n => show_num n | None => S_ "NONE" end.

(* the printed spelling of z used as a source literal: '#x<spelling> read by
   parse_text (the quote keeps a symbol from being looked up) *)
Definition literal_of (radix : Z) (spelling : text) : list N :=
  match parse_text ([39] ++ radix_prefix radix ++ spelling) with
  | Ok (CPair (CSym _) (CPair d CNil), rest) =>
      show_res_cell d ++ (match rest with None => S_ " END" | Some _ => S_ " REST" end)
  | Ok _ => S_ "ERR"
  | Err _ => S_ "ERR"
  | Panic _ => S_ "PANIC"
  | NoFuel => S_ "NOFUEL"
  end.

Definition run_numfmt (c : list N) : list N :=
  match c with
  | 20 :: ex :: radix :: t =>
      show_o show_opt_num (parse_with_exactness t (ex_of ex) (Z.of_N radix))
  | 21 :: fmt :: r =>
      match take_num r with
      | Some (n, _) => show_o esc_text (number_to_text (Z.of_N fmt) n)
      | None => S_ "BADCASE"
      end
  | 22 :: 1 :: r =>
      match take_num r with
      | Some (z, _) => show_o show_res_cell (number_string [CNum z])
      | None => S_ "BADCASE"
      end
  | 22 :: 2 :: r =>
      match take_num r with
      | Some (rad, r2) =>
          match take_num r2 with
          | Some (z, _) => show_o show_res_cell (number_string [CNum z; CNum rad])
          | None => S_ "BADCASE"
          end
      | None => S_ "BADCASE"
      end
  | 23 :: 1 :: t => show_o show_res_cell (string_number [CStr t])
  | 23 :: 2 :: r =>
      match take_num r with
      | Some (rad, t) => show_o show_res_cell (string_number [CStr t; CNum rad])
      | None => S_ "BADCASE"
      end
  | 24 :: radix :: r =>
      match take_num r with
      | Some (z, _) =>
          let rad := CNum (Fixnum (Z.of_N radix)) in
          show_o show_res_cell (do s <- number_string [CNum z; rad]; string_number [s; rad])
      | None => S_ "BADCASE"
      end
  | 25 :: radix :: r =>
      match take_num r with
      | Some (z, _) =>
          let rad := CNum (Fixnum (Z.of_N radix)) in
          match number_string [CNum z; rad] with
          | Ok (CStr sp) =>
              S_ "OK " ++ esc_text sp ++ S_ " LIT " ++ literal_of (Z.of_N radix) sp
              ++ S_ " S2N " ++ (match string_number [CStr sp; rad] with
                                | Ok c => show_res_cell c
                                | Err _ => S_ "ERR"
                                | Panic _ => S_ "PANIC"
                                | NoFuel => S_ "NOFUEL"
                                end)
          | Ok _ => S_ "BADCASE"
          | Err _ => S_ "ERR"
          | Panic _ => S_ "PANIC"
          | NoFuel => S_ "NOFUEL"
          end
      | None => S_ "BADCASE"
      end
  | _ => S_ "BADCASE"
  end.
