(* Depth.v — native recursion depth of the recursive passes of marwood (property C19).

   A Gallina function cannot exhaust a native stack.  What is logic is the DEPTH of the
   Rust recursion as a function of the input: every definition below follows the call
   structure of the Rust function it names exactly — a (mutually) recursive call adds
   one, an iteration of a `loop`/`while`/`for` adds nothing — and returns the maximum
   number of simultaneously active frames of the *guarded* functions of its family
   (the functions that carry a `verif_depth::Guard`, marwood/src/verif_depth.rs):

     PARSE         parse, parse_list, parse_vector                  (parse.rs:57-202)
     TRANSFORM     Vm::transform                                    (vm/compile.rs:78-118)
     COMPILE       compile_expression, compile_quasiquote           (vm/compile.rs:129-721)
     FREE_SYMBOLS  find_free_symbols                                (vm/environment.rs:363-385)
     PUT_CELL      Heap::put_cell, Heap::maybe_put_cell             (vm/heap.rs:153-200)
     GET_AS_CELL   Heap::get_as_cell                                (vm/heap.rs:266-326)
     MARK          Heap::mark, Heap::mark_vcell                     (vm/heap.rs:335-456)
     EQUAL         Vm::equal, compare_pair, compare_vector          (vm/compare.rs:59-112)
     DISPLAY       <Cell as Display>::fmt                           (cell.rs:385-504)
     DROP / CLONE  the compiler-generated drop glue and the derived Clone of
                   Cell::Pair(Box<Cell>, Box<Cell>) / Cell::Vector(Vec<Cell>)  (cell.rs:9-27)

   Unguarded helper frames in between (parse_improper_list_tail,
   transform_procedure_application, compile_procedure_application, compile_if,
   mark_continuation, mark_lambda, fmt of Box<Cell>, ...) are not counted: the depth is
   in units of guarded frames, each of which costs at least one native frame.

   Two styles:
   * functions over tokens or over the heap (parse, transform, get_as_cell, mark, equal)
     are instrumented copies of the models in Parse.v / Compile.v / Heap.v / Gc.v: they
     return the depth NEXT TO the outcome, so that an error or panic that cuts a traversal
     short also cuts the depth;
   * functions whose control flow is determined by the datum alone (display, drop, clone,
     put_cell, compile, find_free_symbols) are structural functions of the datum.  For
     compile / find_free_symbols they describe a compilation that SUCCEEDS; on a form the
     compiler rejects the real traversal stops early and the real depth is <= this one.
   Definitions only; proofs are in Proofs/DepthProofs.v.                                  *)
From Coq Require Import String.
From MW Require Import Model.Base Model.F64 Model.Num Model.NumArith Model.NumFmt Model.Datum
  Model.Lex Model.Parse Model.TransformDef Model.Transform Model.VmTypes Model.Heap Model.VmBase
  Model.Compile Model.Gc.
Open Scope N_scope.

Definition nmax := Nat.max.

(* ======================================================================== PARSE *)
(* parse.rs:57-202.  [parse_d] is the depth including the frame of [parse];
   [plist_d]/[pvec_d] are the nested depth BELOW the frame of parse_list/parse_vector
   (their loops run in one frame).  Non-recursive arms defer to Parse.parse. *)
Definition out_map {A B} (f : A -> out B) (o : out A) : out B := bind o f.

Fixpoint parse_d (fuel : nat) (t : text) (ts : list token) {struct fuel}
    : nat * out (cell * list token) :=
  match fuel with
  | O => (1%nat, NoFuel)
  | S f =>
      match ts with
      | [] => (1%nat, Err E_INCOMPLETE)
      | k :: r =>
          match t_ty k with
          | TQuote => let '(d, o) := parse_d f t r in
                      (S d, do (x, r') <- o; Ok (new_list [CSym QUOTE; x], r'))
          | TQuasi => let '(d, o) := parse_d f t r in
                      (S d, do (x, r') <- o; Ok (new_list [CSym QUASIQUOTE; x], r'))
          | TUnquote => let '(d, o) := parse_d f t r in
                        (S d, do (x, r') <- o; Ok (new_list [CSym UNQUOTE; x], r'))
          | TLeft => let '(d, o) := plist_d f t r k [] in (S (S d), o)
          | THashParen => let '(d, o) := pvec_d f t r [] in (S (S d), o)
          | _ => (1%nat, parse 1 t ts)          (* atoms and stray tokens: no recursion *)
          end
      end
  end
with plist_d (fuel : nat) (t : text) (ts : list token) (start : token) (acc : list cell)
    {struct fuel} : nat * out (cell * list token) :=
  match fuel with
  | O => (0%nat, NoFuel)
  | S f =>
      match ts with
      | [] => (0%nat, Err E_INCOMPLETE)
      | k :: r =>
          match t_ty k with
          | TRight => (0%nat, parse_list 1 t ts start acc)
          | TDot =>
              (* parse_improper_list_tail (unguarded), parse.rs:143-164 *)
              match acc with
              | [] => (0%nat, Err E_OTHER)
              | _ =>
                  match r with
                  | [] => (0%nat, Err E_INCOMPLETE)
                  | k2 :: _ =>
                      match t_ty k2 with
                      | TDot | TRight => (0%nat, Err E_OTHER)
                      | _ =>
                          let '(d, o) := parse_d f t r in
                          (d, do (x, r2) <- o;
                              match r2 with
                              | [] => Err E_INCOMPLETE
                              | k3 :: r3 =>
                                  match t_ty k3 with
                                  | TRight => Ok (new_improper_list (rev acc) x, r3)
                                  | _ => Err E_OTHER
                                  end
                              end)
                      end
                  end
              end
          | _ =>
              let '(d, o) := parse_d f t ts in
              match o with
              | Ok (x, r') => let '(d2, o2) := plist_d f t r' start (x :: acc) in (nmax d d2, o2)
              | Err e => (d, Err e) | Panic p => (d, Panic p) | NoFuel => (d, NoFuel)
              end
          end
      end
  end
with pvec_d (fuel : nat) (t : text) (ts : list token) (acc : list cell)
    {struct fuel} : nat * out (cell * list token) :=
  match fuel with
  | O => (0%nat, NoFuel)
  | S f =>
      match ts with
      | [] => (0%nat, Err E_INCOMPLETE)
      | k :: r =>
          match t_ty k with
          | TRight => (0%nat, parse_vector 1 t ts acc)
          | TDot => (0%nat, Err E_OTHER)
          | _ =>
              let '(d, o) := parse_d f t ts in
              match o with
              | Ok (x, r') => let '(d2, o2) := pvec_d f t r' (x :: acc) in (nmax d d2, o2)
              | Err e => (d, Err e) | Panic p => (d, Panic p) | NoFuel => (d, NoFuel)
              end
          end
      end
  end.

(* parse_text with the depth: (PARSE depth, outcome of Parse.parse_text's datum) *)
Definition parse_text_d (t : text) : nat * out cell :=
  match scan t with
  | Ok ts => let '(d, o) := parse_d (parse_fuel ts) t ts in (d, do (x, _) <- o; Ok x)
  | Err e => (0%nat, Err e) | Panic p => (0%nat, Panic p) | NoFuel => (0%nat, NoFuel)
  end.

(* ============================================== DISPLAY, DROP, CLONE, PUT_CELL *)
Fixpoint list_max (l : list nat) : nat :=
  match l with [] => O | x :: r => nmax x (list_max r) end.

(* <Cell as Display>::fmt, cell.rs:385-504: the quote sugar calls fmt on the quoted
   datum; otherwise the loop prints every car through `write!` (a nested fmt) and follows
   the cdr in the same frame; an improper tail is printed by a nested fmt. *)
Fixpoint display_depth (c : cell) {struct c} : nat :=
  match c with
  | CPair a d =>
      let fix rest (d : cell) {struct d} : nat :=
        match d with
        | CNil => O
        | CPair na nd => nmax (display_depth na) (rest nd)
        | other => display_depth other
        end in
      match d with
      | CPair x CNil => if sym_is a QUOTE then S (display_depth x)
                        else S (nmax (display_depth a) (rest d))
      | _ => S (nmax (display_depth a) (rest d))
      end
  | CVec l =>
      let fix elems (l : list cell) : nat :=
        match l with [] => O | x :: r => nmax (display_depth x) (elems r) end in
      S (elems l)
  | _ => 1%nat
  end.

(* drop glue of Cell (cell.rs:9-27): Pair(Box<Cell>, Box<Cell>) drops the car box and then
   the cdr box, each by a nested drop_in_place::<Cell>; Vector(Vec<Cell>) drops its
   elements in a loop, each by a nested call.  NOT iterative along cdr.  The derived Clone
   has the same shape. *)
Fixpoint drop_depth (c : cell) {struct c} : nat :=
  match c with
  | CPair a d => S (nmax (drop_depth a) (drop_depth d))
  | CVec l =>
      let fix elems (l : list cell) : nat :=
        match l with [] => O | x :: r => nmax (drop_depth x) (elems r) end in
      S (elems l)
  | _ => 1%nat
  end.
Definition clone_depth := drop_depth.

(* Heap::maybe_put_cell / put_cell, heap.rs:153-200: put_cell calls maybe_put_cell;
   a pair calls put_cell on the car AND on the cdr; a vector calls maybe_put_cell on
   every element.  (Continuation/Macro/Procedure data panic; they are never read.) *)
Fixpoint maybe_put_cell_depth (c : cell) {struct c} : nat :=
  match c with
  | CPair a d => S (nmax (S (maybe_put_cell_depth a)) (S (maybe_put_cell_depth d)))
  | CVec l =>
      let fix elems (l : list cell) : nat :=
        match l with [] => O | x :: r => nmax (maybe_put_cell_depth x) (elems r) end in
      S (elems l)
  | _ => 1%nat
  end.
Definition put_cell_depth (c : cell) : nat := S (maybe_put_cell_depth c).

(* ==================================================================== TRANSFORM *)
(* Vm::transform / transform_procedure_application, vm/compile.rs:78-118; instrumented
   copy of Compile.transform_expr.  Only [transform] is guarded. *)
Fixpoint transform_d (fuel : nat) (s : vm) (e : cell) {struct fuel} : nat * out cell :=
  match fuel with
  | O => (1%nat, NoFuel)
  | S f =>
      match e with
      | CPair proc rest =>
          if sym_eq proc "quote" || sym_eq proc "define-syntax" then (1%nat, Ok e) else
          match macro_of s proc with
          | Some tr =>
              match transform_apply tr e with
              | Ok x => let '(d, o) := transform_d f s x in (S d, o)
              | Err x => (1%nat, Err x) | Panic p => (1%nat, Panic p) | NoFuel => (1%nat, NoFuel)
              end
          | None =>
              let '(d1, o1) := transform_d f s proc in
              match o1 with
              | Ok p' =>
                  let fix over (r : cell) : nat * out cell :=
                    match r with
                    | CPair x r' =>
                        let '(dx, ox) := transform_d f s x in
                        match ox with
                        | Ok x' => let '(dr, or) := over r' in (nmax dx dr, do t <- or; Ok (CPair x' t))
                        | bad => (dx, bad)
                        end
                    | CNil => (O, Ok CNil)
                    | other => transform_d f s other
                    end in
                  let '(d2, o2) := over rest in
                  (S (nmax d1 d2), do t <- o2; Ok (CPair p' t))
              | bad => (S d1, bad)
              end
          end
      | _ => (1%nat, Ok e)
      end
  end.

(* ================================================= FREE_SYMBOLS and COMPILE *)
(* find_free_symbols / find_free_symbols_in_proc, vm/environment.rs:363-451 (model:
   Compile.ffs).  Quoted and quasiquoted forms are skipped; the head is visited when it
   is a pair; `define` and `lambda` skip their second element. *)
Fixpoint ffs_d (fuel : nat) (c : cell) {struct fuel} : nat :=
  match fuel with
  | O => 1%nat
  | S f =>
      match c with
      | CPair car cdr =>
          if sym_is car QUOTE || sym_is car QUASIQUOTE then 1%nat else
          let dcar := if is_pair car then ffs_d f car else O in
          let rest :=
            if sym_eq car "define" || sym_eq car "lambda"
            then match cdr with CPair _ r => Some r | _ => None end
            else Some cdr in
          match rest with
          | None => S dcar
          | Some r =>
              let fix over (r : cell) : nat :=
                match r with
                | CPair x r' => nmax (ffs_d f x) (over r')
                | CNil => O
                | other => ffs_d f other
                end in
              S (nmax dcar (over r))
          end
      | _ => 1%nat
      end
  end.
Definition ffs_depth (e : cell) : nat := ffs_d (S (cell_size e)) e.

(* compile_expression / compile_quasiquote and the special-form compilers between them
   (vm/compile.rs:129-721; model: Compile.compile_expression).  Result: (COMPILE depth
   including this frame, largest FREE_SYMBOLS depth of a free_symbols call made on the
   way — compile_lambda calls free_symbols on the whole lambda / define form). *)
Definition pmax (a b : nat * nat) : nat * nat := (nmax (fst a) (fst b), nmax (snd a) (snd b)).
Definition up (a : nat * nat) : nat * nat := (S (fst a), snd a).

Fixpoint ce_d (fuel : nat) (e : cell) {struct fuel} : nat * nat :=
  match fuel with
  | O => (1%nat, O)
  | S f =>
      let fix body_d (b : cell) : nat * nat :=
        match b with CPair x r => pmax (ce_d f x) (body_d r) | _ => (O, O) end in
      (* compile_lambda, compile.rs:398-460 *)
      let lambda_d (expr : cell) : nat * nat :=
        match expr with
        | CPair _ (CPair _ body) => pmax (O, ffs_depth expr) (body_d body)
        | _ => (O, O)
        end in
      match e with
      | CPair proc rest =>
          if sym_eq proc "define" then
            match rest with
            | CPair (CSym _) (CPair v CNil) => up (ce_d f v)
            | CPair (CPair _ _) (CPair _ _) => up (lambda_d e)
            | _ => (1%nat, O)
            end
          else if sym_eq proc "define-syntax" then (1%nat, O)
          else if sym_eq proc "lambda" || sym_is proc [955] then up (lambda_d e)
          else if sym_eq proc "quasiquote" then
            match rest with CPair x _ => up (cq_d f x 0) | _ => (1%nat, O) end
          else if sym_eq proc "quote" then (1%nat, O)
          else if sym_eq proc "if" then
            if is_nil rest || negb (is_list rest) then (1%nat, O) else
            match cell_iter rest with
            | [t; c] => up (pmax (ce_d f t) (ce_d f c))
            | [t; c; a] => up (pmax (ce_d f t) (pmax (ce_d f c) (ce_d f a)))
            | _ => (1%nat, O)
            end
          else if sym_eq proc "set!" then
            match cell_iter rest with
            | [v; x] => if negb (is_symbol v) || is_primitive_symbol v then (1%nat, O)
                        else up (ce_d f x)
            | _ => (1%nat, O)
            end
          else
            (* compile_runtime_procedure_application: the arguments, then the operator *)
            up (pmax (body_d rest) (ce_d f proc))
      | _ => (1%nat, O)
      end
  end
with cq_d (fuel : nat) (e : cell) (depth : N) {struct fuel} : nat * nat :=
  match fuel with
  | O => (1%nat, O)
  | S f =>
      match e with
      | CVec items =>
          let fix items_d (l : list cell) : nat * nat :=
            match l with [] => (O, O) | x :: r => pmax (cq_d f x depth) (items_d r) end in
          up (items_d items)
      | CPair a d =>
          let is_unq := sym_is a UNQUOTE in
          if is_unq && (depth =? 0) then
            match d with CPair x _ => up (ce_d f x) | _ => (1%nat, O) end
          else
            let depth1 := if is_unq then depth - 1 else depth in
            let depth2 := if sym_is a QUASIQUOTE then depth1 + 1 else depth1 in
            let fix elems (r : cell) : nat * nat :=
              match r with CPair x r' => pmax (cq_d f x depth2) (elems r') | _ => (O, O) end in
            up (elems e)
      | _ => (1%nat, O)
      end
  end.
Definition compile_depth (e : cell) : nat * nat := ce_d (S (S (cell_size e))) e.

(* ================================================================== GET_AS_CELL *)
(* Heap::get_as_cell, heap.rs:266-326; instrumented copy of Heap.get_as_cell.
   [gac_d] includes the frame; [gac_loop_d] is the nested depth below the frame that
   runs the loop along the cdr of the pair (a . d). *)
Section GetAsCellD.
Variable bname : N -> text.
Variable h : heap.
Variable s : store.

Fixpoint gac_d (fuel : nat) (v : vcell) {struct fuel} : nat * out cell :=
  match fuel with
  | O => (1%nat, NoFuel)
  | S f =>
      match v with
      | VPair a d => let '(n, o) := gac_loop_d f a d in (S n, o)
      | VPtr p =>
          match heap_get h p with
          | Ok x => let '(n, o) := gac_d f x in (S n, o)
          | Err e => (1%nat, Err e) | Panic q => (1%nat, Panic q) | NoFuel => (1%nat, NoFuel)
          end
      | VVec vid =>
          match tget (vecs s) vid with
          | None => (1%nat, Panic 13)
          | Some l =>
              let fix elems (l : list vcell) : nat * out (list cell) :=
                match l with
                | [] => (O, Ok [])
                | x :: r =>
                    let '(dx, ox) := gac_d f x in
                    match ox with
                    | Ok c => let '(dr, or) := elems r in (nmax dx dr, do cs <- or; Ok (c :: cs))
                    | Err e => (dx, Err e) | Panic q => (dx, Panic q) | NoFuel => (dx, NoFuel)
                    end
                end in
              let '(n, o) := elems l in (S n, do cs <- o; Ok (CVec cs))
          end
      | _ => (1%nat, get_as_cell bname h s 1 v)          (* leaves: no recursion *)
      end
  end
with gac_loop_d (fuel : nat) (a d : N) {struct fuel} : nat * out cell :=
  match fuel with
  | O => (O, NoFuel)
  | S f =>
      let '(d1, o1) := gac_d f (VPtr a) in
      match o1 with
      | Ok ca =>
          match heap_get h d with
          | Ok (VPair a' d') =>
              let '(d2, o2) := gac_loop_d f a' d' in (nmax d1 d2, do rest <- o2; Ok (CPair ca rest))
          | Ok VNil => (d1, Ok (CPair ca CNil))
          | Ok other =>
              let '(d2, o2) := gac_d f other in (nmax d1 d2, do cd <- o2; Ok (CPair ca cd))
          | Err e => (d1, Err e) | Panic q => (d1, Panic q) | NoFuel => (d1, NoFuel)
          end
      | Err e => (d1, Err e) | Panic q => (d1, Panic q) | NoFuel => (d1, NoFuel)
      end
  end.
End GetAsCellD.

(* ========================================================================= MARK *)
(* Heap::mark / mark_vcell (guarded), mark_continuation / mark_lambda (not guarded),
   heap.rs:335-487; instrumented copy of Gc.mark / Gc.mark_vcell_f. *)
Definition dgm := (nat * out gmap)%type.

Section MarkD.
Variable h : heap.
Variable s : store.

Fixpoint seq_d {A} (f : A -> gmap -> dgm) (l : list A) (m : gmap) : dgm :=
  match l with
  | [] => (O, Ok m)
  | v :: r =>
      let '(d1, o) := f v m in
      match o with
      | Ok m1 => let '(d2, o2) := seq_d f r m1 in (nmax d1 d2, o2)
      | _ => (d1, o)
      end
  end.
Definition seq2 (f g : gmap -> dgm) (m : gmap) : dgm :=
  let '(d1, o) := f m in
  match o with
  | Ok m1 => let '(d2, o2) := g m1 in (nmax d1 d2, o2)
  | _ => (d1, o)
  end.

Section MarkVcellD.
Variable mark_rec : N -> gmap -> dgm.       (* Heap::mark, depth including its frame *)

(* bodies of mark_continuation (461-467) and mark_lambda (472-487): nested depth *)
Definition cont_body_d (mv : vcell -> gmap -> dgm) (cid : N) (m : gmap) : dgm :=
  match tget (conts s) cid with
  | None => (O, Panic 63)
  | Some k => seq2 (seq_d mv (k_stack k)) (seq2 (mark_rec (fst (k_ip k))) (mark_rec (k_ep k))) m
  end.
Definition lambda_body_d (mv : vcell -> gmap -> dgm) (lid : N) (m : gmap) : dgm :=
  match tget (lams s) lid with
  | None => (O, Panic 63)
  | Some lam =>
      seq2 (seq_d mv (l_bc lam)) (seq2 (seq_d mv (l_args lam)) (seq_d mv (map fst (l_envmap lam)))) m
  end.
Definition vec_body_d (mv : vcell -> gmap -> dgm) (vid : N) (m : gmap) : dgm :=
  match tget (vecs s) vid with
  | None => (O, Panic 63)
  | Some l => seq_d mv l m
  end.

(* Heap::mark_vcell, 407-456: depth including its frame.  [vf] bounds the nesting of Rc
   payloads as in Gc.mark_vcell_f. *)
Fixpoint mark_vcell_d (vf : nat) (v : vcell) (m : gmap) {struct vf} : dgm :=
  match vf with
  | O => (1%nat, NoFuel)
  | S vf' =>
      let '(d, o) :=
        match v with
        | VIp lambda _ => mark_rec lambda m
        | VCont cid => cont_body_d (mark_vcell_d vf') cid m
        | VLambda lid => lambda_body_d (mark_vcell_d vf') lid m
        | VClosure lambda env => seq2 (mark_rec lambda) (mark_rec env) m
        | VPair car cdr => seq2 (mark_rec car) (mark_rec cdr) m
        | VPtr ptr => mark_rec ptr m
        | VLexPtr ptr _ => mark_rec ptr m
        | VVec vid => vec_body_d (mark_vcell_d vf') vid m
        | VEp ep => mark_rec ep m
        | _ => (O, Ok m)
        end in
      (S d, o)
  end.
End MarkVcellD.

(* Heap::mark, 335-405.  [mark_loop_d] is the nested depth below the frame of one call of
   mark (whose loop follows Pair-cdr and Ptr in the same frame); [mark_d] includes the
   frame. *)
Fixpoint mark_loop_d (vd : nat) (fuel : nat) (ptr : N) (m : gmap) {struct fuel} : dgm :=
  match fuel with
  | O => (O, NoFuel)
  | S f =>
      let mark_rec := fun p m => let '(d, o) := mark_loop_d vd f p m in (S d, o) in
      if negb (ptr <? hlen h) then (O, Ok m)
      else
        let vcell := cell_at h ptr in
        if g_is_used m ptr then (O, Ok m)
        else
          let m := tset m ptr GUsed in
          match vcell with
          | VPair car cdr =>
              let '(d1, o1) := mark_rec car m in
              match o1 with
              | Ok m1 => let '(d2, o2) := mark_loop_d vd f cdr m1 in (nmax d1 d2, o2)
              | _ => (d1, o1)
              end
          | VPtr cdr => mark_loop_d vd f cdr m
          | VCont cid => cont_body_d mark_rec (mark_vcell_d mark_rec vd) cid m
          | VLambda lid => lambda_body_d (mark_vcell_d mark_rec vd) lid m
          | VClosure lambda env => seq2 (mark_rec lambda) (mark_rec env) m
          | VLexEnv eid =>
              match tget (envs s) eid with
              | None => (O, Panic 63)
              | Some l => seq_d (mark_vcell_d mark_rec vd) l m
              end
          | VVec vid => vec_body_d (mark_vcell_d mark_rec vd) vid m
          | VEp p => mark_rec p m
          | _ => (O, Ok m)
          end
  end.
Definition mark_d (vd fuel : nat) (ptr : N) (m : gmap) : dgm :=
  let '(d, o) := mark_loop_d vd fuel ptr m in (S d, o).
End MarkD.

(* ======================================================================== EQUAL *)
(* Vm::eqv / equal / compare_pair / compare_vector, vm/compare.rs:26-112 (local model:
   the list/vector package's model is not part of this cone). *)
Section EqualD.
Variable prof : profile.
Variable h : heap.
Variable s : store.

Definition is_vptr (v : vcell) : bool := match v with VPtr _ => true | _ => false end.
Definition is_vpair (v : vcell) : bool := match v with VPair _ _ => true | _ => false end.
Definition deref1 (v : vcell) : out vcell :=
  match v with VPtr p => heap_get h p | _ => Ok v end.

(* compare.rs:26-57.  Ptr == Ptr compares addresses; numbers (after fix 8d5e4b4): flonums by
   bit pattern, mixed exactness never, exact ones by PartialEq of Number (NumArith.num_eq);
   String == String compares the contents of the two Rc. *)
Definition num_eqv_m (x y : num) : out bool :=
  match x, y with
  | Float a, Float b => Ok (f64_bits a =? f64_bits b)%Z
  | Float _, _ | _, Float _ => Ok false
  | _, _ => num_eq prof x y
  end.
Definition eqv_m (l r : vcell) : out bool :=
  match l, r with
  | VPtr a, VPtr b => if a =? b then Ok true else
      do l' <- heap_get h a; do r' <- heap_get h b;
      match l', r' with
      | VBool x, VBool y => Ok (Bool.eqb x y)
      | VNum x, VNum y => num_eqv_m x y
      | VNil, VNil => Ok true
      | VPair a1 d1, VPair a2 d2 => Ok ((a1 =? a2) && (d1 =? d2))
      | VChar x, VChar y => Ok (x =? y)
      | VStr x, VStr y =>
          match tget (strs s) x, tget (strs s) y with
          | Some tx, Some ty => Ok (text_eqb tx ty)
          | _, _ => Panic 13
          end
      | _, _ => Ok false
      end
  | _, _ =>
      do l' <- deref1 l; do r' <- deref1 r;
      match l', r' with
      | VBool x, VBool y => Ok (Bool.eqb x y)
      | VNum x, VNum y => num_eqv_m x y
      | VNil, VNil => Ok true
      | VPair a1 d1, VPair a2 d2 => Ok ((a1 =? a2) && (d1 =? d2))
      | VChar x, VChar y => Ok (x =? y)
      | VStr x, VStr y =>
          match tget (strs s) x, tget (strs s) y with
          | Some tx, Some ty => Ok (text_eqb tx ty)
          | _, _ => Panic 13
          end
      | _, _ => Ok false
      end
  end.

Definition dbool := (nat * out bool)%type.

(* [equal_d]: depth including the frame of equal; [cmp_pair_loop_d]: nested depth below the
   frame of compare_pair (its loop follows the two cdrs in one frame). *)
Fixpoint equal_d (fuel : nat) (left right : vcell) {struct fuel} : dbool :=
  match fuel with
  | O => (1%nat, NoFuel)
  | S f =>
      match eqv_m left right with
      | Ok true => (1%nat, Ok true)
      | Ok false =>
          match deref1 left, deref1 right with
          | Ok l', Ok r' =>
              match l', r' with
              | VPair _ _, VPair _ _ => let '(n, o) := cmp_pair_loop_d f l' r' in (S (S n), o)
              | VVec x, VVec y =>
                  (* compare_vector, 100-112: one nested frame, then equal per index *)
                  match tget (vecs s) x, tget (vecs s) y with
                  | Some lx, Some ly =>
                      if negb (length lx =? length ly)%nat then (2%nat, Ok false) else
                      let fix elems (lx ly : list vcell) : dbool :=
                        match lx, ly with
                        | a :: ra, b :: rb =>
                            let '(d1, o1) := equal_d f a b in
                            match o1 with
                            | Ok true => let '(d2, o2) := elems ra rb in (nmax d1 d2, o2)
                            | _ => (d1, o1)
                            end
                        | _, _ => (O, Ok true)
                        end in
                      let '(n, o) := elems lx ly in (S (S n), o)
                  | _, _ => (2%nat, Panic 13)
                  end
              | VStr x, VStr y =>
                  match tget (strs s) x, tget (strs s) y with
                  | Some tx, Some ty => (1%nat, Ok (text_eqb tx ty))
                  | _, _ => (1%nat, Panic 13)
                  end
              | _, _ => (1%nat, eqv_m l' r')
              end
          | Ok _, bad => (1%nat, do _ <- bad; Ok false)
          | bad, _ => (1%nat, do _ <- bad; Ok false)
          end
      | bad => (1%nat, bad)
      end
  end
with cmp_pair_loop_d (fuel : nat) (left right : vcell) {struct fuel} : dbool :=
  match fuel with
  | O => (O, NoFuel)
  | S f =>
      match left, right with
      | VPair lcar lcdr, VPair rcar rcdr =>
          let '(d1, o1) := equal_d f (VPtr lcar) (VPtr rcar) in
          match o1 with
          | Ok true =>
              match heap_get h lcdr, heap_get h rcdr with
              | Ok l', Ok r' =>
                  (* after fix 809a7ae: the final cdrs are compared like any other pair of objects *)
                  if is_vpair l' && is_vpair r'
                  then let '(d2, o2) := cmp_pair_loop_d f l' r' in (nmax d1 d2, o2)
                  else let '(d2, o2) := equal_d f (VPtr lcdr) (VPtr rcdr) in (nmax d1 d2, o2)
              | Ok _, bad => (d1, do _ <- bad; Ok false)
              | bad, _ => (d1, do _ <- bad; Ok false)
              end
          | _ => (d1, o1)
          end
      | _, _ => (O, eqv_m left right)
      end
  end.
End EqualD.

(* ============================================================ witness families *)
(* one family per direction; [k] is the nesting *)
Fixpoint nest_car (k : nat) : cell :=          (* ((( () ))) : k pairs through the car *)
  match k with O => CNil | S k' => CPair (nest_car k') CNil end.
Fixpoint chain_cdr (k : nat) : cell :=         (* (() () ... ()) : k pairs through the cdr *)
  match k with O => CNil | S k' => CPair CNil (chain_cdr k') end.
Fixpoint nest_vec (k : nat) : cell :=          (* #(#(#( () ))) *)
  match k with O => CNil | S k' => CVec [nest_vec k'] end.
Fixpoint quote_chain (k : nat) : cell :=       (* ''''a *)
  match k with O => CSym [97] | S k' => CPair (CSym QUOTE) (CPair (quote_chain k') CNil) end.
Fixpoint nest_app (k : nat) : cell :=          (* (f (f (f x))) *)
  match k with O => CSym [120] | S k' => CPair (CSym [102]) (CPair (nest_app k') CNil) end.
Fixpoint nest_qq (k : nat) : cell :=           (* (a (a (a b))) under one quasiquote *)
  match k with O => CSym [98] | S k' => CPair (CSym [97]) (CPair (nest_qq k') CNil) end.

(* token families (only the token types matter for the descent) *)
Definition tok (ty : ttype) (i : N) : token := mk_token i (i + 1) ty.
Fixpoint toks (ty : ttype) (i : N) (k : nat) : list token :=
  match k with O => [] | S k' => tok ty i :: toks ty (i + 1) k' end.
Definition lefts (k : nat) : list token := toks TLeft 0 k.
Fixpoint hash_toks (i : N) (k : nat) : list token :=
  match k with O => [] | S k' => mk_token i (i + 2) THashParen :: hash_toks (i + 2) k' end.
Definition hashes (k : nat) : list token := hash_toks 0 k.
Definition quotes (k : nat) : list token := toks TQuote 0 k.
(* the texts: "((( )))", "#(#(#( )))", "'''a", "(a a ... a)" *)
Definition nest_car_text (k : nat) : text := repeat 40 k ++ repeat 41 k.
Definition nest_vec_text (k : nat) : text := flat_map (fun _ => [35; 40]) (repeat tt k) ++ repeat 41 k.
Definition quote_chain_text (k : nat) : text := repeat 39 k ++ [97].
Definition chain_cdr_text (k : nat) : text := [40] ++ flat_map (fun _ => [97; 32]) (repeat tt k) ++ [41].
Fixpoint sym_toks (i : N) (k : nat) : list token :=
  match k with O => [] | S k' => mk_token i (i + 1) TSymbol :: sym_toks (i + 2) k' end.
Definition syms (k : nat) : list token := sym_toks 1 k.
Definition rights (i : N) (k : nat) : list token := toks TRight i k.
Definition nest_car_tokens (k : nat) : list token := lefts k ++ rights (N.of_nat k) k.
Definition nest_vec_tokens (k : nat) : list token := hashes k ++ rights (2 * N.of_nat k) k.
Definition quote_chain_tokens (k : nat) : list token := quotes k ++ [mk_token (N.of_nat k) (N.of_nat k + 1) TSymbol].
Definition chain_cdr_tokens (k : nat) : list token :=
  mk_token 0 1 TLeft :: syms k ++ [mk_token (1 + 2 * N.of_nat k) (2 + 2 * N.of_nat k) TRight].

(* heap families: address 0 holds (); address i+1 holds the pair built on address i *)
Fixpoint tbl_fill {A} (f : N -> A) (n : nat) (t : tbl A) : tbl A :=
  match n with O => t | S k => tset (tbl_fill f k t) (N.of_nat k) (f (N.of_nat k)) end.
Definition heap_of_fun (f : N -> vcell) (n : nat) : heap :=
  mk_heap (tbl_fill f n tempty) (N.of_nat n) [] tempty [] 4.
(* ((( () ))): cell i = (cell (i-1) . cell 0) *)
Definition car_cells (i : N) : vcell := if i =? 0 then VNil else VPair (i - 1) 0.
(* (() () ... ()): cell i = (cell 0 . cell (i-1)) *)
Definition cdr_cells (i : N) : vcell := if i =? 0 then VNil else VPair 0 (i - 1).
Definition car_heap (k : nat) : heap := heap_of_fun car_cells (S k).
Definition cdr_heap (k : nat) : heap := heap_of_fun cdr_cells (S k).
(* two disjoint car nests in one heap (for equal?): cells 2i-1 and 2i hold the i-th level *)
Definition car2_cells (i : N) : vcell :=
  if i =? 0 then VNil else if i <=? 2 then VPair 0 0 else VPair (i - 2) 0.
Definition car2_heap (k : nat) : heap := heap_of_fun car2_cells (S (2 * k)).
(* two disjoint cdr chains: cell i = (cell 0 . cell (i-2)) *)
Definition cdr2_cells (i : N) : vcell :=
  if i =? 0 then VNil else if i <=? 2 then VPair 0 0 else VPair 0 (i - 2).
Definition cdr2_heap (k : nat) : heap := heap_of_fun cdr2_cells (S (2 * k)).
(* nested vectors: cell 0 = (), cell i = Vector(Rc i) whose only element is Ptr (i-1) *)
Definition vec_cells (i : N) : vcell := if i =? 0 then VNil else VVec i.
Definition vec_heap (k : nat) : heap := heap_of_fun vec_cells (S k).
Definition vec_store (k : nat) : store :=
  mk_store tempty (tbl_fill (fun i => [VPtr (i - 1)]) (S k) tempty) tempty tempty tempty tempty (N.of_nat (S k)).

(* the two scenario-level predicates of the property, per direction family *)
Definition depth_bounded {X} (family : nat -> X) (depth : X -> nat) : Prop :=
  exists K, forall k, (depth (family k) <= K)%nat.
Definition depth_unbounded {X} (family : nat -> X) (depth : X -> nat) : Prop :=
  forall K, (depth (family (S K)) > K)%nat.
