(* WireGc.v — wire interfaces of the "gc" area (see docs/AGENT_GUIDE.md for the id range).
   [run_gc c] receives the whole case (first element = interface id). *)
From Coq Require Import String.
From MW Require Import Model.Base Model.Datum.
Open Scope N_scope.

Definition run_gc (c : list N) : list N := S_ "BADCASE".
