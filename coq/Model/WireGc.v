(* WireGc.v — wire interfaces of the "gc" area (ids 60-69).
   61: a heap snapshot taken by the harness before a collection (harness/src/area_gc.rs
       `snapshot`) is decoded into a machine state; Model/Gc.v's mark + sweep runs on it and
       the resulting allocated set, free-list order and symbol table are printed in the
       canonical form the harness prints for the real heap after the real collection.
   62: the packed two-bit map of gc.rs: a sequence of set/get operations.
   65: string->symbol / symbol->string (Model/SymbolB.v).
   60/63/64 are implementation-only interfaces (sessions under a collection schedule);
   their model answer is "same as schedule none", computed by the Python oracle.        *)
From Coq Require Import String.
From MW Require Import Model.Base Model.F64 Model.Num Model.Datum Model.TransformDef
  Model.VmTypes Model.Heap Model.Gc Model.SymbolB.
Open Scope N_scope.

(* --------------------------------------------------------------- a list parser *)
Definition P (A : Type) := list N -> option (A * list N).
Definition pret {A} (a : A) : P A := fun l => Some (a, l).
Definition pbind {A B} (p : P A) (f : A -> P B) : P B :=
  fun l => match p l with Some (a, r) => f a r | None => None end.
Notation "'dop' x <- e1 ; e2" := (pbind e1 (fun x => e2))
  (at level 200, x pattern, e1 at level 100, e2 at level 200, right associativity).
Definition pnum : P N := fun l => match l with x :: r => Some (x, r) | [] => None end.
Fixpoint prep {A} (n : nat) (p : P A) : P (list A) :=
  match n with
  | O => pret []
  | S k => dop a <- p; dop r <- prep k p; pret (a :: r)
  end.
(* a count followed by that many items *)
Definition pcounted {A} (p : P A) : P (list A) := dop n <- pnum; prep (N.to_nat n) p.

(* vcell encoding, see area_gc.rs Ser::vcell.  Numbers, builtins and opcodes carry no
   payload on the wire (the collector does not look at them). *)
Definition pvcell : P vcell :=
  dop tag <- pnum;
  match tag with
  | 0 => dop b <- pnum; pret (VBool (negb (b =? 0)))
  | 1 => dop c <- pnum; pret (VChar c)
  | 2 => pret VNil
  | 3 => pret (VNum (Fixnum 0))
  | 4 => dop a <- pnum; dop d <- pnum; pret (VPair a d)
  | 5 => dop t <- pcounted pnum; pret (VSym t)
  | 6 => dop i <- pnum; pret (VStr i)
  | 7 => dop i <- pnum; pret (VVec i)
  | 8 => pret VUndef
  | 9 => pret VVoid
  | 10 => dop i <- pnum; pret (VCont i)
  | 11 => dop l <- pnum; dop e <- pnum; pret (VClosure l e)
  | 12 => dop i <- pnum; pret (VLambda i)
  | 13 => dop i <- pnum; pret (VLexEnv i)
  | 14 => dop i <- pnum; pret (VLexSlot i)
  | 15 => dop e <- pnum; dop i <- pnum; pret (VLexPtr e i)
  | 16 => dop i <- pnum; pret (VMacro i)
  | 17 => pret VAcc
  | 18 => dop n <- pnum; pret (VArgc n)
  | 19 => dop n <- pnum; pret (VBp n)
  | 20 => dop sg <- pnum; dop mag <- pnum;
          pret (VBpOff (if sg =? 0 then Z.of_N mag else (- Z.of_N mag)%Z))
  | 21 => pret (VBuiltin 0)
  | 22 => dop p <- pnum; pret (VEp p)
  | 23 => dop i <- pnum; pret (VGSlot i)
  | 24 => dop l <- pnum; dop i <- pnum; pret (VIp l i)
  | 25 => pret (VOp OHalt)
  | 26 => dop p <- pnum; pret (VPtr p)
  | _ => fun _ => None
  end.

Definition gcstate_of (n : N) : gcstate :=
  match n with 0 => GFree | 1 => GAllocated | _ => GUsed end.

Definition pcellrow : P (N * gcstate * vcell) :=
  dop a <- pnum; dop s <- pnum; dop v <- pvcell; pret (a, gcstate_of s, v).
Definition psymrow : P (text * N) :=
  dop a <- pnum; dop t <- pcounted pnum; pret (t, a).
Definition plam : P lambda :=
  dop bc <- pcounted pvcell; dop args <- pcounted pvcell; dop keys <- pcounted pvcell;
  pret (mk_lambda false false (map (fun k => (k, BGlobal)) keys) args bc None).
Definition pcont : P cont :=
  dop stk <- pcounted pvcell; dop ip0 <- pnum; dop ip1 <- pnum; dop ep <- pnum;
  dop bp <- pnum; dop sp <- pnum; pret (mk_cont stk sp ep (ip0, ip1) bp).
Definition pbindrow : P (N * N) := dop k <- pnum; dop s <- pnum; pret (k, s).

Fixpoint tbl_of_list {A} (l : list A) (i : N) (t : tbl A) : tbl A :=
  match l with [] => t | x :: r => tbl_of_list r (i + 1) (tset t i x) end.

Definition psnapshot : P vm :=
  dop hl <- pnum; dop ch <- pnum;
  dop rows <- pcounted pcellrow;
  dop fl <- pcounted pnum;
  dop syms <- pcounted psymrow;
  dop vs <- pcounted (pcounted pvcell);
  dop es <- pcounted (pcounted pvcell);
  dop ls <- pcounted plam;
  dop ks <- pcounted pcont;
  dop binds <- pcounted pbindrow;
  dop slots <- pcounted pvcell;
  dop stk <- pcounted pvcell;
  dop acc <- pvcell;
  dop ip0 <- pnum; dop ip1 <- pnum; dop ep <- pnum; dop bp <- pnum;
  let cs := fold_left (fun t r => match r with (a, _, v) => tset t a v end) rows tempty in
  let gm := fold_left (fun t r => match r with (a, s, _) => tset t a s end) rows tempty in
  let h := mk_heap cs hl fl gm syms ch in
  let s := mk_store tempty (tbl_of_list vs 0 tempty) (tbl_of_list es 0 tempty)
                    (tbl_of_list ls 0 tempty) (tbl_of_list ks 0 tempty) tempty 0 in
  pret (mk_vm h s binds slots (tbl_of_list stk 0 tempty) (N.of_nat (length stk))
              (N.of_nat (length stk) - 1) bp ep (ip0, ip1) acc []).

(* ------------------------------------------------------------ canonical line *)
Definition P61 : N := 2305843009213693951.
Definition hash_seq (l : list N) : N :=
  fold_left (fun h x => (h * 1000003 + (x mod P61) + 1) mod P61) l 7.

Fixpoint alloc_list (m : gmap) (want : gcstate -> bool) (a : N) (n : nat) : list N :=
  match n with
  | O => []
  | S k => if want (g_get m a) then a :: alloc_list m want (a + 1) k else alloc_list m want (a + 1) k
  end.

Definition is_alloc (s : gcstate) := match s with GAllocated => true | _ => false end.
Definition is_used (s : gcstate) := match s with GUsed => true | _ => false end.

Definition show_Ns (l : list N) : list N := flat_map (fun x => 32 :: show_N x) l.

Definition show_after (verbose : bool) (h : heap) : list N :=
  let n := N.to_nat (hlen h) in
  let al := alloc_list (gcmap h) is_alloc 0 n in
  let us := alloc_list (gcmap h) is_used 0 n in
  let hs := fold_left (fun acc e => (acc + hash_seq (snd e :: fst e)) mod P61) (symtab h) 0 in
  S_ "OK alloc " ++ show_N (N.of_nat (length al)) ++ [32] ++ show_N (hash_seq al)
  ++ S_ " free " ++ show_N (N.of_nat (length (free_list h))) ++ [32] ++ show_N (hash_seq (free_list h))
  ++ S_ " sym " ++ show_N (N.of_nat (length (symtab h))) ++ [32] ++ show_N hs
  ++ S_ " used " ++ show_N (N.of_nat (length us))
  ++ (if verbose then S_ " ALLOC" ++ show_Ns al ++ S_ " FREE" ++ show_Ns (free_list h) else []).

Definition run_snapshot (verbose : bool) (l : list N) : list N :=
  match psnapshot l with
  | Some (v, []) =>
      let fuel := S (unmarked (hp v) (gcmap (hp v))) in
      match collect (store_depth (st v)) fuel (map fst (g_bind v)) v with
      | Ok h => show_after verbose h
      | Err _ => S_ "ERR"
      | Panic _ => S_ "PANIC"
      | NoFuel => S_ "NOFUEL"
      end
  | _ => S_ "BADCASE"
  end.

(* ------------------------------------------------- 62: packed map operations *)
(* 62 size { 0 index | 1 index state }*  : get / set; prints each get result *)
Definition show_state (s : option gcstate) : list N :=
  match s with
  | None => S_ " N" | Some GFree => S_ " F" | Some GAllocated => S_ " A" | Some GUsed => S_ " U"
  end.
Fixpoint pmap_ops (fuel : nat) (m : pmap) (l : list N) (acc : list N) : list N :=
  match fuel with
  | O => acc
  | S f =>
      match l with
      | 0 :: i :: r =>
          match pmap_get m i with
          | Ok s => pmap_ops f m r (acc ++ show_state s)
          | _ => acc ++ S_ " PANIC"
          end
      | 1 :: i :: s :: r =>
          match pmap_set m i (gcstate_of s) with
          | Ok m1 => pmap_ops f m1 r acc
          | _ => acc ++ S_ " PANIC"
          end
      | 2 :: n :: r =>
          match pmap_resize m n with
          | Ok m1 => pmap_ops f m1 r acc
          | _ => acc ++ S_ " PANIC"
          end
      | _ => acc
      end
  end.
Definition run_pmap (l : list N) : list N :=
  match l with
  | size :: ops =>
      match pmap_new size with
      | Ok m => S_ "OK" ++ pmap_ops (length ops) m ops []
      | _ => S_ "PANIC"
      end
  | [] => S_ "BADCASE"
  end.

(* ------------------------------------------------------- 65: symbol builtins *)
(* 65 0 text : string->symbol        -> the symbol's stored name
   65 1 text : symbol->string        -> the string
   65 2 text : symbol->string (string->symbol text) *)
Definition show_text_out (o : out text) : list N :=
  match o with
  | Ok t => S_ "OK " ++ esc_text t
  | Err e => if e =? E_INCOMPLETE then S_ "ERR incomplete" else S_ "ERR"
  | Panic _ => S_ "PANIC"
  | NoFuel => S_ "NOFUEL"
  end.
Definition run_symbol (l : list N) : list N :=
  match l with
  | 0 :: t => show_text_out (Ok (string_to_symbol t))
  | 1 :: t => show_text_out (symbol_to_string t)
  | 2 :: t => show_text_out (symbol_to_string (string_to_symbol t))
  | _ => S_ "BADCASE"
  end.

Definition run_gc (c : list N) : list N :=
  match c with
  | 61 :: verbose :: rest => run_snapshot (negb (verbose =? 0)) rest
  | 62 :: rest => run_pmap rest
  | 65 :: rest => run_symbol rest
  | _ => S_ "BADCASE"
  end.
