(* Compile.v — marwood/src/vm/compile.rs, the analyses of vm/environment.rs
   (free symbols, internal definitions, environment maps) and vm/lambda.rs
   (binding_location).  Definitions only.  Compilation allocates symbols, quoted
   data and lambdas on the model heap and creates global slots, so every function
   lives in the state monad [M] of VmBase.v.                                     *)
From Coq Require Import String.
From MW Require Import Model.Base Model.F64 Model.Num Model.Datum Model.TransformDef Model.Transform
  Model.VmTypes Model.Heap Model.VmBase.
Open Scope N_scope.

(* ----------------------------------------------------------- cell helpers *)
Definition is_pair (c : cell) : bool := match c with CPair _ _ => true | _ => false end.
Definition is_nil (c : cell) : bool := match c with CNil => true | _ => false end.
Definition is_symbol (c : cell) : bool := match c with CSym _ => true | _ => false end.
Definition sym_eq (c : cell) (s : String.string) : bool := sym_is c (S_ s).

(* cell.rs:199-215 *)
Definition is_primitive_symbol (c : cell) : bool :=
  sym_eq c "define" || sym_eq c "lambda" || sym_eq c "if" || sym_eq c "quasiquote"
  || sym_eq c "quote" || sym_eq c "set!" || sym_eq c "unquote".

(* Cell::iter (cell.rs:310-327): the elements, an improper tail counted as a last element *)
Fixpoint cell_iter (c : cell) : list cell :=
  match c with
  | CPair a d => a :: cell_iter d
  | CNil => []
  | other => [other]
  end.
(* Cell::is_list (cell.rs:127-140): a pair whose cdr chain ends in nil *)
Fixpoint ends_in_nil (c : cell) : bool :=
  match c with CPair _ d => ends_in_nil d | CNil => true | _ => false end.
Definition is_list (c : cell) : bool := is_pair c && ends_in_nil c.

Fixpoint cell_size (c : cell) : nat :=
  match c with
  | CPair a d => S (cell_size a + cell_size d)
  | CVec l => S (fold_right (fun x n => cell_size x + n)%nat O l)
  | _ => 1%nat
  end.

Fixpoint cell_eqb (fuel : nat) (a b : cell) : bool :=
  match a, b with
  | CSym x, CSym y => text_eqb x y
  | _, _ => false
  end.
Definition cell_in_syms (c : cell) (l : list cell) : bool :=
  match c with CSym x => existsb (fun y => sym_is y x) l | _ => false end.

(* car! / cdr! macros of compile.rs:16-30: Err(ExpectedPairButFound) *)
Definition car_e (c : cell) : out cell := match c with CPair a _ => Ok a | _ => Err E_OTHER end.
Definition cdr_e (c : cell) : out cell := match c with CPair _ d => Ok d | _ => Err E_OTHER end.

(* ------------------------------------------------- environment.rs analyses *)
(* find_free_symbols / find_free_symbols_in_proc, environment.rs:355-451.  [env]
   and [free] are lists of symbol cells; the Rust uses HashSets: the model's free
   list is duplicate-free in first-insertion order.  Fuel: the recursion is
   structural on the datum, [cell_size] suffices. *)
Definition add_sym (c : cell) (l : list cell) : list cell :=
  if cell_in_syms c l then l else l ++ [c].

Fixpoint ffs (fuel : nat) (c : cell) (env free : list cell) {struct fuel} : out (list cell) :=
  match fuel with
  | O => NoFuel
  | S f =>
      match c with
      | CSym _ => Ok (if cell_in_syms c env then free else add_sym c free)
      | CPair car cdr =>
          (* find_free_symbols_in_proc on a clone of env *)
          if sym_is car QUOTE || sym_is car QUASIQUOTE then Ok free else
          let free1 := if is_symbol car && negb (is_primitive_symbol car) && negb (cell_in_syms car env)
                       then add_sym car free else free in
          do free2 <- (if is_pair car then ffs f car env free1 else Ok free1);
          do (env', rest) <-
            (if sym_eq car "define" then
               match cdr with
               | CPair sym_or_args rest =>
                   let env' := match sym_or_args with
                               | CPair _ args => fold_left (fun e s => if is_symbol s then s :: e else e)
                                                           (cell_iter args) env
                               | _ => env end in
                   Ok (env', rest)
               | _ => Err E_OTHER
               end
             else if sym_eq car "lambda" then
               match cdr with
               | CPair args rest =>
                   let fix formals (a : cell) (e : list cell) : out (list cell) :=
                     match a with
                     | CPair s r => if is_symbol s then formals r (s :: e) else Err E_OTHER
                     | _ => Ok e
                     end in
                   do env' <- formals args env; Ok (env', rest)
               | _ => Err E_OTHER
               end
             else Ok (env, cdr));
          let fix over (r : cell) (free : list cell) {struct r} : out (list cell) :=
            match r with
            | CPair x r' => do fr <- ffs f x env' free; over r' fr
            | CNil => Ok free
            | other => ffs f other env' free
            end in
          over rest free2
      | _ => Ok free
      end
  end.
Definition free_symbols (e : cell) : out (list cell) := ffs (S (cell_size e)) e [] [].

(* internally_defined_symbols, environment.rs:467-489 *)
Fixpoint ids_loop (l : list cell) (beginning : bool) (acc : list cell) : out (list cell) :=
  match l with
  | [] => Ok acc
  | e :: r =>
      match e with
      | CPair a d =>
          if sym_eq a "define" then
            if negb beginning then Err E_OTHER else
            let acc' := match d with
                        | CPair (CSym s) _ => add_sym (CSym s) acc
                        | CPair (CPair (CSym s) _) _ => add_sym (CSym s) acc
                        | _ => acc end in
            ids_loop r beginning acc'
          else ids_loop r false acc
      | _ => ids_loop r false acc
      end
  end.
Definition internally_defined_symbols (body : cell) : out (list cell) := ids_loop (cell_iter body) true [].

(* ------------------------------------------------------- vcell equality *)
(* derived PartialEq on VCell, restricted to the constructors that occur as
   symbol references in lambdas' args/envmaps (pointers) *)
Definition vptr_eqb (a b : vcell) : bool :=
  match a, b with VPtr x, VPtr y => x =? y | _, _ => false end.

Fixpoint find_index {A} (p : A -> bool) (l : list A) (i : N) : option N :=
  match l with [] => None | x :: r => if p x then Some i else find_index p r (i + 1) end.

(* EnvironmentMap::get_slot, environment.rs:129-135 *)
Definition envmap_slot (m : list (vcell * bsrc)) (sym : vcell) : option N :=
  find_index (fun e => vptr_eqb (fst e) sym) m 0.

(* EnvironmentMap::new_from_iof, environment.rs:94-125 *)
Definition envmap_new (args internal : list vcell) (iof : lambda) (free : list vcell) : list (vcell * bsrc) :=
  let fix enum (l : list vcell) (i : N) := match l with [] => [] | x :: r => (x, BArgument i) :: enum r (i + 1) end in
  enum args 0
  ++ map (fun x => (x, BInternalDefinition)) internal
  ++ flat_map (fun sym =>
       match envmap_slot (l_envmap iof) sym with
       | Some slot => [(sym, BIofEnvironment slot)]
       | None => match find_index (fun a => vptr_eqb a sym) (l_args iof) 0 with
                 | Some n => [(sym, BIofArgument n)]
                 | None => []
                 end
       end) free.

(* Lambda::binding_location, lambda.rs:118-126 *)
Definition binding_location (l : lambda) (sym : vcell) : bloc :=
  match envmap_slot (l_envmap l) sym with
  | Some slot => LEnvironment slot
  | None => match find_index (fun a => vptr_eqb a sym) (l_args l) 0 with
            | Some n => LArgument n
            | None => LGlobal
            end
  end.

(* -------------------------------------------------------- lambda builder *)
(* while a lambda is being compiled its bytecode is kept REVERSED (emit = cons) *)
Definition lambda_new (args : list vcell) : lambda := mk_lambda false false [] args [] None.
Definition emit (l : lambda) (v : vcell) : lambda :=
  mk_lambda (l_top l) (l_vararg l) (l_envmap l) (l_args l) (v :: l_bc l) (l_desc l).
Definition emit_op (l : lambda) (o : opcode) : lambda := emit l (VOp o).
Definition bc_len (l : lambda) : N := len (l_bc l).
(* *lambda.bc.get_mut(i) = v  on the reversed list *)
Definition bc_patch (l : lambda) (i : N) (v : vcell) : lambda :=
  mk_lambda (l_top l) (l_vararg l) (l_envmap l) (l_args l)
            (list_set (l_bc l) (bc_len l - 1 - i) v) (l_desc l).
Definition lambda_finish (l : lambda) : lambda :=
  mk_lambda (l_top l) (l_vararg l) (l_envmap l) (l_args l) (rev (l_bc l)) (l_desc l).
Definition set_top (l : lambda) : lambda :=
  mk_lambda true (l_vararg l) (l_envmap l) (l_args l) (l_bc l) (l_desc l).
Definition set_desc (l : lambda) (d : cell) : lambda :=
  mk_lambda (l_top l) (l_vararg l) (l_envmap l) (l_args l) (l_bc l) (Some d).
Definition lambda_from_iof (args internal : list vcell) (iof : lambda) (free : list vcell) (vararg : bool) : lambda :=
  mk_lambda false vararg (envmap_new args internal iof free) args [] None.

(* ------------------------------------------------------ state operations *)
Definition put_cell_m (c : cell) : M vcell := fun s =>
  match put_cell (hp s) (st s) c with
  | Ok (v, h, x) => ROk v (with_store (with_heap s h) x)
  | Err e => RErr e [] s | Panic k => RPanic k | NoFuel => RNoFuel
  end.
Definition maybe_put_cell_m (c : cell) : M vcell := fun s =>
  match maybe_put_cell (hp s) (st s) c with
  | Ok (v, h, x) => ROk v (with_store (with_heap s h) x)
  | Err e => RErr e [] s | Panic k => RPanic k | NoFuel => RNoFuel
  end.
Definition put_lambda (l : lambda) : M vcell := fun s =>
  let '(lid, x) := new_lam (st s) (lambda_finish l) in
  let '(p, h) := heap_put (hp s) (VLambda lid) in
  ROk p (with_store (with_heap s h) x).

Fixpoint assoc_find (l : list (N * N)) (k : N) : option N :=
  match l with [] => None | (a, b) :: r => if a =? k then Some b else assoc_find r k end.

(* GlobalEnvironment::get_binding, environment.rs:222-233 *)
Definition get_binding (sym : N) : M N := fun s =>
  match assoc_find (g_bind s) sym with
  | Some slot => ROk slot s
  | None => let slot := len (g_slots s) in
            ROk slot (with_globals s ((sym, slot) :: g_bind s) (g_slots s ++ [VUndef]))
  end.
(* GlobalEnvironment::get (deep lookup by symbol address): Some slot value *)
Definition global_get (s : vm) (sym : N) : option vcell :=
  match assoc_find (g_bind s) sym with
  | Some slot => list_get (g_slots s) slot
  | None => None
  end.

(* emit the operand that names the location of [sym_ref] (compile.rs:207-228 etc.) *)
Definition location_operand (l : lambda) (sym_ref : vcell) : M vcell :=
  match binding_location l sym_ref with
  | LGlobal =>
      match sym_ref with
      | VPtr p => dom slot <- get_binding p; ret (VGSlot slot)
      | _ => panic 30            (* sym_ref.as_ptr().expect("expected ptr") *)
      end
  | LArgument n => ret (VBpOff (0 - Z.of_N (len (l_args l)) + Z.of_N n + 1)%Z)
  | LEnvironment n => ret (VLexSlot n)
  end.

(* ------------------------------------------------ macro expansion driver *)
(* compile.rs:78-118.  The expansion of a macro use is transformed again, which is
   not structural: fuel. *)
Definition macro_of (s : vm) (proc : cell) : option transform :=
  match proc with
  | CSym name =>
      match symtab_find (symtab (hp s)) name with
      | None => None
      | Some p =>
          match global_get s p with
          | Some (VPtr q) =>
              match tget (cells (hp s)) q with
              | Some (VMacro mid) => tget (macros (st s)) mid
              | _ => None
              end
          | Some (VMacro mid) => tget (macros (st s)) mid
          | _ => None
          end
      end
  | _ => None
  end.

Fixpoint transform_expr (fuel : nat) (s : vm) (e : cell) {struct fuel} : out cell :=
  match fuel with
  | O => NoFuel
  | S f =>
      match e with
      | CPair proc rest =>
          if sym_eq proc "quote" || sym_eq proc "define-syntax" then Ok e else
          match macro_of s proc with
          | Some tr => do x <- transform_apply tr e; transform_expr f s x
          | None =>
              do p' <- transform_expr f s proc;
              let fix over (r : cell) : out cell :=
                match r with
                | CPair x r' => do x' <- transform_expr f s x; do t <- over r'; Ok (CPair x' t)
                | CNil => Ok CNil
                | other => transform_expr f s other
                end in
              do t <- over rest; Ok (CPair p' t)
          end
      | _ => Ok e
      end
  end.
(* fuel for the expansion driver: generous, proportional to the form *)
Definition TRANSFORM_FUEL : nat := 4000.

(* ---------------------------------------------------------------- compiler *)
Definition CAFEBEEF : N := 3405692655.

(* compile_formal_arguments, compile.rs:462-494 *)
Fixpoint compile_formals (a : cell) (acc : list vcell) : M (list vcell * bool) :=
  match a with
  | CPair s r =>
      if negb (is_symbol s) then fail E_OTHER
      else if is_primitive_symbol s then fail E_OTHER
      else dom p <- put_cell_m s; compile_formals r (p :: acc)
  | CSym _ =>
      if is_primitive_symbol a then fail E_OTHER
      else dom p <- put_cell_m a; ret (rev (p :: acc), true)
  | _ => ret (rev acc, false)
  end.

(* is_datum, compile.rs:33-40: a procedure, continuation or macro object is not a datum, it
   cannot be stored as a constant (Heap::put_cell panics on it) *)
Fixpoint cell_is_datum (c : cell) : bool :=
  match c with
  | CProc _ | CMacro | CCont => false
  | CPair a d => cell_is_datum a && cell_is_datum d
  | CVec l => forallb cell_is_datum l
  | _ => true
  end.

Fixpoint put_cells (l : list cell) : M (list vcell) :=
  match l with
  | [] => ret []
  | c :: r => dom p <- put_cell_m c; dom ps <- put_cells r; ret (p :: ps)
  end.

(* compile_expression and the special-form compilers, compile.rs:129-721.
   One fixpoint on fuel; every recursive call is on a sub-datum. *)
Fixpoint compile_expression (fuel : nat) (l : lambda) (tail : bool) (e : cell) {struct fuel} : M lambda :=
  match fuel with
  | O => fun _ => RNoFuel
  | S f =>
      let compile_quote (l : lambda) (x : cell) : M lambda :=
        if negb (cell_is_datum x) then fail E_OTHER else
        dom v <- maybe_put_cell_m x;
        ret (emit (emit (emit_op l OMovImmediate) v) VAcc) in
      let store_to (l : lambda) (symbol : cell) : M lambda :=
        (* Mov %acc <location of symbol>; MovImmediate #<void> %acc *)
        dom sym_ref <- put_cell_m symbol;
        let l1 := emit (emit_op l OMov) VAcc in
        dom operand <- location_operand l1 sym_ref;
        ret (emit (emit (emit_op (emit l1 operand) OMovImmediate) VVoid) VAcc) in
      let compile_lambda (iof : lambda) (expr : cell) (is_define : bool) : M lambda :=
        dom rest <- lift (cdr_e expr);
        if is_nil rest then fail E_OTHER else
        dom head <- lift (car_e rest);
        dom body <- lift (cdr_e rest);
        dom formal_ast <- (if is_define then lift (cdr_e head) else ret head);
        dom (formals, vararg) <- (if is_nil formal_ast then ret ([], false) else compile_formals formal_ast []);
        dom free <- lift (free_symbols expr);
        dom free_refs <- put_cells free;
        dom internal <- lift (internally_defined_symbols body);
        dom internal_refs <- put_cells internal;
        let lam0 := set_desc (lambda_from_iof formals internal_refs iof free_refs vararg) formal_ast in
        let lam1 := if vararg then emit_op lam0 OVarArg else lam0 in
        let lam2 := emit_op lam1 OEnter in
        if is_nil body then fail E_OTHER else
        let fix body_loop (b : cell) (lam : lambda) {struct b} : M lambda :=
          match b with
          | CPair x r => dom lam' <- compile_expression f lam (is_nil r) x; body_loop r lam'
          | _ => ret lam
          end in
        dom lam3 <- body_loop body lam2;
        dom lp <- put_lambda (emit_op lam3 ORet);
        ret (emit_op (emit (emit (emit_op iof OMovImmediate) lp) VAcc) OClosureAcc) in
      match e with
      | CSym _ =>
          (* compile_symbol_expression, compile.rs:194-223 *)
          if is_primitive_symbol e then fail E_OTHER else
          dom sym_ref <- put_cell_m e;
          dom operand <- location_operand l sym_ref;
          ret (emit (emit (emit_op l OMov) operand) VAcc)
      | CNil => fail E_OTHER
      | CProc _ | CVoid | CUndef | CMacro | CCont => fail E_OTHER
      | CBool _ | CChar _ | CNum _ | CStr _ | CVec _ => compile_quote l e
      | CPair proc rest =>
          if sym_eq proc "define" then
            (* compile_define, compile.rs:235-296 *)
            if is_nil rest then fail E_OTHER else
            dom r1 <- lift (cdr_e rest);
            if is_nil r1 then fail E_OTHER else
            dom target <- lift (car_e rest);
            dom (l1, symbol) <-
              (match target with
               | CSym _ =>
                   dom r2 <- lift (cdr_e r1);
                   if negb (is_nil r2) then fail E_OTHER else
                   dom v <- lift (car_e r1);
                   dom l1 <- compile_expression f l false v; ret (l1, target)
               | CPair name _ =>
                   if negb (is_symbol name) then fail E_OTHER else
                   dom l1 <- compile_lambda l e true; ret (l1, name)
               | _ => fail E_OTHER
               end);
            if is_primitive_symbol symbol then fail E_OTHER else store_to l1 symbol
          else if sym_eq proc "define-syntax" then
            (* compile_define_syntax, compile.rs:345-361 *)
            dom tr <- lift (transform_try_new e);
            fun s =>
              let '(mid, x) := new_macro (st s) tr in
              let '(tp, h) := heap_put (hp s) (VMacro mid) in
              (dom sym_ref <- put_cell_m (tr_keyword tr);
               dom p <- as_ptr sym_ref;
               dom slot <- get_binding p;
               ret (emit (emit (emit_op (emit (emit (emit_op l OMovImmediate) tp) (VGSlot slot))
                                        OMovImmediate) VVoid) VAcc))
              (with_store (with_heap s h) x)
          else if sym_eq proc "lambda" || sym_is proc [955] then compile_lambda l e false
          else if sym_eq proc "quasiquote" then
            dom x <- lift (car_e rest); compile_quasiquote f l x 0
          else if sym_eq proc "quote" then
            dom x <- lift (car_e rest); compile_quote l x
          else if sym_eq proc "if" then
            (* compile_if, compile.rs:577-624 *)
            if is_nil rest || negb (is_list rest) then fail E_OTHER else
            dom (test, conseq, alt) <-
              (match cell_iter rest with
               | [t; c] => ret (t, c, None)
               | [t; c; a] => ret (t, c, Some a)
               | _ => fail E_OTHER
               end);
            dom l1 <- compile_expression f l false test;
            let l2 := emit_op l1 OJnt in
            let jnt_operand := bc_len l2 in
            let l3 := emit l2 (VPtr CAFEBEEF) in
            dom l4 <- compile_expression f l3 tail conseq;
            let l5 := emit_op l4 OJmp in
            let jmp_operand := bc_len l5 in
            let l6 := emit l5 (VPtr CAFEBEEF) in
            let l7 := bc_patch l6 jnt_operand (VPtr (bc_len l6)) in
            dom l8 <- (match alt with
                       | Some a => compile_expression f l7 tail a
                       | None => ret (emit (emit (emit_op l7 OMovImmediate) VVoid) VAcc)
                       end);
            ret (bc_patch l8 jmp_operand (VPtr (bc_len l8)))
          else if sym_eq proc "set!" then
            (* compile_set, compile.rs:309-343 *)
            match cell_iter rest with
            | [variable; expression] =>
                if negb (is_symbol variable) || is_primitive_symbol variable then fail E_OTHER else
                dom l1 <- compile_expression f l false expression;
                store_to l1 variable
            | _ => fail E_OTHER
            end
          else
            (* compile_runtime_procedure_application, compile.rs:530-558 *)
            let fix args_loop (r : cell) (lam : lambda) (n : N) {struct r} : M (lambda * N) :=
              match r with
              | CPair x r' => dom lam' <- compile_expression f lam false x;
                              args_loop r' (emit_op lam' OPushAcc) (n + 1)
              | _ => ret (lam, n)
              end in
            dom (l1, n) <- args_loop rest l 0;
            let l2 := emit (emit_op l1 OPushImmediate) (VArgc n) in
            dom l3 <- compile_expression f l2 false proc;
            ret (emit_op l3 (if tail then OTCallAcc else OCallAcc))
      end
  end
(* compile_quasiquote, compile.rs:651-721 *)
with compile_quasiquote (fuel : nat) (l : lambda) (e : cell) (depth : N) {struct fuel} : M lambda :=
  match fuel with
  | O => fun _ => RNoFuel
  | S f =>
      match e with
      | CVec items =>
          dom nv <- vec_new [];
          dom nvp <- hput nv;
          let l1 := emit (emit (emit_op l OMovImmediate) nvp) VAcc in
          let fix items_loop (its : list cell) (lam : lambda) {struct its} : M lambda :=
            match its with
            | [] => ret lam
            | it :: r => dom lam' <- compile_quasiquote f (emit_op lam OPushAcc) it depth;
                         items_loop r (emit_op lam' OVPushAcc)
            end in
          items_loop items l1
      | CPair a d =>
          let is_unq := sym_is a UNQUOTE in
          if is_unq && (depth =? 0) then
            dom d1 <- lift (cdr_e e); dom x <- lift (car_e d1);
            compile_expression f l false x
          else
            let depth1 := if is_unq then depth - 1 else depth in
            let depth2 := if sym_is a QUASIQUOTE then depth1 + 1 else depth1 in
            let fix elems (r : cell) (lam : lambda) (count : N) {struct r} : M (lambda * N * cell) :=
              match r with
              | CPair x r' => dom lam' <- compile_quasiquote f lam x depth2;
                              elems r' (emit_op lam' OPushAcc) (count + 1)
              | other => ret (lam, count, other)
              end in
            dom (l1, count, tailc) <- elems e l 0;
            if negb (cell_is_datum tailc) then fail E_OTHER else
            dom tv <- maybe_put_cell_m tailc;
            let l2 := emit (emit_op l1 OPushImmediate) tv in
            let fix conses (k : nat) (i : N) (lam : lambda) : lambda :=
              match k with
              | O => lam
              | S k' => let lam1 := emit_op lam OCons in
                        conses k' (i + 1) (if i <? count - 1 then emit_op lam1 OPushAcc else lam1)
              end in
            ret (conses (N.to_nat count) 0 l2)
      | _ =>
          if negb (cell_is_datum e) then fail E_OTHER else
          dom v <- maybe_put_cell_m e;
          ret (emit (emit (emit_op l OMovImmediate) v) VAcc)
      end
  end.

(* Vm::compile, compile.rs:65-71: transform, then compile *)
Definition compile (l : lambda) (tail : bool) (e : cell) : M lambda := fun s =>
  match transform_expr TRANSFORM_FUEL s e with
  | Ok e' => compile_expression (S (S (cell_size e'))) l tail e' s
  | Err x => RErr x [] s
  | Panic k => RPanic k
  | NoFuel => RNoFuel
  end.

(* Vm::compile_runnable, compile.rs:40-57: returns the entry lambda (not yet on the heap) *)
Definition compile_runnable (e : cell) : M lambda :=
  let entry := lambda_new [] in
  let lam := emit_op (set_top (lambda_from_iof [] [] entry [] false)) OEnter in
  dom lam1 <- compile lam true e;
  dom lp <- put_lambda (emit_op lam1 ORet);
  ret (emit_op (emit_op (emit (emit (emit_op (emit (emit_op entry OPushImmediate) (VArgc 0))
                                             OMovImmediate) lp) VAcc) OCallAcc) OHalt).
