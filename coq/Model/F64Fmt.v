(* F64Fmt.v — Rust std's textual forms of f64, as executable specifications:
     fmt_display  = format!("{}", x)      shortest round-trip digits, positional
     fmt_exp      = format!("{:e}", x)    shortest round-trip digits, d.ddde<exp>
     fmt_fixed1   = format!("{:.1}", x)   exact decimal expansion rounded to 1 fractional digit
     dec2flt      = str::parse::<f64>     correctly rounded decimal -> binary64
   std's implementation (Grisu with Dragon fallback; Eisel-Lemire with big-decimal
   fallback) is NOT modelled line by line: these are the functions those algorithms
   are specified to compute, written with exact integer arithmetic, and tied to the
   real std by the correspondence check only.  Definitions only (the two proof terms
   below are Flocq's validity lemmas needed to build a binary_float).            *)
From Coq Require Import ZArith List Bool.
From Flocq Require Import Core.Zaux IEEE754.BinarySingleNaN.
From MW Require Import Model.Base Model.F64 Model.Digits.
Open Scope Z_scope.

(* ------------------------------------------------------------ rational -> f64 *)
(* (-1)^neg * p / q rounded to nearest even; overflow gives an infinity.  This is
   Flocq's division core applied to the integers p*2^0 and q*2^0
   (Bdiv_correct_aux: the result is round_NE(p/q)). *)
Definition f64_of_ratio (neg : bool) (p q : positive) : f64 :=
  SF2B _ (proj1 (Bdiv_correct_aux 53 1024 _ _ mode_NE neg p 0 false q 0)).

(* (-1)^neg * w * 10^e10, correctly rounded.  The two guards only avoid computing
   astronomically large powers: with L = floor(log2 w),
     e10 >= 0 and L + 3*e10 >= 1025  ==>  w*10^e10 >= 2^1025   (rounds to infinity)
     e10 <  0 and L + 1 + 3*e10 < -1075 ==> w*10^e10 < 2^-1075 (rounds to zero)   *)
Definition dec_to_f64 (neg : bool) (w e10 : Z) : f64 :=
  match w with
  | Zpos p =>
      let L := Z.log2 w in
      if 0 <=? e10 then
        if 1025 <=? L + 3 * e10 then B754_infinity neg
        else match w * 10 ^ e10 with
             | Zpos n => f64_of_ratio neg n 1
             | _ => B754_zero neg
             end
      else
        if L + 1 + 3 * e10 <? -1075 then B754_zero neg
        else match 10 ^ (- e10) with
             | Zpos d => f64_of_ratio neg p d
             | _ => B754_zero neg
             end
  | _ => B754_zero neg
  end.

(* ------------------------------------------------------- str::parse::<f64> *)
Fixpoint span_digits (l : text) : text * text :=
  match l with
  | c :: r => if is_digit c then let '(a, b) := span_digits r in (c :: a, b) else ([], l)
  | [] => ([], [])
  end.

Definition dec_value (l : text) : Z := fold_left (fun a c => a * 10 + (Z.of_N c - 48)) l 0.

(* dec2flt/parse.rs parse_scientific: the accumulator stops growing at 0x10000 *)
Definition exp_value (l : text) : Z :=
  fold_left (fun a c => if a <? 65536 then 10 * a + (Z.of_N c - 48) else a) l 0.

Definition lower_ascii (c : cp) : cp := if ((65 <=? c) && (c <=? 90))%N then (c + 32)%N else c.
Definition text_eqb (a b : text) : bool := if list_eq_dec N.eq_dec a b then true else false.
(* ASCII-case-insensitive comparison with a lower-case constant *)
Definition ieq (t lower : text) : bool := text_eqb (map lower_ascii t) lower.

Definition T_inf : text := [105;110;102]%N.
Definition T_infinity : text := [105;110;102;105;110;105;116;121]%N.
Definition T_nan : text := [110;97;110]%N.

(* dec2flt/parse.rs parse_partial_number + parse_number: mantissa digits, optional
   fraction, optional exponent; at least one mantissa digit; the whole input must be
   consumed.  Result: (w, e10) standing for w * 10^e10. *)
Definition parse_decimal (s : text) : option (Z * Z) :=
  let '(ip, r1) := span_digits s in
  let '(fp, r2) := match r1 with
                   | 46%N :: r => span_digits r
                   | _ => ([], r1)
                   end in
  match ip ++ fp with
  | [] => None
  | ds =>
      let w := dec_value ds in
      let e0 := - Z.of_nat (length fp) in
      match r2 with
      | [] => Some (w, e0)
      | c :: r3 =>
          if ((c =? 101) || (c =? 69))%N then
            let '(eneg, r4) := match r3 with
                               | 45%N :: r => (true, r)
                               | 43%N :: r => (false, r)
                               | _ => (false, r3)
                               end in
            let '(ed, r5) := span_digits r4 in
            match ed, r5 with
            | _ :: _, [] => let v := exp_value ed in Some (w, e0 + (if eneg then - v else v))
            | _, _ => None
            end
          else None
      end
  end.

(* dec2flt/parse.rs parse_inf_nan *)
Definition parse_inf_nan (s : text) : option f64 :=
  if ieq s T_inf || ieq s T_infinity then Some (B754_infinity false)
  else if ieq s T_nan then Some B754_nan
  else None.

(* <f64 as FromStr>::from_str (core::num::dec2flt::dec2flt) *)
Definition dec2flt (t : text) : option f64 :=
  match t with
  | [] => None
  | c :: r =>
      let neg := (c =? 45)%N in
      let s := if neg || (c =? 43)%N then r else t in
      match s with
      | [] => None
      | _ =>
          match parse_decimal s with
          | Some (w, e10) => Some (dec_to_f64 neg w e10)
          | None =>
              match parse_inf_nan s with
              | Some v => Some (if neg then Bopp v else v)
              | None => None
              end
          end
      end
  end.

(* ------------------------------------------------- shortest round-trip digits *)
(* flt2dec "shortest" mode (Steele-White / Dragon4 specification, which Grisu
   reproduces whenever it succeeds): for |x| = m * 2^e the rounding interval is
   [low, high] = [x - ulp_below/2, x + ulp/2], closed iff m is even.  The result is
   the decimal D * 10^k with the fewest significant digits inside the interval and,
   among those, the one closest to x (a tie goes up).
   Everything is scaled by S = 10^j so that x/S has 18..20 integer digits; candidates
   with n significant digits are then multiples of 10^(L-n).                     *)
Fixpoint shortest_loop (fuel : nat) (n L qx X2 den Lmin Hmax : Z) : option (Z * Z) :=
  match fuel with
  | O => None
  | S f =>
      let g := 10 ^ (L - n) in
      let clo := (qx / g) * g in
      let chi := clo + g in
      let okl := Lmin <=? clo in
      let okh := chi <=? Hmax in
      if okl || okh then
        let pick := if okl && okh then (if X2 <? (clo + chi) * den then clo else chi)
                    else if okl then clo else chi in
        Some (pick / g, L - n)
      else shortest_loop f (n + 1) L qx X2 den Lmin Hmax
  end.

(* drop trailing zeros of the digit string: (d, k) stands for d * 10^k *)
Fixpoint strip10 (fuel : nat) (d k : Z) : Z * Z :=
  match fuel with
  | O => (d, k)
  | S f => if (0 <? d) && (d mod 10 =? 0) then strip10 f (d / 10) (k + 1) else (d, k)
  end.

(* the exact decimal expansion of m * 2^e *)
Definition exact_decimal (m e : Z) : Z * Z :=
  if 0 <=? e then (m * 2 ^ e, 0) else (m * 5 ^ (- e), e).

(* the scaled interval of m * 2^e: (j, den, X, Lmin, Hmax) with
   x = X/den * 10^j, and an integer C satisfies  Lmin <= C <= Hmax  iff  C * 10^j
   lies in the rounding interval of x *)
Definition interval (m e : Z) : Z * Z * Z * Z * Z :=
  let b := Z.log2 m + 1 + e in
  let j := b * 1233 / 4096 - 18 in
  let e2 := e - 2 in
  let ns := 2 ^ (Z.max e2 0) * 10 ^ (Z.max (- j) 0) in
  let den := 2 ^ (Z.max (- e2) 0) * 10 ^ (Z.max j 0) in
  let boundary := (m =? 2 ^ 52) && (-1074 <? e) in
  let X := 4 * m * ns in
  let Lo := (4 * m - (if boundary then 1 else 2)) * ns in
  let Hi := (4 * m + 2) * ns in
  let incl := Z.even m in
  let ql := Lo / den in
  let qh := Hi / den in
  let Lmin := if incl && (Lo mod den =? 0) then ql else ql + 1 in
  let Hmax := if incl || negb (Hi mod den =? 0) then qh else qh - 1 in
  (j, den, X, Lmin, Hmax).

Definition shortest (m e : Z) : Z * Z :=
  let '(j, den, X, Lmin, Hmax) := interval m e in
  let qx := X / den in
  let L := Z.of_nat (length (to_digits 10 qx)) in
  match shortest_loop 17 1 L qx (2 * X) den Lmin Hmax with
  | Some (d, k) =>
      let c := d * 10 ^ k in
      if (0 <? d) && (0 <=? k) && (Lmin <=? c) && (c <=? Hmax) then strip10 1100 d (k + j)
      else strip10 1100 (fst (exact_decimal m e)) (snd (exact_decimal m e))
  | None => strip10 1100 (fst (exact_decimal m e)) (snd (exact_decimal m e))
  end.

(* ------------------------------------------------------------------ rendering *)
Definition zeros (n : Z) : text := repeat 48%N (Z.to_nat n).
Definition sign_text (s : bool) : text := if s then [45%N] else [].

(* flt2dec::digits_to_dec_str with frac_digits = 0: the value is 0.ds * 10^exp10 *)
Definition dec_str (ds : text) (exp10 : Z) : text :=
  let n := Z.of_nat (length ds) in
  if exp10 <=? 0 then [48; 46]%N ++ zeros (- exp10) ++ ds
  else if exp10 <? n then firstn (Z.to_nat exp10) ds ++ [46%N] ++ skipn (Z.to_nat exp10) ds
  else ds ++ zeros (exp10 - n).

(* flt2dec::digits_to_exp_str with min_ndigits = 0, lower case *)
Definition exp_str (ds : text) (exp10 : Z) : text :=
  match ds with
  | [] => []
  | [d] => [d]
  | d :: r => d :: 46%N :: r
  end ++ [101%N] ++ show_int_radix 10 (exp10 - 1).

Definition T_NaN : text := [78;97;78]%N.

(* format!("{}", x) *)
Definition fmt_display (x : f64) : text :=
  match x with
  | B754_nan => T_NaN
  | B754_infinity s => sign_text s ++ T_inf
  | B754_zero s => sign_text s ++ [48%N]
  | B754_finite s m e _ =>
      let '(D, k) := shortest (Zpos m) e in
      let ds := show_nat_radix 10 D in
      sign_text s ++ dec_str ds (k + Z.of_nat (length ds))
  end.

(* format!("{:e}", x) *)
Definition fmt_exp (x : f64) : text :=
  match x with
  | B754_nan => T_NaN
  | B754_infinity s => sign_text s ++ T_inf
  | B754_zero s => sign_text s ++ [48; 101; 48]%N
  | B754_finite s m e _ =>
      let '(D, k) := shortest (Zpos m) e in
      let ds := show_nat_radix 10 D in
      sign_text s ++ exp_str ds (k + Z.of_nat (length ds))
  end.

(* |x| * 10 rounded to an integer, half to even (flt2dec exact mode with limit -1) *)
Definition tenths (m e : Z) : Z :=
  if 0 <=? e then m * 2 ^ e * 10
  else
    let d := 2 ^ (- e) in
    let q := (m * 10) / d in
    let r2 := 2 * ((m * 10) mod d) in
    if r2 <? d then q else if d <? r2 then q + 1 else if Z.even q then q else q + 1.

(* format!("{:.1}", x) *)
Definition fmt_fixed1 (x : f64) : text :=
  match x with
  | B754_nan => T_NaN
  | B754_infinity s => sign_text s ++ T_inf
  | B754_zero s => sign_text s ++ [48; 46; 48]%N
  | B754_finite s m e _ =>
      let t := tenths (Zpos m) e in
      sign_text s ++ show_nat_radix 10 (t / 10) ++ [46%N; digit_char (t mod 10)]
  end.
