(* NumFmt.v — textual forms of numbers: Number::parse / parse_with_exactness
   (number.rs:66-122), to_exact / to_inexact (210-236), Display (939-950) and the
   radix printers (952-1018), with the parts of the num crates they run:
   core's iN::from_str_radix, num-bigint 0.4.4 BigInt::from_str_radix,
   num-rational 0.4.1 Ratio::from_str_radix / reduce / approximate_float / to_f64,
   num-traits 0.2.18 <f64 as Num>::from_str_radix.
   INTERFACE FIXED HERE (used by Parse.v, Datum.v):
     parse_with_exactness : text -> exactness -> Z -> out (option num)
     num_display          : num -> text
   Definitions only.                                                            *)
From Coq Require Import ZArith List Bool.
From Flocq Require Import IEEE754.BinarySingleNaN.
From MW Require Import Model.Base Model.F64 Model.Num Model.Digits Model.F64Fmt.
Open Scope Z_scope.

(* panic sites *)
Definition P_RADIX : N := 20.        (* from_str_radix: radix outside 2..=36 *)
Definition P_I32_OVERFLOW : N := 21. (* num-rational reduce: 0 - i32::MIN (debug build) *)
Definition P_DENOM_ZERO : N := 22.   (* Ratio::new with a zero denominator *)
Definition P_UNWRAP : N := 23.       (* Option::unwrap on None *)

(* ---------------------------------------------------- iN::from_str_radix (core) *)
(* core::num from_ascii_radix for a signed type of range [lo, hi]: empty, a lone
   sign, a non-digit or a value out of range is an error; no '_' separators *)
Definition int_from_str_radix (lo hi : Z) (t : text) (radix : Z) : option Z :=
  let check (o : option Z) :=
    match o with
    | Some v => if (lo <=? v) && (v <=? hi) then Some v else None
    | None => None
    end in
  match t with
  | [] => None
  | c :: r =>
      if ((c =? 43) || (c =? 45))%N then
        match r with
        | [] => None                                   (* a lone sign *)
        | _ => if (c =? 45)%N then check (option_map Z.opp (digits_value radix r 0))
               else check (digits_value radix r 0)
        end
      else check (digits_value radix t 0)
  end.

(* --------------------------------- BigUint / BigInt::from_str_radix (num-bigint) *)
(* biguint/convert.rs:244-257: '_' is skipped, anything else must be a digit *)
Fixpoint big_digits (radix : Z) (l : text) (acc : Z) : option Z :=
  match l with
  | [] => Some acc
  | c :: r =>
      if (c =? 95)%N then big_digits radix r acc
      else match to_digit radix c with
           | Some d => big_digits radix r (acc * radix + d)
           | None => None
           end
  end.

(* biguint/convert.rs:223-272 *)
Definition strip_plus (t : text) : text :=      (* lines 226-231: one leading '+' unless followed by another *)
  match t with
  | c :: tail =>
      if (c =? 43)%N then
        match tail with
        | c2 :: _ => if (c2 =? 43)%N then t else tail
        | [] => tail
        end
      else t
  | [] => t
  end.
Definition biguint_from_str_radix (t : text) (radix : Z) : option Z :=
  match strip_plus t with
  | [] => None
  | c :: _ => if (c =? 95)%N then None else big_digits radix (strip_plus t) 0
  end.

(* bigint/convert.rs:29-41 *)
Definition bigint_from_str_radix (t : text) (radix : Z) : option Z :=
  match t with
  | c :: tail =>
      if (c =? 45)%N then
        let s := match tail with
                 | c2 :: _ => if (c2 =? 43)%N then t else tail
                 | [] => tail
                 end in
        option_map Z.opp (biguint_from_str_radix s radix)
      else biguint_from_str_radix t radix
  | [] => biguint_from_str_radix t radix
  end.

(* ------------------------------------------------ Ratio<i32> (num-rational) *)
(* i32 subtraction: overflow panics in a debug build and wraps in a release build *)
Definition sub_i32 (p : profile) (a b : Z) : out Z :=
  let r := a - b in
  if in_i32 r then Ok r else match p with Debug => Panic P_I32_OVERFLOW | Release => Ok (wrap 32 r) end.

(* Ratio::new = new_raw + reduce, lib.rs:130-164.  num-integer's Stein gcd equals the
   mathematical gcd whenever the result is below 2^31, which holds here: the only
   i32 pairs with gcd 2^31 are (MIN, MIN) (caught by numer == denom) and (MIN, 0). *)
Definition ratio32_new (p : profile) (n d : Z) : out (Z * Z) :=
  if d =? 0 then Panic P_DENOM_ZERO
  else if n =? 0 then Ok (0, 1)
  else if n =? d then Ok (1, 1)
  else
    let g := Z.gcd n d in
    let n' := Z.quot n g in
    let d' := Z.quot d g in
    if d' <? 0 then
      do n2 <- sub_i32 p 0 n';
      do d2 <- sub_i32 p 0 d';
      Ok (n2, d2)
    else Ok (n', d').

(* split at the first '/': s.splitn(2, '/') *)
Fixpoint split_slash (l : text) : option (text * text) :=
  match l with
  | [] => None
  | c :: r =>
      if (c =? 47)%N then Some ([], r)
      else match split_slash r with
           | Some (a, b) => Some (c :: a, b)
           | None => None
           end
  end.

(* Ratio<i32>::from_str_radix, lib.rs:963-984; None = Err(_) *)
Definition ratio32_from_str_radix (p : profile) (t : text) (radix : Z) : out (option (Z * Z)) :=
  match split_slash t with
  | None => Ok None
  | Some (a, b) =>
      match int_from_str_radix I32_MIN I32_MAX a radix with
      | None => Ok None
      | Some n =>
          match int_from_str_radix I32_MIN I32_MAX b radix with
          | None => Ok None
          | Some d => if d =? 0 then Ok None else do r <- ratio32_new p n d; Ok (Some r)
          end
      end
  end.

(* Ratio<BigInt>::from_str_radix followed by reduce: lowest terms, denom > 0 *)
Definition bigratio_from_str_radix (t : text) (radix : Z) : option (Z * Z) :=
  match split_slash t with
  | None => None
  | Some (a, b) =>
      match bigint_from_str_radix a radix with
      | None => None
      | Some n =>
          match bigint_from_str_radix b radix with
          | None => None
          | Some d =>
              if d =? 0 then None
              else if n =? 0 then Some (0, 1)
              else if n =? d then Some (1, 1)
              else
                let g := Z.gcd n d in
                let n' := n / g in
                let d' := d / g in
                if d' <? 0 then Some (- n', - d') else Some (n', d')
          end
      end
  end.

(* Ratio<BigInt>::to_f64 = ratio_to_f64 (lib.rs:1528-1620): n/d rounded to nearest
   even, overflow to an infinity *)
Definition bigratio_to_f64 (n d : Z) : f64 :=
  match n, d with
  | Zpos a, Zpos b => f64_of_ratio false a b
  | Zneg a, Zpos b => f64_of_ratio true a b
  | _, _ => f64_zero
  end.

(* the guard of fix e424813: text.split_once('/') and a denominator text that starts
   with '+' or '-' (R7RS denominators are unsigned) *)
Definition signed_denominator (t : text) : bool :=
  match split_slash t with
  | Some (_, c :: _) => ((c =? 43) || (c =? 45))%N
  | _ => false
  end.

(* Number::parse_rational, number.rs:90-128 *)
Definition parse_rational (p : profile) (t : text) (radix : Z) : out (option num) :=
  if signed_denominator t then Ok None else
  do r <- ratio32_from_str_radix p t radix;
  match r with
  | Some (n, d) => if d =? 1 then Ok (Some (Fixnum n)) else Ok (Some (Rational n d))
  | None =>
      match bigratio_from_str_radix t radix with
      | Some (n, d) =>
          if d =? 1 then Ok (Some (if in_i64 n then Fixnum n else BigInt n))
          else Ok (Some (Float (bigratio_to_f64 n d)))
      | None => Ok None
      end
  end.

(* ------------------------- <f64 as Num>::from_str_radix (num-traits lib.rs:221-391) *)
Definition f64_of_bool_zero (neg : bool) : f64 := B754_zero neg.
Definition f64_one : f64 := f64_of_Z 1.
Definition f64_neb (a b : f64) : bool := negb (f64_eqb a b).

(* usize::from_str: optional '+', at least one digit, value <= usize::MAX *)
Definition parse_usize (t : text) : option Z :=
  let s := match t with 43%N :: r => r | _ => t end in
  match s with
  | [] => None
  | _ => match digits_value 10 s 0 with
         | Some v => if v <=? U64_MAX then Some v else None
         | None => None
         end
  end.

(* Float::powi(2.0, n) through compiler-rt's __powidf2: 2^n by repeated squaring,
   reciprocal taken at the end: exact inside the normal range, infinity above,
   and 1/inf = 0 below (no gradual underflow) *)
Definition powi2 (n : Z) : f64 :=
  if 0 <=? n then (if n <=? 1023 then f64_of_Z2 1 n else B754_infinity false)
  else (if - n <=? 1023 then f64_of_Z2 1 n else B754_zero false).

Inductive fsr_res := FOk (f : f64) | FInvalid.

(* the exponent part, lib.rs:355-385; [rest] is the text after the exponent letter *)
Definition fsr_exponent (c : cp) (radix : Z) (rest : text) : option f64 :=
  let is_p := ((c =? 112) || (c =? 80))%N in
  if is_p && (radix =? 16) then
    match rest with
    | [] => None
    | 45%N :: r => match parse_usize r with
                   | Some e => Some (f64_div f64_one (powi2 (wrap 32 e)))
                   | None => None
                   end
    | 43%N :: r => option_map (fun e => powi2 (wrap 32 e)) (parse_usize r)
    | _ => option_map (fun e => powi2 (wrap 32 e)) (parse_usize rest)
    end
  else None.   (* 'e'/'E' count only for radix 10, which never reaches this code *)

Definition is_exp_char (c : cp) : bool := ((c =? 101) || (c =? 69) || (c =? 112) || (c =? 80))%N.

(* fractional part, lib.rs:321-352 *)
Fixpoint fsr_frac (pos : bool) (radix : Z) (l : text) (sig prev power : f64) : option f64 :=
  match l with
  | [] => Some sig
  | c :: r =>
      match to_digit radix c with
      | Some digit =>
          let power := f64_div power (f64_of_Z radix) in
          let term := f64_mul (f64_of_Z digit) power in
          let sig := if pos then f64_add sig term else f64_sub sig term in
          if pos && f64_ltb sig prev then Some (B754_infinity false)
          else if negb pos && f64_ltb prev sig then Some (B754_infinity true)
          else fsr_frac pos radix r sig sig power
      | None =>
          if is_exp_char c then
            match fsr_exponent c radix r with
            | Some e => Some (f64_mul sig e)
            | None => None
            end
          else None
      end
  end.

(* integer part, lib.rs:275-317 *)
Fixpoint fsr_int (pos : bool) (radix : Z) (l : text) (sig prev : f64) : option f64 :=
  match l with
  | [] => Some sig
  | c :: r =>
      match to_digit radix c with
      | Some digit =>
          let fr := f64_of_Z radix in
          let fd := f64_of_Z digit in
          let sig := f64_mul sig fr in
          let sig := if pos then f64_add sig fd else f64_sub sig fd in
          if f64_neb prev f64_zero then
            if pos && f64_leb sig prev then Some (B754_infinity false)
            else if negb pos && f64_leb prev sig then Some (B754_infinity true)
            else if pos && f64_neb prev (f64_div (f64_sub sig fd) fr) then Some (B754_infinity false)
            else if negb pos && f64_neb prev (f64_div (f64_add sig fd) fr) then Some (B754_infinity true)
            else fsr_int pos radix r sig sig
          else fsr_int pos radix r sig sig
      | None =>
          if is_exp_char c then
            match fsr_exponent c radix r with
            | Some e => Some (f64_mul sig e)
            | None => None
            end
          else if (c =? 46)%N then fsr_frac pos radix r sig prev f64_one
          else None
      end
  end.

Definition T_minf : text := 45%N :: T_inf.
Definition T_minfinity : text := 45%N :: T_infinity.
Definition T_mnan : text := 45%N :: T_nan.

Definition f64_from_str_radix (t : text) (radix : Z) : option f64 :=
  if radix =? 10 then dec2flt t
  else if ieq t T_inf || ieq t T_infinity then Some (B754_infinity false)
  else if ieq t T_minf || ieq t T_minfinity then Some (B754_infinity true)
  else if ieq t T_nan || ieq t T_mnan then Some B754_nan
  else
    match t with
    | [] => None
    | [45%N] => None
    | 45%N :: r => fsr_int false radix r (B754_zero true) (B754_zero true)
    | _ => fsr_int true radix t (B754_zero false) (B754_zero false)
    end.

(* ------------------------------------------------------------ Number::parse *)
(* number.rs:80-92; i64::from_str_radix panics first when the radix is invalid *)
Definition number_parse (p : profile) (t : text) (radix : Z) : out (option num) :=
  if (radix <? 2) || (36 <? radix) then Panic P_RADIX
  else
    match int_from_str_radix I64_MIN I64_MAX t radix with
    | Some z => Ok (Some (Fixnum z))
    | None =>
        match bigint_from_str_radix t radix with
        | Some z => Ok (Some (BigInt z))
        | None =>
            do r <- parse_rational p t radix;
            match r with
            | Some n => Ok (Some n)
            | None =>
                match f64_from_str_radix t radix with
                | Some f => Ok (Some (Float f))
                | None => Ok None
                end
            end
        end
    end.

(* -------------------------------------------------- to_exact / to_inexact *)
(* Number::is_integer on a float: num.floor() == *num (true for infinities) *)
Definition float_is_integer (f : f64) : bool := f64_eqb (f64_floor f) f.

(* i32 -> f64 and back, as NumCast does *)
Definition F_I32_MAX : f64 := f64_of_Z I32_MAX.
Definition f64_to_i32 (q : f64) : option Z :=
  match f64_to_Z q with
  | Some z => if in_i32 z then Some z else None
  | None => None
  end.

Definition F_MAX_ERROR : f64 := f64_of_ratio false 1 (10 ^ 19).   (* the literal 10e-20 *)

(* the loop of approximate_float_unsigned, lib.rs:1328-1380, T = i32; returns (n1, d1) *)
Fixpoint approx_loop (fuel : nat) (val q : f64) (n0 d0 n1 d1 : Z) : Z * Z :=
  match fuel with
  | O => (n1, d1)
  | S fu =>
      match f64_to_i32 q with
      | None => (n1, d1)
      | Some a =>
          let a_f := f64_of_Z a in
          let f := f64_sub q a_f in
          let tmax := I32_MAX in
          if negb (a =? 0) &&
             ((Z.quot tmax a <? n1) || (Z.quot tmax a <? d1)
              || (tmax - n0 <? a * n1) || (tmax - d0 <? a * d1))
          then (n1, d1)
          else
            let n := a * n1 + n0 in
            let d := a * d1 + d0 in
            let g := Z.gcd n d in
            let n1' := if g =? 0 then n else Z.quot n g in
            let d1' := if g =? 0 then d else Z.quot d g in
            let err := f64_abs (f64_sub (f64_div (f64_of_Z n) (f64_of_Z d)) val) in
            if f64_ltb err F_MAX_ERROR then (n1', d1')
            else if f64_ltb f (f64_div f64_one F_I32_MAX) then (n1', d1')
            else approx_loop fu val (f64_div f64_one f) n1 d1 n1' d1'
      end
  end.

(* Rational32::from_f64 = approximate_float(val, 10e-20, 30), lib.rs:1283-1388 *)
Definition ratio32_from_f64 (p : profile) (val : f64) : out (option (Z * Z)) :=
  let negative := match val with
                  | B754_zero s | B754_infinity s | B754_finite s _ _ _ => s
                  | B754_nan => false
                  end in
  let a := f64_abs val in
  if f64_is_nan a then Ok None
  else if f64_ltb F_I32_MAX a then Ok None
  else
    let '(n1, d1) := approx_loop 30 a a 0 1 1 0 in
    if d1 =? 0 then Ok None
    else do r <- ratio32_new p n1 d1;
         let '(n, d) := r in
         Ok (Some (if negative then (- n, d) else (n, d))).

(* Number::to_exact, number.rs:219-236; None = the Option is None *)
Definition to_exact (p : profile) (n : num) : out (option num) :=
  match n with
  | Float f =>
      if float_is_integer f then
        match f64_to_Z f with
        | Some z =>
            if in_i64 z then Ok (Some (Fixnum z))                         (* f64::to_i64 *)
            else if (- 2 ^ 127 <=? z) && (z <? 2 ^ 127) then Ok (Some (BigInt z))   (* to_i128 *)
            else Ok None
        | None => Ok None
        end
      else
        do r <- ratio32_from_f64 p f;
        match r with
        | Some (a, b) => Ok (Some (Rational a b))
        | None => Ok (Some (Float f))
        end
  | _ => Ok (Some n)
  end.

(* Number::to_inexact, number.rs:210-217 *)
Definition to_inexact (n : num) : num :=
  match n with
  | Fixnum z => Float (f64_of_Z z)
  | BigInt z => Float (f64_of_Z z)
  | Rational a b => Float (f64_div (f64_of_Z a) (f64_of_Z b))
  | Float f => Float f
  end.

(* Number::parse_with_exactness, number.rs:66-78 *)
Definition parse_with_exactness_p (p : profile) (t : text) (ex : exactness) (radix : Z) : out (option num) :=
  do r <- number_parse p t radix;
  match r with
  | None => Ok None
  | Some n =>
      match ex with
      | Unspecified => Ok (Some n)
      | Exact => do e <- to_exact p n; Ok (Some (match e with Some m => m | None => n end))
      | Inexact => Ok (Some (to_inexact n))
      end
  end.

(* the interface used by Parse.v: the debug build (i32 overflow panics) *)
Definition parse_with_exactness (t : text) (ex : exactness) (radix : Z) : out (option num) :=
  parse_with_exactness_p Debug t ex radix.

(* ------------------------------------------------------------------ Display *)
Definition F_1E10 : f64 := f64_of_Z (10 ^ 10).

(* num-rational impl_formatting, lib.rs:1031-1054, on a ratio whose parts print in
   sign-magnitude: the numerator alone when the denominator is one *)
Definition ratio_fmt (r a b : Z) : text :=
  if b =? 1 then show_int_radix r a else show_int_radix r a ++ [47%N] ++ show_int_radix r b.

(* impl Display for Number, number.rs:939-950 *)
Definition num_display (n : num) : text :=
  match n with
  | Fixnum z => show_int_radix 10 z
  | BigInt z => show_int_radix 10 z
  | Float f =>
      if f64_ltb F_1E10 f then fmt_exp f
      else if float_is_integer f then fmt_fixed1 f
      else fmt_display f
  | Rational a b => ratio_fmt 10 a b
  end.

(* ------------------------------------------- LowerHex / Octal / Binary *)
(* `f as i64` for a float: saturating, NaN -> 0 *)
Definition f64_as_i64 (f : f64) : Z :=
  match f with
  | B754_nan => 0
  | B754_infinity s => if s then I64_MIN else I64_MAX
  | _ => match f64_to_Z f with
         | Some z => if z <? I64_MIN then I64_MIN else if I64_MAX <? z then I64_MAX else z
         | None => 0
         end
  end.

(* write_float_fract, number.rs:952-968.  Each iteration of the Rust loop consumes at
   least one bit of a finite fraction; it never terminates on NaN (inf.fract() is NaN) *)
Fixpoint write_float_fract (fuel : nat) (num : f64) (radix : Z) (first : bool) : out text :=
  match fuel with
  | O => NoFuel
  | S fu =>
      let num := f64_mul (f64_sub num (f64_trunc num)) (f64_of_Z radix) in   (* num.fract() * radix *)
      if f64_eqb num f64_zero then Ok []
      else
        let d := show_nat_radix 16 (f64_as_i64 (f64_abs (f64_trunc num))) in
        do rest <- write_float_fract fu num radix false;
        Ok ((if first then [46%N] else []) ++ d ++ rest)
  end.

(* the Float arm of LowerHex/Octal/Binary, number.rs:974-980 etc. *)
Definition float_fmt_radix (radix : Z) (f : f64) : out text :=
  let sign := if f64_ltb f f64_zero then [45%N] else [] in
  let ip := show_nat_radix radix (f64_as_i64 (f64_abs (f64_trunc f))) in
  do fr <- write_float_fract 1200 f radix true;
  Ok (sign ++ ip ++ fr).

(* impl LowerHex/Octal/Binary for Number (number.rs:970-1018) AFTER the fix for
   negative-nondecimal: fixnums and rationals are rendered through BigInt /
   BigRational, i.e. in sign-magnitude like bignums *)
Definition num_fmt_radix (radix : Z) (n : num) : out text :=
  match n with
  | Fixnum z => Ok (show_int_radix radix z)
  | BigInt z => Ok (show_int_radix radix z)
  | Rational a b => Ok (ratio_fmt radix a b)
  | Float f =>
      (* fix: an infinity or a NaN has no digits in any radix and is printed as in radix 10 *)
      if f64_is_finite f then float_fmt_radix radix f else Ok (num_display (Float f))
  end.
