(* NumFmt.v — textual forms of numbers: Number::parse / parse_with_exactness
   (number.rs:66-122), Display (939-950) and the radix printers (952-1018).
   INTERFACE FIXED HERE (used by Parse.v, Datum.v):
     parse_with_exactness : text -> exactness -> Z -> out (option num)
     num_display          : num -> text
   PLACEHOLDER BODY: integers in radix 2..36 only; the numbers work package replaces it. *)
From MW Require Import Model.Base Model.F64 Model.Num.
Open Scope Z_scope.

Definition digit_val (c : N) : option Z :=
  if is_digit c then Some (Z.of_N c - 48)
  else if ((97 <=? c) && (c <=? 122))%N then Some (Z.of_N c - 87)
  else if ((65 <=? c) && (c <=? 90))%N then Some (Z.of_N c - 55)
  else None.

Fixpoint parse_digits (radix : Z) (l : text) (acc : Z) : option Z :=
  match l with
  | [] => Some acc
  | c :: r => match digit_val c with
              | Some d => if d <? radix then parse_digits radix r (acc * radix + d) else None
              | None => None
              end
  end.

Definition parse_int (t : text) (radix : Z) : option Z :=
  match t with
  | [] => None
  | 45%N :: (_ :: _) as r => option_map Z.opp (parse_digits radix r 0)
  | 43%N :: (_ :: _) as r => parse_digits radix r 0
  | 45%N :: [] | 43%N :: [] => None
  | _ => parse_digits radix t 0
  end.

Definition parse_with_exactness (t : text) (ex : exactness) (radix : Z) : out (option num) :=
  match parse_int t radix with
  | Some z => Ok (Some (if in_i64 z then Fixnum z else BigInt z))
  | None => Ok None
  end.

Definition num_display (n : num) : text :=
  match n with
  | Fixnum z | BigInt z => show_Z z
  | Rational a b => show_Z a ++ [47%N] ++ show_Z b
  | Float _ => [63%N]
  end.
