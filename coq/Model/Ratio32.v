(* Ratio32.v — port of the num-rational 0.4.1 / num-integer 0.1.46 algorithms that
   marwood/src/number.rs calls on Ratio<i32> (and, in one arm of Rem, Ratio<i64>).
   Everything is machine arithmetic of width [w] (32 or 64) over Z with EXPLICIT
   overflow outcomes: an overflowing + - * neg abs panics under Debug and wraps
   under Release; division by zero and MIN / -1 panic under both profiles.
   A ratio is the pair (numer, denom) exactly as stored (new_raw).
   Executable definitions only; citations are to num-rational-0.4.1/src/lib.rs
   ("nr:") and num-integer-0.1.46/src/lib.rs ("ni:").                           *)
From Coq Require Import ZArith List.
From MW Require Import Model.Base Model.F64 Model.F64More Model.Num.
Open Scope Z_scope.

(* panic sites *)
Definition P_OVERFLOW : N := 200.     (* attempt to add/subtract/multiply/negate with overflow *)
Definition P_DIV0 : N := 201.         (* attempt to divide by zero *)
Definition P_DIVOVF : N := 202.       (* attempt to divide with overflow (MIN / -1) *)
Definition P_DENOM0 : N := 203.       (* Ratio::reduce: "denominator == 0" *)
Definition P_RECIP0 : N := 204.       (* into_recip: "division by zero" *)
Definition P_UNWRAP : N := 205.       (* Option::unwrap on None *)

(* ------------------------------------------------------------ machine integers *)
Definition imin (w : Z) : Z := - 2 ^ (w - 1).
Definition imax (w : Z) : Z := 2 ^ (w - 1) - 1.
Definition in_int (w z : Z) : bool := (imin w <=? z) && (z <=? imax w).

(* the result of an overflow-checked operation whose mathematical value is z *)
Definition ovf (p : profile) (w z : Z) : out Z :=
  if in_int w z then Ok z
  else match p with Debug => Panic P_OVERFLOW | Release => Ok (wrap w z) end.

Definition iadd p w (a b : Z) := ovf p w (a + b).
Definition isub p w (a b : Z) := ovf p w (a - b).
Definition imul p w (a b : Z) := ovf p w (a * b).
Definition ineg p w (a : Z) := ovf p w (- a).
Definition iabs p w (a : Z) : out Z := if a <? 0 then ineg p w a else Ok a.
(* `/` and `%`: truncating; panic under both profiles *)
Definition idiv (w a b : Z) : out Z :=
  if b =? 0 then Panic P_DIV0
  else if (a =? imin w) && (b =? -1) then Panic P_DIVOVF
  else Ok (Z.quot a b).
Definition irem (w a b : Z) : out Z :=
  if b =? 0 then Panic P_DIV0
  else if (a =? imin w) && (b =? -1) then Panic P_DIVOVF
  else Ok (Z.rem a b).
Definition ichecked (w z : Z) : option Z := if in_int w z then Some z else None.
Definition ichecked_mul w (a b : Z) := ichecked w (a * b).
Definition ichecked_add w (a b : Z) := ichecked w (a + b).
Definition ichecked_sub w (a b : Z) := ichecked w (a - b).

(* i32::pow / i64::pow (core int_macros.rs): square-and-multiply without the final
   needless squaring; every multiplication overflow-checked by profile.
   The loop runs at most 32 times (u32 exponent). *)
Fixpoint ipow_loop (fuel : nat) p w (base acc exp : Z) : out Z :=
  match fuel with
  | O => NoFuel
  | S f =>
      if Z.odd exp then
        do acc' <- imul p w acc base;
        if exp =? 1 then Ok acc'
        else do base' <- imul p w base base; ipow_loop f p w base' acc' (exp / 2)
      else do base' <- imul p w base base; ipow_loop f p w base' acc (exp / 2)
  end.
Definition ipow p w (base exp : Z) : out Z :=
  if exp =? 0 then Ok 1 else ipow_loop 40 p w base 1 exp.
(* checked_pow: None exactly when some multiplication overflows *)
Definition ichecked_pow w (base exp : Z) : option Z :=
  match ipow Debug w base exp with Ok z => Some z | _ => None end.

(* ---------------------------------------------------- num-integer: gcd, lcm ... *)
Fixpoint ptz (p : positive) : Z := match p with xO q => 1 + ptz q | _ => 0 end.
Fixpoint podd (p : positive) : positive := match p with xO q => podd q | _ => p end.
(* trailing_zeros of a non-zero value (two's complement: same as of |z|) *)
Definition ztz (z : Z) : Z := match z with Z0 => 0 | Zpos p | Zneg p => ptz p end.

(* the loop of Stein's algorithm on odd positive numbers, ni:522-530 *)
Fixpoint stein (fuel : nat) (m n : positive) : positive :=
  match fuel with
  | O => m
  | S f =>
      match Pos.compare m n with
      | Eq => m
      | Gt => stein f (podd (m - n)) n
      | Lt => stein f m (podd (n - m))
      end
  end.

(* ni:491-532 Integer::gcd for a signed type *)
Definition igcd p w (m n : Z) : out Z :=
  if (m =? 0) || (n =? 0) then iabs p w (Z.lor m n)
  else
    let shift := ztz (Z.lor m n) in
    if (m =? imin w) || (n =? imin w) then iabs p w (wrap w (Z.shiftl 1 shift))
    else
      match Z.abs m, Z.abs n with
      | Zpos a, Zpos b => Ok (Z.shiftl (Zpos (stein (Z.to_nat w + 2) (podd a) (podd b))) shift)
      | _, _ => Ok 0     (* unreachable: both non-zero *)
      end.

(* ni:556-564 gcd_lcm, .1 *)
Definition ilcm p w (a b : Z) : out Z :=
  if (a =? 0) && (b =? 0) then Ok 0
  else do g <- igcd p w a b;
       do q <- idiv w b g;
       do m <- imul p w a q;
       iabs p w m.

(* ni:467-476 div_mod_floor *)
Definition idiv_mod_floor p w (a b : Z) : out (Z * Z) :=
  do d <- idiv w a b;
  do r <- irem w a b;
  if ((0 <? r) && (b <? 0)) || ((r <? 0) && (0 <? b)) then
    do d' <- isub p w d 1; do r' <- iadd p w r b; Ok (d', r')
  else Ok (d, r).

(* ------------------------------------------------------------------- Ratio<T> *)
Definition ratio := (Z * Z)%type.

(* nr:124-158 reduce (on a copy), hence Ratio::new nr:100-104 *)
Definition rreduce p w (r : ratio) : out ratio :=
  let '(n, d) := r in
  if d =? 0 then Panic P_DENOM0
  else if n =? 0 then Ok (0, 1)
  else if n =? d then Ok (1, 1)
  else
    do g <- igcd p w n d;
    do n1 <- idiv w n g;
    do d1 <- idiv w d g;
    if d1 <? 0 then
      do n2 <- isub p w 0 n1; do d2 <- isub p w 0 d1; Ok (n2, d2)
    else Ok (n1, d1).
Definition rnew p w (n d : Z) : out ratio := rreduce p w (n, d).
Definition rfrom_integer (t : Z) : ratio := (t, 1).
Definition ris_integer (r : ratio) : bool := snd r =? 1.

(* nr:326-380 Ord::cmp — the recursion on reciprocals of the remainders is the
   continued-fraction expansion; fuel 70 suffices for any 64-bit operands with
   positive denominators (Proofs: rcmp_fuel_enough) *)
Definition cmp_rev (c : comparison) : comparison := CompOpp c.
Fixpoint rcmp_fuel (fuel : nat) p w (a b : ratio) : out comparison :=
  match fuel with
  | O => NoFuel
  | S f =>
      let '(an, ad) := a in
      let '(bn, bd) := b in
      if ad =? bd then
        let ord := an ?= bn in Ok (if ad <? 0 then cmp_rev ord else ord)
      else if an =? bn then
        if an =? 0 then Ok Eq
        else let ord := ad ?= bd in Ok (if an <? 0 then ord else cmp_rev ord)
      else
        do (ai, ar) <- idiv_mod_floor p w an ad;
        do (bi, br) <- idiv_mod_floor p w bn bd;
        match ai ?= bi with
        | Gt => Ok Gt
        | Lt => Ok Lt
        | Eq =>
            match ar =? 0, br =? 0 with
            | true, true => Ok Eq
            | true, false => Ok Lt
            | false, true => Ok Gt
            | false, false =>
                do c <- rcmp_fuel f p w (ad, ar) (bd, br); Ok (cmp_rev c)
            end
        end
  end.
Definition RCMP_FUEL : nat := 140.
Definition rcmp p w (a b : ratio) : out comparison := rcmp_fuel RCMP_FUEL p w a b.
Definition req p w a b : out bool :=
  do c <- rcmp p w a b; Ok (match c with Eq => true | _ => false end).
Definition rlt p w a b : out bool :=
  do c <- rcmp p w a b; Ok (match c with Lt => true | _ => false end).
Definition rge p w a b : out bool :=
  do c <- rcmp p w a b; Ok (match c with Lt => false | _ => true end).
Definition rzero : ratio := (0, 1).
Definition rone : ratio := (1, 1).

(* nr:244-252 trunc, fract; nr:116 to_integer *)
Definition rtrunc w (r : ratio) : out ratio :=
  do q <- idiv w (fst r) (snd r); Ok (rfrom_integer q).
Definition rfract w (r : ratio) : out ratio :=
  do m <- irem w (fst r) (snd r); Ok (m, snd r).
Definition rto_integer w (r : ratio) : out Z := idiv w (fst r) (snd r).

(* nr:181-205 floor / ceil *)
Definition rfloor p w (r : ratio) : out ratio :=
  let '(n, d) := r in
  do neg <- rlt p w r rzero;
  if neg then
    do t <- isub p w n d; do t1 <- iadd p w t 1; do q <- idiv w t1 d; Ok (rfrom_integer q)
  else do q <- idiv w n d; Ok (rfrom_integer q).
Definition rceil p w (r : ratio) : out ratio :=
  let '(n, d) := r in
  do neg <- rlt p w r rzero;
  if neg then do q <- idiv w n d; Ok (rfrom_integer q)
  else do t <- iadd p w n d; do t1 <- isub p w t 1; do q <- idiv w t1 d; Ok (rfrom_integer q).

(* nr:780-803 arith_impl!: Add / Sub / Rem on ratios (NOT the checked forms) *)
Inductive aop := OpAdd | OpSub | OpRem.
Definition apply_aop (o : aop) p w (a b : Z) : out Z :=
  match o with OpAdd => iadd p w a b | OpSub => isub p w a b | OpRem => irem w a b end.
Definition rarith (o : aop) p w (a b : ratio) : out ratio :=
  let '(an, ad) := a in
  let '(bn, bd) := b in
  if ad =? bd then do n <- apply_aop o p w an bn; rnew p w n bd
  else
    do lcm <- ilcm p w ad bd;
    do qa <- idiv w lcm ad;
    do ln <- imul p w an qa;
    do qb <- idiv w lcm bd;
    do rn <- imul p w bn qb;
    do n <- apply_aop o p w ln rn;
    rnew p w n lcm.
Definition radd := rarith OpAdd.
Definition rsub := rarith OpSub.
Definition rrem := rarith OpRem.

(* nr:744-761 Div<Ratio<T>> for Ratio<T> (unchecked) *)
Definition rdiv p w (a b : ratio) : out ratio :=
  let '(an, ad) := a in
  let '(bn, bd) := b in
  do gac <- igcd p w an bn;
  do gbd <- igcd p w ad bd;
  do x1 <- idiv w an gac; do x2 <- idiv w bd gbd; do nn <- imul p w x1 x2;
  do y1 <- idiv w ad gbd; do y2 <- idiv w bn gac; do dd <- imul p w y1 y2;
  rnew p w nn dd.

(* nr:208-241 round (half away from zero) *)
Definition rround p w (r : ratio) : out ratio :=
  do fr0 <- rfract w r;
  do neg <- rlt p w fr0 rzero;
  do fr <- (if neg then rsub p w rzero fr0 else Ok fr0);
  let '(fn, fd) := fr in
  do half <- idiv w fd 2;
  do half_or_larger <-
     (if Z.even fd then Ok (half <=? fn)
      else do h1 <- iadd p w half 1; Ok (h1 <=? fn));
  do t <- rtrunc w r;
  if (half_or_larger : bool) then
    do nonneg <- rge p w r rzero;
    if nonneg then radd p w t rone else rsub p w t rone
  else Ok t.

(* nr:805-821 CheckedMul *)
Definition rchecked_mul p w (a b : ratio) : out (option ratio) :=
  let '(an, ad) := a in
  let '(bn, bd) := b in
  do gad <- igcd p w an bd;
  do gbc <- igcd p w ad bn;
  do x1 <- idiv w an gad; do x2 <- idiv w bn gbc;
  match ichecked_mul w x1 x2 with
  | None => Ok None
  | Some nn =>
      do y1 <- idiv w ad gbc; do y2 <- idiv w bd gad;
      match ichecked_mul w y1 y2 with
      | None => Ok None
      | Some dd => do r <- rnew p w nn dd; Ok (Some r)
      end
  end.

(* nr:824-870 CheckedDiv (with its manual reduce) *)
Definition rchecked_div p w (a b : ratio) : out (option ratio) :=
  let '(an, ad) := a in
  let '(bn, bd) := b in
  if bn =? 0 then Ok None
  else
    do nd <-
      (if ad =? bd then Ok (Some (an, bn))
       else if an =? bn then Ok (Some (bd, ad))
       else
         do gac <- igcd p w an bn;
         do gbd <- igcd p w ad bd;
         do x1 <- idiv w an gac; do x2 <- idiv w bd gbd;
         match ichecked_mul w x1 x2 with
         | None => Ok None
         | Some nn =>
             do y1 <- idiv w ad gbd; do y2 <- idiv w bn gac;
             match ichecked_mul w y1 y2 with
             | None => Ok None
             | Some dd => Ok (Some (nn, dd))
             end
         end);
    match nd with
    | None => Ok None
    | Some (numer, denom) =>
        if denom =? 0 then Ok None
        else if numer =? 0 then Ok (Some rzero)
        else if numer =? denom then Ok (Some rone)
        else
          do g <- igcd p w numer denom;
          do n1 <- idiv w numer g;
          do d1 <- idiv w denom g;
          if d1 <? 0 then
            match ichecked_mul w n1 (-1) with
            | None => Ok None
            | Some n2 => match ichecked_mul w d1 (-1) with
                         | None => Ok None
                         | Some d2 => Ok (Some (n2, d2))
                         end
            end
          else Ok (Some (n1, d1))
    end.

(* nr:873-894 checked_arith_impl!: CheckedAdd / CheckedSub *)
Definition rchecked_addsub (sub : bool) p w (a b : ratio) : out (option ratio) :=
  let '(an, ad) := a in
  let '(bn, bd) := b in
  do g <- igcd p w ad bd;
  do q <- idiv w ad g;
  match ichecked_mul w q bd with
  | None => Ok None
  | Some lcm =>
      do qa <- idiv w lcm ad;
      match ichecked_mul w qa an with
      | None => Ok None
      | Some ln =>
          do qb <- idiv w lcm bd;
          match ichecked_mul w qb bn with
          | None => Ok None
          | Some rn =>
              match (if sub then ichecked_sub w ln rn else ichecked_add w ln rn) with
              | None => Ok None
              | Some n => do r <- rnew p w n lcm; Ok (Some r)
              end
          end
      end
  end.
Definition rchecked_add := rchecked_addsub false.
Definition rchecked_sub := rchecked_addsub true.

(* nr:896-906 Neg; nr:988-1026 Signed::abs / is_negative *)
Definition rneg p w (r : ratio) : out ratio := do n <- ineg p w (fst r); Ok (n, snd r).
Definition ris_negative (r : ratio) : bool :=
  let '(n, d) := r in ((n <? 0) && (0 <? d)) || ((0 <? n) && (d <? 0)).
Definition rabs p w (r : ratio) : out ratio := if ris_negative r then rneg p w r else Ok r.

(* nr:165-177 into_recip *)
Definition rinto_recip p w (r : ratio) : out ratio :=
  let '(n, d) := r in
  match n ?= 0 with
  | Eq => Panic P_RECIP0
  | Gt => Ok (d, n)
  | Lt => do d' <- isub p w 0 d; do n' <- isub p w 0 n; Ok (d', n')
  end.

(* pow.rs:11-14, 57-69: Pow<i32> for &Ratio<T> *)
Definition rpow p w (r : ratio) (e : Z) : out ratio :=
  match e ?= 0 with
  | Eq => Ok rone
  | Gt => do n <- ipow p w (fst r) e; do d <- ipow p w (snd r) e; Ok (n, d)
  | Lt => (* expon.wrapping_abs() as u32 *)
      let e' := if e =? imin 32 then 2 ^ 31 else - e in
      do n <- ipow p w (fst r) e'; do d <- ipow p w (snd r) e'; rinto_recip p w (n, d)
  end.

(* nr:1468-1488 + ratio_to_f64 1510-1536 for a 32-bit ratio: the sign quotient
   short-cut returns what the division returns, and the fast track applies to every
   i32, so the value is (numer as f64) / (denom as f64); None when NaN (0/0) *)
Definition rto_f64 (r : ratio) : option f64 :=
  let f := f64_div (f64_of_Z (fst r)) (f64_of_Z (snd r)) in
  if f64_is_nan f then None else Some f.

(* ----------------------------------------- Ratio<i32>::from_f64 (nr:1176, 1227-1320) *)
Definition AF_MAX_ERROR : f64 := f64_of_bits 0x3bfd83c94fb6d2ac.       (* 10e-20 *)
Definition AF_TMAX_F : f64 := f64_of_Z 2147483647.
Definition AF_EPSILON : f64 := f64_recip AF_TMAX_F.

Record af_state := { af_q : f64; af_n0 : Z; af_d0 : Z; af_n1 : Z; af_d1 : Z }.

(* one iteration of the for loop; None = break *)
Definition af_step p (val : f64) (s : af_state) : out (af_state * bool) :=
  let w := 32 in
  let tmax := imax 32 in
  match f64_to_int (imin 32) (imax 32) (af_q s) with
  | None => Ok (s, true)
  | Some a =>
      let a_f := f64_of_Z a in
      let f := f64_sub (af_q s) a_f in
      do stop <-
        (if a =? 0 then Ok false
         else do t <- idiv w tmax a;
              if (t <? af_n1 s) || (t <? af_d1 s) then Ok true
              else do an <- imul p w a (af_n1 s);
                   do lim <- isub p w tmax (af_n0 s);
                   if lim <? an then Ok true
                   else do ad <- imul p w a (af_d1 s);
                        do lim2 <- isub p w tmax (af_d0 s);
                        Ok (lim2 <? ad));
      if (stop : bool) then Ok (s, true)
      else
        do an <- imul p w a (af_n1 s); do n <- iadd p w an (af_n0 s);
        do ad <- imul p w a (af_d1 s); do d <- iadd p w ad (af_d0 s);
        do g <- igcd p w n d;
        do n1 <- (if g =? 0 then Ok n else idiv w n g);
        do d1 <- (if g =? 0 then Ok d else idiv w d g);
        let s' := {| af_q := af_q s; af_n0 := af_n1 s; af_d0 := af_d1 s; af_n1 := n1; af_d1 := d1 |} in
        let err := f64_abs (f64_sub (f64_div (f64_of_Z n) (f64_of_Z d)) val) in
        if f64_ltb err AF_MAX_ERROR then Ok (s', true)
        else if f64_ltb f AF_EPSILON then Ok (s', true)
        else Ok ({| af_q := f64_recip f; af_n0 := af_n0 s'; af_d0 := af_d0 s';
                    af_n1 := af_n1 s'; af_d1 := af_d1 s' |}, false)
  end.
Fixpoint af_loop (iters : nat) p (val : f64) (s : af_state) : out af_state :=
  match iters with
  | O => Ok s
  | S k => do (s', brk) <- af_step p val s; if (brk : bool) then Ok s' else af_loop k p val s'
  end.
Definition approximate_float_unsigned p (val : f64) : out (option ratio) :=
  if f64_ltb val f64_zero || f64_is_nan val then Ok None
  else if f64_gtb val AF_TMAX_F then Ok None
  else
    do s <- af_loop 30 p val {| af_q := val; af_n0 := 0; af_d0 := 1; af_n1 := 1; af_d1 := 0 |};
    if af_d1 s =? 0 then Ok None
    else do r <- rnew p 32 (af_n1 s) (af_d1 s); Ok (Some r).
Definition ratio32_from_f64 p (val : f64) : out (option ratio) :=
  let negative := f64_sign val in
  do r <- approximate_float_unsigned p (f64_abs val);
  match r with
  | None => Ok None
  | Some r => if negative then do r' <- rneg p 32 r; Ok (Some r') else Ok (Some r)
  end.
