//! wire interfaces of the "misc" area (see docs/AGENT_GUIDE.md for the id range)
//!
//! C19 (ids 110-119; 100-109 are left to the C06 package): native recursion depth of the
//! recursive passes, read from the `marwood::verif_depth` counters.
//!
//!   110 cp...            `D parse=<n> <OK|ERR|ERR incomplete>`      parse_text on the text
//!   111 len cp1.. cp2..  two data (the second may be empty = same as the first):
//!                        `D put=.. get=.. write=.. mark=.. equal=.. OK`
//!                        put/get/mark on a standalone Heap, write = Display {:#} of the datum
//!                        read back, equal = (equal? 'X 'Y) on a fresh Vm
//!   112 cp...            an expression: `D transform=.. compile=.. ffs=.. <OK|ERR>` for
//!                        Vm::prepare_eval (transform + compile, not run)
#![allow(unused_imports, dead_code)]
use crate::text::*;
use marwood::cell::Cell;
use marwood::verif_depth as vd;
use marwood::vm::heap::Heap;
use marwood::vm::vcell::VCell;
use marwood::vm::Vm;

fn parse_one(s: &str) -> Result<Cell, String> {
    match marwood::parse::parse_text(s) {
        Ok((cell, _)) => Ok(cell),
        Err(marwood::parse::Error::Incomplete)
        | Err(marwood::parse::Error::LexError(marwood::lex::Error::Incomplete)) => {
            Err("ERR incomplete".into())
        }
        Err(_) => Err("ERR".into()),
    }
}

fn parse_depth_case(s: &str) -> String {
    vd::reset();
    let r = parse_one(s);
    let d = vd::max_depth(vd::PARSE);
    match r {
        Ok(_) => format!("D parse={} OK", d),
        Err(e) => format!("D parse={} {}", d, e),
    }
}

fn quote(x: &Cell) -> Cell {
    Cell::new_list(vec![Cell::new_symbol("quote"), x.clone()])
}

fn datum_depth_case(c: &[String]) -> String {
    let n: usize = c[1].parse().unwrap();
    let s1 = cps(&c[2..2 + n]);
    let s2 = cps(&c[2 + n..]);
    let x = match parse_one(&s1) {
        Ok(x) => x,
        Err(e) => return e,
    };
    let y = if s2.is_empty() {
        x.clone()
    } else {
        match parse_one(&s2) {
            Ok(y) => y,
            Err(e) => return e,
        }
    };
    let mut heap = Heap::new(1024);
    vd::reset();
    let v = heap.maybe_put_cell(&x);
    let put = vd::max_depth(vd::PUT_CELL);
    vd::reset();
    let back = heap.get_as_cell(&v);
    let get = vd::max_depth(vd::GET_AS_CELL);
    vd::reset();
    let text = format!("{:#}", back);
    let write = vd::max_depth(vd::DISPLAY);
    vd::reset();
    match &v {
        VCell::Ptr(p) => heap.mark(*p),
        other => heap.mark_vcell(other),
    }
    let mark = vd::max_depth(vd::MARK);
    let mut vm = Vm::new();
    let form = Cell::new_list(vec![Cell::new_symbol("equal?"), quote(&x), quote(&y)]);
    vd::reset();
    let r = vm.eval(&form);
    let equal = vd::max_depth(vd::EQUAL);
    let res = match r {
        Ok(c) => format!("{:#}", c),
        Err(_) => "ERR".into(),
    };
    format!(
        "D put={} get={} write={} mark={} equal={} OK {} {}",
        put,
        get,
        write,
        mark,
        equal,
        res,
        esc(&text)
    )
}

fn expr_depth_case(s: &str) -> String {
    let e = match parse_one(s) {
        Ok(x) => x,
        Err(e) => return e,
    };
    let mut vm = Vm::new();
    vd::reset();
    let r = vm.prepare_eval(&e);
    let d = vd::max_depths();
    format!(
        "D transform={} compile={} ffs={} {}",
        d[vd::TRANSFORM],
        d[vd::COMPILE],
        d[vd::FREE_SYMBOLS],
        if r.is_ok() { "OK" } else { "ERR" }
    )
}

pub fn run(c: &[String]) -> String {
    let id: u64 = c[0].parse().unwrap_or(0);
    match id {
        110 => parse_depth_case(&cps(&c[1..])),
        111 => datum_depth_case(c),
        112 => expr_depth_case(&cps(&c[1..])),
        _ => "BADCASE".into(),
    }
}
