//! wire interfaces of the "misc" area (see docs/AGENT_GUIDE.md for the id range)
#![allow(unused_imports, dead_code)]
use crate::text::*;

pub fn run(_c: &[String]) -> String {
    "BADCASE".into()
}
