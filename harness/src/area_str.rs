//! wire interfaces of the "str" area (ids 30-39), property C15.
//!
//! 30  operation sequence over a pool of strings (see Model/WireStr.v for the grammar)
//! 31  lo n: every string/char builtin that consults a Unicode table, on each scalar in lo..lo+n
//! 39  dump of the Unicode tables of the std this harness is built with (oracle data for
//!     coq/Gen/CaseTables.v; never compared with the model)
#![allow(unused_imports, dead_code)]
use crate::text::*;
use marwood::cell::Cell;
use marwood::number::Number;
use marwood::vm::Vm;
use num::bigint::BigInt;
use num::rational::Ratio;
use std::panic::{catch_unwind, AssertUnwindSafe};

pub const OPS: [&str; 48] = [
    "%alias",
    "string-length",
    "string-ref",
    "string-set!",
    "string-copy",
    "substring",
    "string-fill!",
    "string->list",
    "string->vector",
    "vector->string",
    "list->string",
    "string",
    "make-string",
    "string-append",
    "string=?",
    "string<?",
    "string>?",
    "string<=?",
    "string>=?",
    "string-ci=?",
    "string-ci<?",
    "string-ci>?",
    "string-ci<=?",
    "string-ci>=?",
    "string-upcase",
    "string-downcase",
    "string-foldcase",
    "char->integer",
    "integer->char",
    "char-alphabetic?",
    "char-numeric?",
    "char-whitespace?",
    "char-upper-case?",
    "char-lower-case?",
    "char-upcase",
    "char-downcase",
    "char-foldcase",
    "digit-value",
    "char=?",
    "char<?",
    "char>?",
    "char<=?",
    "char>=?",
    "char-ci=?",
    "char-ci<?",
    "char-ci>?",
    "char-ci<=?",
    "char-ci>=?",
];

/// `esc` of text.rs, additionally escaping the field separators `|` and `;`
fn esc2(s: &str) -> String {
    esc(s).replace('|', "\\u{7c}").replace(';', "\\u{3b}")
}

struct Rd<'a> {
    c: &'a [String],
    i: usize,
}

impl<'a> Rd<'a> {
    fn more(&self) -> bool {
        self.i < self.c.len()
    }
    fn tok(&mut self) -> Option<&'a str> {
        let t = self.c.get(self.i)?;
        self.i += 1;
        Some(t.as_str())
    }
    fn n(&mut self) -> Option<u64> {
        self.tok()?.parse::<u64>().ok()
    }
}

fn sym(s: &str) -> Cell {
    Cell::new_symbol(s)
}

fn call(name: &str, args: Vec<Cell>) -> Cell {
    let mut v = vec![sym(name)];
    v.extend(args);
    Cell::new_list(v)
}

fn signed_big(sign: u64, mag: &str) -> Option<BigInt> {
    let m = mag.parse::<BigInt>().ok()?;
    Some(if sign == 1 { -m } else { m })
}

/// one argument; `depth` bounds the nesting exactly as the model's fuel does not need to
fn arg(r: &mut Rd, npool: u64, top: bool) -> Option<Cell> {
    let kind = r.n()?;
    match kind {
        0 => {
            let k = r.n()?;
            if k >= npool || !top {
                return None;
            }
            Some(sym(&format!("s{}", k)))
        }
        1 => {
            let sign = r.n()?;
            let mag = r.tok()?.parse::<u128>().ok()?;
            let v: i128 = if sign == 1 { -(mag as i128) } else { mag as i128 };
            if v < i64::MIN as i128 || v > i64::MAX as i128 {
                return None;
            }
            Some(Cell::Number(Number::Fixnum(v as i64)))
        }
        2 => {
            let c = r.n()?;
            Some(Cell::Char(char::from_u32(u32::try_from(c).ok()?)?))
        }
        3 | 4 | 5 => {
            let n = r.n()?;
            if n > 64 {
                return None;
            }
            let mut items = vec![];
            for _ in 0..n {
                items.push(arg(r, npool, false)?);
            }
            match kind {
                3 => Some(call("list", items)),
                4 => Some(call("vector", items)),
                _ => {
                    let mut tail = arg(r, npool, false)?;
                    for it in items.into_iter().rev() {
                        tail = call("cons", vec![it, tail]);
                    }
                    Some(tail)
                }
            }
        }
        6 => {
            let sign = r.n()?;
            let b = signed_big(sign, r.tok()?)?;
            Some(Cell::Number(Number::new_bigint(b)))
        }
        7 => {
            let bits = r.n()?;
            Some(Cell::Number(Number::Float(f64::from_bits(bits))))
        }
        8 => {
            let sign = r.n()?;
            let n = r.n()?;
            let d = r.n()?;
            if n > i32::MAX as u64 || d == 0 || d > i32::MAX as u64 {
                return None;
            }
            let n = if sign == 1 { -(n as i32) } else { n as i32 };
            Some(Cell::Number(Number::Rational(Ratio::new_raw(n, d as i32))))
        }
        9 => {
            let b = r.n()?;
            Some(Cell::Bool(b != 0))
        }
        10 => {
            let n = r.n()?;
            if n > 64 {
                return None;
            }
            let mut s = String::new();
            for _ in 0..n {
                s.push(char::from_u32(u32::try_from(r.n()?).ok()?)?);
            }
            Some(Cell::String(s))
        }
        _ => None,
    }
}

fn show(cell: &Cell) -> String {
    esc2(&format!("{:#}", cell))
}

fn eval(vm: &mut Vm, cell: &Cell) -> Result<Result<Cell, ()>, ()> {
    match catch_unwind(AssertUnwindSafe(|| vm.eval(cell))) {
        Ok(Ok(c)) => Ok(Ok(c)),
        Ok(Err(_)) => Ok(Err(())),
        Err(_) => Err(()),
    }
}

fn ops_case(c: &[String]) -> Option<String> {
    let mut r = Rd { c, i: 1 };
    let npool = r.n()?;
    if npool > 16 {
        return None;
    }
    let mut vm = Vm::new();
    for k in 0..npool {
        let len = r.n()?;
        if len > 4096 {
            return None;
        }
        let mut s = String::new();
        for _ in 0..len {
            s.push(char::from_u32(u32::try_from(r.n()?).ok()?)?);
        }
        let def = call(
            "define",
            vec![sym(&format!("s{}", k)), call("string-copy", vec![Cell::String(s)])],
        );
        vm.eval(&def).ok()?;
    }
    let mut out: Vec<String> = vec![];
    while r.more() {
        let op = r.n()? as usize;
        let dest = r.n()?;
        let nargs = r.n()?;
        if op >= OPS.len() || dest > npool || nargs > 64 {
            return None;
        }
        let mut args = vec![];
        for _ in 0..nargs {
            args.push(arg(&mut r, npool, true)?);
        }
        let expr = if op == 0 {
            if args.len() != 1 || dest == 0 {
                return None;
            }
            args.pop().unwrap()
        } else {
            call(OPS[op], args)
        };
        let res = if dest == 0 {
            eval(&mut vm, &expr)
        } else {
            let name = format!("s{}", dest - 1);
            match eval(&mut vm, &call("define", vec![sym(&name), expr])) {
                Ok(Ok(_)) => eval(&mut vm, &sym(&name)),
                other => other,
            }
        };
        let mut rec = match res {
            Err(()) => {
                out.push("PANIC".into());
                break;
            }
            Ok(Err(())) => String::from("ERR"),
            Ok(Ok(cell)) => format!("OK {}", show(&cell)),
        };
        for k in 0..npool {
            match eval(&mut vm, &sym(&format!("s{}", k))) {
                Ok(Ok(cell)) => rec.push_str(&format!(" ; {}", show(&cell))),
                _ => rec.push_str(" ; ?"),
            }
        }
        out.push(rec);
    }
    Some(format!("SEQ {}", out.join(" | ")))
}

fn chr(c: char) -> Cell {
    Cell::Char(c)
}

fn chars_case(c: &[String]) -> Option<String> {
    let lo: u32 = c.get(1)?.parse().ok()?;
    let n: u32 = c.get(2)?.parse().ok()?;
    if c.len() != 3 || lo > 0x110000 || n > 4096 {
        return None;
    }
    let mut vm = Vm::new();
    let mut out = String::from("CH");
    for u in lo..lo.checked_add(n)? {
        let ch = match char::from_u32(u) {
            Some(ch) => ch,
            None => {
                // not a scalar value: integer->char must refuse it
                let e = call("integer->char", vec![Cell::Number(Number::Fixnum(u as i64))]);
                match eval(&mut vm, &e) {
                    Err(()) => out.push_str(" PANIC"),
                    Ok(Err(())) => out.push_str(" ERR"),
                    Ok(Ok(cell)) => out.push_str(&format!(" {}", show(&cell))),
                }
                continue;
            }
        };
        let one = |name: &str| call(name, vec![chr(ch)]);
        let s1 = |cs: Vec<char>| call("string", cs.into_iter().map(chr).collect());
        let e = call(
            "list",
            vec![
                call("integer->char", vec![Cell::Number(Number::Fixnum(u as i64))]),
                one("char->integer"),
                one("char-alphabetic?"),
                one("char-numeric?"),
                one("char-whitespace?"),
                one("char-upper-case?"),
                one("char-lower-case?"),
                one("char-upcase"),
                one("char-downcase"),
                one("char-foldcase"),
                one("digit-value"),
                call("string-upcase", vec![s1(vec![ch])]),
                call("string-downcase", vec![s1(vec![ch])]),
                call("string-foldcase", vec![s1(vec!['A', '\u{3a3}', ch])]),
                call("string-downcase", vec![s1(vec!['A', '\u{3a3}', ch, 'A'])]),
                call("string-downcase", vec![s1(vec![ch, '\u{3a3}'])]),
            ],
        );
        match eval(&mut vm, &e) {
            Err(()) => out.push_str(" PANIC"),
            Ok(Err(())) => out.push_str(" ERR"),
            Ok(Ok(cell)) => out.push_str(&format!(" {}", show(&cell))),
        }
    }
    Some(out)
}

/// The Unicode tables of std, observed through its public API only.  The Final_Sigma
/// classes (Case_Ignorable / Cased are private to core) are recovered from
/// str::to_lowercase itself: with T1 = lower("AΣc")[1] and T2 = lower("AΣcA")[1],
///   T1 = σ            <=> c is not case-ignorable and is cased        (class 2)
///   T1 = ς and T2 = σ <=> c is case-ignorable                         (class 1)
///   T2 = ς            <=> c is neither                                (class 0)
/// (Cased is only ever consulted on a character that is not Case_Ignorable.)
fn dump_tables() -> String {
    let mut o = String::from("TABLES");
    let preds: [(&str, fn(char) -> bool); 5] = [
        ("alphabetic", |c| c.is_alphabetic()),
        ("numeric", |c| c.is_numeric()),
        ("whitespace", |c| c.is_whitespace()),
        ("uppercase", |c| c.is_uppercase()),
        ("lowercase", |c| c.is_lowercase()),
    ];
    let scalars = || (0u32..0x110000).filter_map(char::from_u32);
    let ranges = |f: &dyn Fn(char) -> bool| -> String {
        let mut rs: Vec<(u32, u32)> = vec![];
        for c in scalars() {
            if f(c) {
                let u = c as u32;
                match rs.last_mut() {
                    Some(l) if l.1 + 1 == u => l.1 = u,
                    _ => rs.push((u, u)),
                }
            }
        }
        rs.iter().map(|(a, b)| format!("{:x}-{:x}", a, b)).collect::<Vec<_>>().join(",")
    };
    for (name, f) in preds.iter() {
        o.push_str(&format!(" {}={}", name, ranges(&|c| f(c))));
    }
    let sigma_class = |c: char| -> u32 {
        let t1: String = ['A', '\u{3a3}', c].iter().collect();
        let t2: String = ['A', '\u{3a3}', c, 'A'].iter().collect();
        let l1 = t1.to_lowercase().chars().nth(1).unwrap();
        let l2 = t2.to_lowercase().chars().nth(1).unwrap();
        if l1 == '\u{3c3}' {
            2
        } else if l2 == '\u{3c3}' {
            1
        } else {
            0
        }
    };
    o.push_str(&format!(" ignorable={}", ranges(&|c| sigma_class(c) == 1)));
    o.push_str(&format!(" cased={}", ranges(&|c| sigma_class(c) == 2)));
    let maps: [(&str, fn(char) -> Vec<char>); 2] = [
        ("lower", |c| c.to_lowercase().collect()),
        ("upper", |c| c.to_uppercase().collect()),
    ];
    for (name, f) in maps.iter() {
        let mut items = vec![];
        for c in scalars() {
            let m = f(c);
            if m != vec![c] {
                items.push(format!(
                    "{:x}:{}",
                    c as u32,
                    m.iter().map(|x| format!("{:x}", *x as u32)).collect::<Vec<_>>().join(".")
                ));
            }
        }
        o.push_str(&format!(" {}={}", name, items.join(",")));
    }
    o
}

pub fn run(c: &[String]) -> String {
    let id: u64 = c[0].parse().unwrap_or(0);
    let r = match id {
        30 => ops_case(c),
        31 => chars_case(c),
        39 => Some(dump_tables()),
        _ => None,
    };
    r.unwrap_or_else(|| "BADCASE".into())
}
