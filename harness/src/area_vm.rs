//! wire interfaces of the "vm" area (ids 70-99)
#![allow(unused_imports, dead_code)]
use crate::text::*;
use marwood::cell::Cell;
use marwood::error::Error;
use marwood::vm::{SystemInterface, Vm};
use std::cell::RefCell;
use std::rc::Rc;

#[derive(Debug)]
pub struct LogInterface {
    pub log: Rc<RefCell<Vec<String>>>,
}
impl SystemInterface for LogInterface {
    fn display(&self, cell: &Cell) {
        self.log.borrow_mut().push(format!("D:{}", esc(&format!("{}", cell))));
    }
    fn write(&self, cell: &Cell) {
        self.log.borrow_mut().push(format!("W:{}", esc(&format!("{:#}", cell))));
    }
    fn terminal_dimensions(&self) -> (usize, usize) {
        (0, 0)
    }
    fn time_utc(&self) -> u64 {
        0
    }
}

pub fn new_vm() -> (Vm, Rc<RefCell<Vec<String>>>) {
    let log = Rc::new(RefCell::new(vec![]));
    let mut vm = Vm::new();
    vm.set_system_interface(Box::new(LogInterface { log: log.clone() }));
    (vm, log)
}

pub fn show_error(e: &Error) -> String {
    // every returned error must be renderable (C06): force the Display
    let _ = format!("{}", e);
    match e {
        Error::ErrorSignal(cells) => format!(
            "ERR user {}",
            esc(&cells.iter().map(|c| format!("{:#}", c)).collect::<Vec<_>>().join(" "))
        ),
        Error::ParseError(marwood::parse::Error::Incomplete)
        | Error::ParseError(marwood::parse::Error::LexError(marwood::lex::Error::Incomplete))
        | Error::LexError(marwood::lex::Error::Incomplete) => "ERR incomplete".into(),
        _ => "ERR".into(),
    }
}

/// evaluate a text datum by datum; one outcome per datum; stops at a read error
pub fn eval_text_all(vm: &mut Vm, text: &str, out: &mut String) {
    let mut text: &str = text;
    loop {
        // separate reading from evaluating so that an evaluation error does not stop the loop
        let (cell, rest) = match marwood::parse::parse_text(text) {
            Ok(x) => x,
            Err(e) => {
                out.push(' ');
                out.push_str(&show_error(&Error::from(e)));
                return;
            }
        };
        match vm.eval(&cell) {
            Ok(c) => {
                out.push_str(" OK ");
                out.push_str(&esc(&format!("{:#}", c)));
            }
            Err(e) => {
                out.push(' ');
                out.push_str(&show_error(&e));
            }
        }
        match rest {
            Some(r) => text = r,
            None => return,
        }
    }
}

fn take_texts(c: &[String]) -> Option<Vec<String>> {
    let n: usize = c.first()?.parse().ok()?;
    let mut i = 1;
    let mut out = vec![];
    for _ in 0..n {
        let len: usize = c.get(i)?.parse().ok()?;
        i += 1;
        if i + len > c.len() {
            return None;
        }
        out.push(cps(&c[i..i + len]));
        i += len;
    }
    if i != c.len() {
        return None;
    }
    Some(out)
}

pub fn session(forms: &[String]) -> String {
    let (mut vm, log) = new_vm();
    let mut out = String::from("SESSION");
    for f in forms {
        out.push_str(" |");
        eval_text_all(&mut vm, f, &mut out);
    }
    out.push_str(" LOG");
    for l in log.borrow().iter() {
        out.push(' ');
        out.push_str(l);
    }
    out
}

fn lcg(x: u64) -> u64 {
    x.wrapping_mul(6364136223846793005).wrapping_add(1442695040888963407)
}

/// prepare_eval + run_count(budget) until done; m == 0: constant budget x
fn eval_sliced(vm: &mut Vm, cell: &Cell, m: u64, x: &mut u64) -> Result<Cell, Error> {
    vm.prepare_eval(cell)?;
    let mut slices: u64 = 0;
    loop {
        let b = if m == 0 {
            *x
        } else {
            *x = lcg(*x);
            1 + (*x >> 33) % m
        };
        match vm.run_count(b as usize)? {
            Some(c) => return Ok(c),
            None => {
                slices += 1;
                if slices > 600000 {
                    return Err(Error::InvalidSyntax("TOO MANY SLICES".into()));
                }
            }
        }
    }
}

pub fn sliced_session(forms: &[String], m: u64, seed: u64) -> String {
    let (mut vm, log) = new_vm();
    let mut x = seed;
    let mut out = String::from("SESSION");
    for f in forms {
        out.push_str(" |");
        let mut text: &str = f;
        loop {
            let (cell, rest) = match marwood::parse::parse_text(text) {
                Ok(v) => v,
                Err(e) => {
                    out.push(' ');
                    out.push_str(&show_error(&Error::from(e)));
                    break;
                }
            };
            match eval_sliced(&mut vm, &cell, m, &mut x) {
                Ok(c) => {
                    out.push_str(" OK ");
                    out.push_str(&esc(&format!("{:#}", c)));
                }
                Err(Error::InvalidSyntax(ref m)) if m == "TOO MANY SLICES" => {
                    // the evaluation did not finish within the slice limit: the model says NOFUEL there
                    out.push_str(" NOFUEL");
                }
                Err(e) => {
                    out.push(' ');
                    out.push_str(&show_error(&e));
                }
            }
            match rest {
                Some(r) => text = r,
                None => break,
            }
        }
    }
    out.push_str(" LOG");
    for l in log.borrow().iter() {
        out.push(' ');
        out.push_str(l);
    }
    out
}

#[cfg(marwood_verif)]
fn state_of(vm: &Vm) -> String {
    let frames = match vm.last_stacktrace() {
        Some(t) => format!("{}", t.frames.len()),
        None => "-".into(),
    };
    format!(" [sp={} bp={} cap={} frames={}]", vm.verif_sp(), vm.verif_bp(), vm.verif_stack_capacity(), frames)
}
#[cfg(not(marwood_verif))]
fn state_of(_vm: &Vm) -> String {
    " [nohooks]".into()
}

/// like state_session, but every datum is evaluated by slices of `budget` instructions
/// (prepare_eval + run_count): the registers after a failure inside a later slice are visible here
pub fn sliced_state_session(forms: &[String], budget: u64) -> String {
    let (mut vm, _log) = new_vm();
    let mut x = budget;
    let mut out = String::from("STATE");
    for f in forms {
        out.push_str(" |");
        let mut text: &str = f;
        loop {
            let (cell, rest) = match marwood::parse::parse_text(text) {
                Ok(v) => v,
                Err(e) => {
                    out.push(' ');
                    out.push_str(&show_error(&Error::from(e)));
                    break;
                }
            };
            match eval_sliced(&mut vm, &cell, 0, &mut x) {
                Ok(c) => {
                    out.push_str(" OK ");
                    out.push_str(&esc(&format!("{:#}", c)));
                }
                Err(Error::InvalidSyntax(ref m)) if m == "TOO MANY SLICES" => {
                    out.push_str(" NOFUEL");
                    break;
                }
                Err(e) => {
                    out.push(' ');
                    out.push_str(&show_error(&e));
                }
            }
            out.push_str(&state_of(&vm));
            match rest {
                Some(r) => text = r,
                None => break,
            }
        }
    }
    out
}

pub fn state_session(forms: &[String]) -> String {
    let (mut vm, _log) = new_vm();
    let mut out = String::from("STATE");
    for f in forms {
        out.push_str(" |");
        let mut text: &str = f;
        loop {
            let (cell, rest) = match marwood::parse::parse_text(text) {
                Ok(v) => v,
                Err(e) => {
                    out.push(' ');
                    out.push_str(&show_error(&Error::from(e)));
                    break;
                }
            };
            match vm.eval(&cell) {
                Ok(c) => {
                    out.push_str(" OK ");
                    out.push_str(&esc(&format!("{:#}", c)));
                }
                Err(e) => {
                    out.push(' ');
                    out.push_str(&show_error(&e));
                }
            }
            out.push_str(&state_of(&vm));
            match rest {
                Some(r) => text = r,
                None => break,
            }
        }
    }
    out
}

/// evaluate by single-instruction slices, tracking the maximum stack pointer seen at
/// instruction boundaries
#[cfg(marwood_verif)]
fn eval_hw(vm: &mut Vm, cell: &Cell) -> (Result<Cell, Error>, usize) {
    let mut hw = 0usize;
    if let Err(e) = vm.prepare_eval(cell) {
        return (Err(e), 0);
    }
    loop {
        match vm.run_count(1) {
            Ok(Some(c)) => return (Ok(c), hw),
            Ok(None) => {
                let sp = vm.verif_sp();
                if sp > hw {
                    hw = sp;
                }
            }
            Err(e) => return (Err(e), hw),
        }
    }
}
#[cfg(not(marwood_verif))]
fn eval_hw(vm: &mut Vm, cell: &Cell) -> (Result<Cell, Error>, usize) {
    (vm.eval(cell), 0)
}

pub fn hw_session(forms: &[String]) -> String {
    let (mut vm, _log) = new_vm();
    let mut out = String::from("HW");
    for f in forms {
        out.push_str(" |");
        let mut text: &str = f;
        loop {
            let (cell, rest) = match marwood::parse::parse_text(text) {
                Ok(v) => v,
                Err(e) => {
                    out.push(' ');
                    out.push_str(&show_error(&Error::from(e)));
                    break;
                }
            };
            let (r, hw) = eval_hw(&mut vm, &cell);
            match r {
                Ok(c) => {
                    out.push_str(" OK ");
                    out.push_str(&esc(&format!("{:#}", c)));
                }
                Err(e) => {
                    out.push(' ');
                    out.push_str(&show_error(&e));
                }
            }
            out.push_str(&format!(" hw={}", hw));
            match rest {
                Some(r) => text = r,
                None => break,
            }
        }
    }
    out
}

/// evaluate the forms k times in ONE vm (failures included), then report heap and
/// stack statistics: growth must not depend on k (C07, C12)
#[cfg(marwood_verif)]
pub fn repeat_stats(k: usize, forms: &[String]) -> String {
    let (mut vm, _log) = new_vm();
    let mut last = String::new();
    for _ in 0..k {
        for f in forms {
            last.clear();
            eval_text_all(&mut vm, f, &mut last);
        }
    }
    format!(
        "STATS last={} heapcap={} heapused={} scap={} sp={}",
        last.trim(),
        vm.verif_heap_capacity(),
        vm.verif_heap_used(),
        vm.verif_stack_capacity(),
        vm.verif_sp()
    )
}
#[cfg(not(marwood_verif))]
pub fn repeat_stats(_k: usize, _forms: &[String]) -> String {
    "STATS nohooks".into()
}

pub fn run(c: &[String]) -> String {
    let id: u64 = c[0].parse().unwrap_or(0);
    match id {
        70 | 71 => match take_texts(&c[1..]) {
            Some(forms) => session(&forms),
            None => "BADCASE".into(),
        },
        72 => match take_texts(&c[2..]) {
            Some(forms) => sliced_session(&forms, 0, c[1].parse().unwrap()),
            None => "BADCASE".into(),
        },
        73 => match take_texts(&c[3..]) {
            Some(forms) => sliced_session(&forms, std::cmp::max(1, c[2].parse().unwrap()), c[1].parse().unwrap()),
            None => "BADCASE".into(),
        },
        74 => match take_texts(&c[1..]) {
            Some(forms) => state_session(&forms),
            None => "BADCASE".into(),
        },
        75 => match take_texts(&c[1..]) {
            Some(forms) => hw_session(&forms),
            None => "BADCASE".into(),
        },
        77 => match take_texts(&c[2..]) {
            Some(forms) => sliced_state_session(&forms, c[1].parse().unwrap()),
            None => "BADCASE".into(),
        },
        76 => match take_texts(&c[2..]) {
            Some(forms) => repeat_stats(c[1].parse().unwrap(), &forms),
            None => "BADCASE".into(),
        },
        _ => "BADCASE".into(),
    }
}
