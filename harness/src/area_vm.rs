//! wire interfaces of the "vm" area (ids 70-99)
#![allow(unused_imports, dead_code)]
use crate::text::*;
use marwood::cell::Cell;
use marwood::error::Error;
use marwood::vm::{SystemInterface, Vm};
use std::cell::RefCell;
use std::rc::Rc;

#[derive(Debug)]
pub struct LogInterface {
    pub log: Rc<RefCell<Vec<String>>>,
}
impl SystemInterface for LogInterface {
    fn display(&self, cell: &Cell) {
        self.log.borrow_mut().push(format!("D:{}", esc(&format!("{}", cell))));
    }
    fn write(&self, cell: &Cell) {
        self.log.borrow_mut().push(format!("W:{}", esc(&format!("{:#}", cell))));
    }
    fn terminal_dimensions(&self) -> (usize, usize) {
        (0, 0)
    }
    fn time_utc(&self) -> u64 {
        0
    }
}

pub fn new_vm() -> (Vm, Rc<RefCell<Vec<String>>>) {
    let log = Rc::new(RefCell::new(vec![]));
    let mut vm = Vm::new();
    vm.set_system_interface(Box::new(LogInterface { log: log.clone() }));
    (vm, log)
}

pub fn show_error(e: &Error) -> String {
    // every returned error must be renderable (C06): force the Display
    let _ = format!("{}", e);
    match e {
        Error::ErrorSignal(cells) => format!(
            "ERR user {}",
            esc(&cells.iter().map(|c| format!("{:#}", c)).collect::<Vec<_>>().join(" "))
        ),
        Error::ParseError(marwood::parse::Error::Incomplete)
        | Error::ParseError(marwood::parse::Error::LexError(marwood::lex::Error::Incomplete))
        | Error::LexError(marwood::lex::Error::Incomplete) => "ERR incomplete".into(),
        _ => "ERR".into(),
    }
}

/// evaluate a text datum by datum; one outcome per datum; stops at a read error
pub fn eval_text_all(vm: &mut Vm, text: &str, out: &mut String) {
    let mut text: &str = text;
    loop {
        // separate reading from evaluating so that an evaluation error does not stop the loop
        let (cell, rest) = match marwood::parse::parse_text(text) {
            Ok(x) => x,
            Err(e) => {
                out.push(' ');
                out.push_str(&show_error(&Error::from(e)));
                return;
            }
        };
        match vm.eval(&cell) {
            Ok(c) => {
                out.push_str(" OK ");
                out.push_str(&esc(&format!("{:#}", c)));
            }
            Err(e) => {
                out.push(' ');
                out.push_str(&show_error(&e));
            }
        }
        match rest {
            Some(r) => text = r,
            None => return,
        }
    }
}

fn take_texts(c: &[String]) -> Option<Vec<String>> {
    let n: usize = c.first()?.parse().ok()?;
    let mut i = 1;
    let mut out = vec![];
    for _ in 0..n {
        let len: usize = c.get(i)?.parse().ok()?;
        i += 1;
        if i + len > c.len() {
            return None;
        }
        out.push(cps(&c[i..i + len]));
        i += len;
    }
    if i != c.len() {
        return None;
    }
    Some(out)
}

pub fn session(forms: &[String]) -> String {
    let (mut vm, log) = new_vm();
    let mut out = String::from("SESSION");
    for f in forms {
        out.push_str(" |");
        eval_text_all(&mut vm, f, &mut out);
    }
    out.push_str(" LOG");
    for l in log.borrow().iter() {
        out.push(' ');
        out.push_str(l);
    }
    out
}

pub fn run(c: &[String]) -> String {
    let id: u64 = c[0].parse().unwrap_or(0);
    match id {
        70 | 71 => match take_texts(&c[1..]) {
            Some(forms) => session(&forms),
            None => "BADCASE".into(),
        },
        _ => "BADCASE".into(),
    }
}
