//! mwh — runs marwood (built from /repo's working tree) on wire cases.
//! One case per stdin line: space-separated decimal naturals, first = interface id.
//! One canonical ASCII result line per case on stdout.
use std::io::{BufRead, Write};
use std::panic::{catch_unwind, AssertUnwindSafe};

mod area_datum;
mod area_gc;
mod area_lv;
mod area_mac;
mod area_misc;
mod area_num;
mod area_numfmt;
mod area_str;
mod area_vm;
mod text;
use text::*;

fn run_case(c: &[String]) -> String {
    if c.is_empty() {
        return "BADCASE".into();
    }
    let id: u64 = c[0].parse().unwrap_or(0);
    match id {
        1 => text::lex_case(&cps(&c[1..])),
        2 => text::highlight_case(c[1].parse().unwrap(), &cps(&c[2..])),
        3 => text::highlight_check_case(c[1].parse().unwrap(), &cps(&c[2..])),
        4 => text::parse_text_case(&cps(&c[1..])),
        5 => text::parse_all_case(&cps(&c[1..])),
        6 => text::parse_text_case(&cps(&c[2..])),
        7..=9 => area_datum::run(c),
        20..=29 => area_numfmt::run(c),
        10..=29 => area_num::run(c),
        30..=39 => area_str::run(c),
        40..=49 => area_lv::run(c),
        50..=59 => area_mac::run(c),
        60..=69 => area_gc::run(c),
        70..=99 => area_vm::run(c),
        100..=119 => area_misc::run(c),
        _ => "BADCASE".into(),
    }
}

fn main() {
    // silent by default; MW_PANIC_MSG=1 prints the panic message and location on stderr (debugging aid)
    if std::env::var("MW_PANIC_MSG").is_ok() {
        std::panic::set_hook(Box::new(|info| eprintln!("PANIC-MSG {}", info)));
    } else {
        std::panic::set_hook(Box::new(|_| {}));
    }
    let stdin = std::io::stdin();
    let out = std::io::stdout();
    let mut out = std::io::BufWriter::new(out.lock());
    for line in stdin.lock().lines() {
        let line = line.unwrap();
        let toks: Vec<String> = if line.is_empty() {
            vec![]
        } else {
            line.split(' ').map(|s| s.to_string()).collect()
        };
        let r = catch_unwind(AssertUnwindSafe(|| run_case(&toks)));
        match r {
            Ok(s) => writeln!(out, "{}", s).unwrap(),
            Err(_) => writeln!(out, "PANIC").unwrap(),
        }
    }
}
