//! wire interfaces of the "lv" area (ids 40-49): list and vector procedures (C14).
//!
//! 40 npool step*      operation sequence over a pool of objects held in the globals p0, p1, ...
//!                     step := opid nargs operand*          evaluated as (define p<k> (<op> operand...))
//!                     operand := 0 i        the global p<i>
//!                              | 1 s m      exact integer (sign, magnitude)
//!                              | 2 b        boolean            | 3 c   character
//!                              | 4 k        symbol (letter 97+k) | 5   the empty list
//!                              | 6 bits     flonum by bit pattern
//!                              | 7 n c*     string literal
//!                              | 8 n d* t   quoted list literal with tail t   | 9 n d*  quoted vector literal
//!                              | 10 f       the procedure named by op id f
//!                     opid 0 = the operand itself.  The first npool steps are silent (pool
//!                     construction); after every later step: status, every pool object whose
//!                     written form changed, and the eq? row of the new object; at the end the
//!                     full eq? matrix.
//! 41 npool step*      as 40 but prints only the status and result of the LAST step (used for
//!                     procedures that must terminate on circular data: list?).
//! Both run under a watchdog: a case that hangs makes the process exit with status 3 (see `guarded`).
#![allow(unused_imports, dead_code)]
use crate::text::*;
use marwood::cell::Cell;
use marwood::number::Number;
use marwood::vm::Vm;
use std::panic::{catch_unwind, AssertUnwindSafe};

pub const OPS: [&str; 48] = [
    "", "cons", "car", "cdr", "set-car!", "set-cdr!", "list", "length", "append", "reverse",
    "list-tail", "list-ref", "memq", "memv", "member", "assq", "assv", "assoc", "map", "for-each",
    "list?", "vector", "make-vector", "vector-length", "vector-ref", "vector-set!", "vector-fill!",
    "vector->list", "list->vector", "vector-copy", "vector-copy!", "equal?", "eq?", "eqv?",
    "pair?", "null?", "vector?", "cadr", "cddr", "caar", "cdar", "not", "boolean?", "char?",
    "symbol?", "string?", "procedure?", "number?",
];
pub const SIZE_BUDGET: i64 = 1000;

struct P<'a> {
    t: &'a [String],
    i: usize,
}
impl<'a> P<'a> {
    fn next(&mut self) -> Option<u128> {
        let r = self.t.get(self.i)?.parse::<u128>().ok()?;
        self.i += 1;
        Some(r)
    }
    fn done(&self) -> bool {
        self.i >= self.t.len()
    }
}

fn sym(s: &str) -> Cell {
    Cell::Symbol(s.into())
}

fn datum(p: &mut P, depth: usize) -> Option<Cell> {
    if depth > 64 {
        return None;
    }
    Some(match p.next()? {
        1 => {
            let s = p.next()?;
            let m = p.next()?;
            if m > i64::MAX as u128 {
                return None;
            }
            Cell::Number(Number::from(if s == 1 { -(m as i64) } else { m as i64 }))
        }
        11 => {
            // the same integer held as a BigInt (what arithmetic that went through a bignum leaves behind)
            let s = p.next()?;
            let m = p.next()?;
            if m > i64::MAX as u128 {
                return None;
            }
            let v = if s == 1 { -(m as i64) } else { m as i64 };
            Cell::Number(Number::BigInt(std::rc::Rc::new(num::bigint::BigInt::from(v))))
        }
        2 => Cell::Bool(p.next()? != 0),
        3 => Cell::Char(char::from_u32(p.next()? as u32)?),
        4 => {
            let k = p.next()?;
            if k >= 26 {
                return None;
            }
            Cell::Symbol(((97 + k as u8) as char).to_string())
        }
        5 => Cell::Nil,
        6 => Cell::Number(Number::from(f64::from_bits(p.next()? as u64))),
        7 => {
            let n = p.next()?;
            let mut s = String::new();
            for _ in 0..n {
                s.push(char::from_u32(p.next()? as u32)?);
            }
            Cell::String(s)
        }
        8 => {
            let n = p.next()?;
            let mut v = vec![];
            for _ in 0..n {
                v.push(datum(p, depth + 1)?);
            }
            let t = datum(p, depth + 1)?;
            if v.is_empty() {
                t
            } else {
                Cell::new_improper_list(v, t)
            }
        }
        9 => {
            let n = p.next()?;
            let mut v = vec![];
            for _ in 0..n {
                v.push(datum(p, depth + 1)?);
            }
            Cell::Vector(v)
        }
        _ => return None,
    })
}

fn operand(p: &mut P) -> Option<Cell> {
    let code = p.t.get(p.i)?.as_str();
    if code == "0" {
        p.i += 1;
        let i = p.next()?;
        Some(sym(&format!("p{}", i)))
    } else if code == "10" {
        p.i += 1;
        let f = p.next()? as usize;
        if f == 0 || f >= OPS.len() {
            return None;
        }
        Some(sym(OPS[f]))
    } else {
        let d = datum(p, 0)?;
        Some(Cell::new_list(vec![sym("quote"), d]))
    }
}

fn step(p: &mut P) -> Option<Cell> {
    let op = p.next()? as usize;
    let n = p.next()? as usize;
    if op >= OPS.len() || n > 64 {
        return None;
    }
    let mut args = vec![];
    for _ in 0..n {
        args.push(operand(p)?);
    }
    if op == 0 {
        if n != 1 {
            return None;
        }
        return args.pop();
    }
    let mut v = vec![sym(OPS[op])];
    v.extend(args);
    Some(Cell::new_list(v))
}

/// canonical written form (independent of marwood's own printer)
pub fn canon(c: &Cell, o: &mut String) {
    match c {
        Cell::Bool(true) => o.push_str("#t"),
        Cell::Bool(false) => o.push_str("#f"),
        Cell::Char(ch) => o.push_str(&format!("#\\x{:x}", *ch as u32)),
        Cell::Nil => o.push_str("()"),
        Cell::Number(Number::Fixnum(n)) => o.push_str(&n.to_string()),
        // an integer prints the same whichever representation holds it
        Cell::Number(Number::BigInt(z)) => o.push_str(&z.to_string()),
        Cell::Number(Number::Float(f)) => o.push_str(&format!("#i{:x}", f.to_bits())),
        Cell::Number(n) => o.push_str(&format!("#n{}", n)),
        Cell::Pair(_, _) => {
            o.push('(');
            let mut cur = c;
            let mut first = true;
            loop {
                match cur {
                    Cell::Pair(a, d) => {
                        if !first {
                            o.push(' ');
                        }
                        first = false;
                        canon(a, o);
                        cur = d;
                    }
                    Cell::Nil => break,
                    other => {
                        o.push_str(" . ");
                        canon(other, o);
                        break;
                    }
                }
            }
            o.push(')');
        }
        Cell::String(s) => {
            o.push('"');
            o.push_str(&esc(s));
            o.push('"');
        }
        Cell::Symbol(s) => o.push_str(&esc(s)),
        Cell::Vector(v) => {
            o.push_str("#(");
            for (i, x) in v.iter().enumerate() {
                if i > 0 {
                    o.push(' ');
                }
                canon(x, o);
            }
            o.push(')');
        }
        Cell::Continuation => o.push_str("#<cont>"),
        Cell::Macro => o.push_str("#<macro>"),
        Cell::Procedure(_) => o.push_str("#<proc>"),
        Cell::Undefined => o.push_str("#<undef>"),
        Cell::Void => o.push_str("#<void>"),
    }
}

const SZ_DEF: &str = "(define (%sz x n) (cond ((< n 0) n) ((pair? x) (%sz (cdr x) (%sz (car x) (- n 1)))) \
((vector? x) (%szv x 0 (- n 1))) (else n)))";
const SZV_DEF: &str = "(define (%szv x i n) (if (< n 0) n (if (= i (vector-length x)) n \
(%szv x (+ i 1) (%sz (vector-ref x i) n)))))";

fn eval_text(vm: &mut Vm, s: &str) {
    let (c, _) = marwood::parse::parse_text(s).unwrap();
    vm.eval(&c).unwrap();
}

/// written form of the global p<i>, or #<big> when it has more than SIZE_BUDGET nodes
/// (guards the printer against circular structures)
fn show_obj(vm: &mut Vm, i: usize) -> String {
    let name = format!("p{}", i);
    let probe = Cell::new_list(vec![
        sym("%sz"),
        sym(&name),
        Cell::Number(Number::from(SIZE_BUDGET)),
    ]);
    match vm.eval(&probe) {
        Ok(Cell::Number(Number::Fixnum(n))) if n >= 0 => {}
        _ => return "#<big>".into(),
    }
    match vm.eval(&sym(&name)) {
        Ok(c) => {
            let mut o = String::new();
            canon(&c, &mut o);
            o
        }
        Err(_) => "#<unbound>".into(),
    }
}

fn eq_probe(vm: &mut Vm, i: usize, j: usize) -> char {
    let e = Cell::new_list(vec![sym("eq?"), sym(&format!("p{}", i)), sym(&format!("p{}", j))]);
    match vm.eval(&e) {
        Ok(Cell::Bool(true)) => '1',
        Ok(Cell::Bool(false)) => '0',
        _ => '?',
    }
}

fn run_seq(c: &[String], last_only: bool) -> String {
    let mut p = P { t: c, i: 1 };
    let npool = match p.next() {
        Some(n) => n as usize,
        None => return "BADCASE".into(),
    };
    let mut steps = vec![];
    while !p.done() {
        match step(&mut p) {
            Some(s) => steps.push(s),
            None => return "BADCASE".into(),
        }
    }
    let mut vm = Vm::new();
    eval_text(&mut vm, SZ_DEF);
    eval_text(&mut vm, SZV_DEF);
    let mut out = String::from("S");
    let mut last: Vec<String> = vec![];
    let nsteps = steps.len();
    for (k, expr) in steps.into_iter().enumerate() {
        let def = Cell::new_list(vec![sym("define"), sym(&format!("p{}", k)), expr]);
        let r = catch_unwind(AssertUnwindSafe(|| vm.eval(&def)));
        let status = match r {
            Ok(Ok(_)) => "OK",
            Ok(Err(_)) => {
                let d = Cell::new_list(vec![sym("define"), sym(&format!("p{}", k)), Cell::Bool(false)]);
                let _ = vm.eval(&d);
                "ERR"
            }
            Err(_) => {
                out.push_str(" | PANIC");
                return out;
            }
        };
        if last_only {
            if k + 1 == nsteps {
                out.push_str(&format!(" | {} {}", status, show_obj(&mut vm, k)));
            }
            continue;
        }
        if k < npool {
            continue;
        }
        out.push_str(" | ");
        out.push_str(status);
        for i in 0..=k {
            let s = show_obj(&mut vm, i);
            if i >= last.len() {
                last.push(String::new());
                out.push_str(&format!(" {}={}", i, s));
                last[i] = s;
            } else if last[i] != s {
                out.push_str(&format!(" {}={}", i, s));
                last[i] = s;
            }
        }
        out.push_str(" E");
        for i in 0..k {
            out.push(eq_probe(&mut vm, k, i));
        }
    }
    if !last_only {
        out.push_str(" | F");
        for i in 0..nsteps {
            out.push(' ');
            for j in 0..i {
                out.push(eq_probe(&mut vm, i, j));
            }
        }
    }
    out
}

/// Runs one case on a worker thread.  A case that does not finish within the limit is a hang of
/// the implementation (e.g. `length` on a list that a defective procedure made circular): the
/// thread cannot be stopped, so the whole process exits with status 3 WITHOUT printing; the runner
/// then replays the shard case by case and records `ABORT(3)` for the hanging one.
fn guarded(c: &[String], last_only: bool, limit_s: u64) -> String {
    let owned: Vec<String> = c.to_vec();
    let (tx, rx) = std::sync::mpsc::channel();
    std::thread::Builder::new()
        .stack_size(256 << 20)
        .spawn(move || {
            let r = catch_unwind(AssertUnwindSafe(|| run_seq(&owned, last_only)));
            let _ = tx.send(r.unwrap_or_else(|_| "PANIC".into()));
        })
        .unwrap();
    match rx.recv_timeout(std::time::Duration::from_secs(limit_s)) {
        Ok(s) => s,
        Err(_) => std::process::exit(3),
    }
}

pub fn run(c: &[String]) -> String {
    let id: u64 = c[0].parse().unwrap_or(0);
    match id {
        40 => guarded(c, false, 4),
        41 => guarded(c, true, 4),
        _ => "BADCASE".into(),
    }
}
