//! wire interfaces of the "mac" area (ids 50-59): syntax-rules (C17)
//!
//!   50 n d_1..d_n u_1..   direct API: parse both texts, Transform::try_new on the
//!                         (define-syntax ...) datum, `.transform(&use)`; the result is the
//!                         expansion datum in `write` form
//!   51 n d_1..d_n u_1..   through Vm::eval on a fresh Vm: eval the define-syntax, eval the use
//!                         (templates are quoted by the generator, so the value IS the expansion)
//!
//! Result lines: `OK <write form>`, `ERR parse`, `ERR def` (definition rejected), `ERR use`
//! (use rejected), `PANIC`, `TIMEOUT` (expansion did not terminate).
//!
//! An expansion may loop forever while allocating (transform.rs expand), so every case runs
//! in a worker child process (this same executable with MWH_MAC_WORKER=1) under an
//! address-space limit and a per-case wall-clock limit; a worker that exceeds either is
//! killed, the case is reported as TIMEOUT and a fresh worker is started for the next case.
#![allow(unused_imports, dead_code)]
use crate::text::*;
use marwood::cell::Cell;
use marwood::vm::transform::Transform;
use marwood::vm::Vm;
use std::io::{BufRead, BufReader, Write};
use std::panic::{catch_unwind, AssertUnwindSafe};
use std::process::{Child, ChildStdin, Command, Stdio};
use std::sync::mpsc::{channel, Receiver, RecvTimeoutError};
use std::sync::Mutex;
use std::time::Duration;

const CASE_TIMEOUT_MS: u64 = 3000;
const WORKER_VMEM_KB: u64 = 700_000;

fn split(c: &[String]) -> Option<(String, String)> {
    let n: usize = c.get(1)?.parse().ok()?;
    if c.len() < 2 + n {
        return None;
    }
    Some((cps(&c[2..2 + n]), cps(&c[2 + n..])))
}

fn parse_one(s: &str) -> Option<Cell> {
    match marwood::parse::parse_text(s) {
        Ok((cell, None)) => Some(cell),
        _ => None,
    }
}

fn direct(def: &str, usef: &str) -> String {
    let (d, u) = match (parse_one(def), parse_one(usef)) {
        (Some(d), Some(u)) => (d, u),
        _ => return "ERR parse".into(),
    };
    let t = match Transform::try_new(&d) {
        Ok(t) => t,
        Err(_) => return "ERR def".into(),
    };
    match t.transform(&u) {
        Ok(e) => format!("OK {}", esc(&format!("{:#}", e))),
        Err(_) => "ERR use".into(),
    }
}

fn via_eval(def: &str, usef: &str) -> String {
    let (d, u) = match (parse_one(def), parse_one(usef)) {
        (Some(d), Some(u)) => (d, u),
        _ => return "ERR parse".into(),
    };
    let mut vm = Vm::new();
    if vm.eval(&d).is_err() {
        return "ERR def".into();
    }
    match vm.eval(&u) {
        Ok(e) => format!("OK {}", esc(&format!("{:#}", e))),
        Err(_) => "ERR use".into(),
    }
}

fn run_here(c: &[String]) -> String {
    let id: u64 = c[0].parse().unwrap_or(0);
    let (d, u) = match split(c) {
        Some(x) => x,
        None => return "BADCASE".into(),
    };
    match id {
        50 => direct(&d, &u),
        51 => via_eval(&d, &u),
        _ => "BADCASE".into(),
    }
}

struct Worker {
    child: Child,
    stdin: ChildStdin,
    rx: Receiver<String>,
}

static WORKER: Mutex<Option<Worker>> = Mutex::new(None);

fn spawn_worker() -> Worker {
    let exe = std::env::current_exe().unwrap();
    let mut child = Command::new("sh")
        .arg("-c")
        .arg(format!("ulimit -v {}; exec \"$0\"", WORKER_VMEM_KB))
        .arg(exe)
        .env("MWH_MAC_WORKER", "1")
        .stdin(Stdio::piped())
        .stdout(Stdio::null())
        .stderr(Stdio::piped())
        .spawn()
        .unwrap();
    let stdin = child.stdin.take().unwrap();
    let stderr = child.stderr.take().unwrap();
    let (tx, rx) = channel();
    std::thread::spawn(move || {
        for line in BufReader::new(stderr).lines() {
            match line {
                Ok(l) => {
                    if tx.send(l).is_err() {
                        break;
                    }
                }
                Err(_) => break,
            }
        }
    });
    Worker { child, stdin, rx }
}

fn supervise(c: &[String]) -> String {
    let mut guard = WORKER.lock().unwrap_or_else(|e| e.into_inner());
    if guard.is_none() {
        *guard = Some(spawn_worker());
    }
    let w = guard.as_mut().unwrap();
    let line = c.join(" ");
    let sent = writeln!(w.stdin, "{}", line).and_then(|_| w.stdin.flush());
    let mut result: Option<String> = None;
    let mut oom = false;
    if sent.is_ok() {
        loop {
            match w.rx.recv_timeout(Duration::from_millis(CASE_TIMEOUT_MS)) {
                Ok(l) => {
                    if let Some(r) = l.strip_prefix("R ") {
                        result = Some(r.to_string());
                        break;
                    }
                    if l.contains("memory allocation of") {
                        oom = true;
                    }
                }
                Err(RecvTimeoutError::Timeout) => {
                    oom = true;
                    break;
                }
                Err(RecvTimeoutError::Disconnected) => break,
            }
        }
    }
    match result {
        Some(r) => r,
        None => {
            let mut w = guard.take().unwrap();
            let _ = w.child.kill();
            let _ = w.child.wait();
            // time limit or address-space limit exceeded: the expansion ran away
            if oom {
                "TIMEOUT".into()
            } else {
                "ABORT".into()
            }
        }
    }
}

pub fn run(c: &[String]) -> String {
    if std::env::var_os("MWH_MAC_WORKER").is_some() {
        let r = match catch_unwind(AssertUnwindSafe(|| run_here(c))) {
            Ok(s) => s,
            Err(_) => "PANIC".into(),
        };
        // the reply channel of a worker is its (unbuffered) stderr
        eprintln!("R {}", r);
        r
    } else if std::env::var_os("MWH_MAC_INPROCESS").is_some() {
        run_here(c)
    } else {
        supervise(c)
    }
}
