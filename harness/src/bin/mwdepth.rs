//! mwdepth — one C19 scenario per process (the supervisor is lib/props/c19.py).
//!
//!   mwdepth <direction> <operation> <depth> <main|2m>
//!
//! direction: car cdr vector quote closure continuation nontail nested
//! operation: read quote-eval build gc equal write drop   (+ probe-display, outside the grid)
//!
//! The process prints `STAGE <name>` (stdout and stderr) before every step and
//! `DONE <summary>` at the end, then exits 0 WITHOUT running destructors (so that only the
//! `drop` operation measures Drop).  `marwood::verif_depth` tracing is on: stderr carries
//! `DEPTH <family> <n>` lines at multiples of 1000.  Death by native stack exhaustion is a
//! signal (SIGSEGV/SIGABRT, "has overflowed its stack" on stderr): that, or the exit status,
//! is the observation.  A Rust panic or a marwood error is a normal outcome (exit 0).
use marwood::cell::Cell;
use marwood::verif_depth as vd;
use marwood::vm::Vm;
use std::io::Write;

fn stage(name: &str) {
    // maxima restart at every stage, so that the depth trace of a stage names the pass that
    // recurses in THAT stage
    vd::reset();
    println!("STAGE {}", name);
    std::io::stdout().flush().unwrap();
    eprintln!("STAGE {}", name);
}

/// heap chunk (cells) of the scenarios that must not collect while building
const BIG_HEAP: usize = 1 << 21;

fn sym(s: &str) -> Cell {
    Cell::new_symbol(s)
}
fn pair(a: Cell, d: Cell) -> Cell {
    Cell::Pair(Box::new(a), Box::new(d))
}
fn list2(a: Cell, b: Cell) -> Cell {
    pair(a, pair(b, Cell::Nil))
}
fn list3(a: Cell, b: Cell, c: Cell) -> Cell {
    pair(a, pair(b, pair(c, Cell::Nil)))
}

/// the datum of nesting n, built without recursion
fn datum(direction: &str, n: usize) -> Option<Cell> {
    let mut acc;
    match direction {
        "car" => {
            acc = Cell::Nil;
            for _ in 0..n {
                acc = pair(acc, Cell::Nil);
            }
        }
        "cdr" => {
            acc = Cell::Nil;
            for _ in 0..n {
                acc = pair(sym("a"), acc);
            }
        }
        "vector" => {
            acc = Cell::Nil;
            for _ in 0..n {
                acc = Cell::Vector(vec![acc]);
            }
        }
        "quote" => {
            acc = sym("a");
            for _ in 0..n {
                acc = list2(sym("quote"), acc);
            }
        }
        "nested" => {
            acc = Cell::from(1);
            for _ in 0..n {
                acc = list3(sym("+"), Cell::from(1), acc);
            }
        }
        _ => return None,
    }
    Some(acc)
}

/// the text of nesting n
fn text(direction: &str, n: usize) -> Option<String> {
    Some(match direction {
        "car" => "(".repeat(n) + &")".repeat(n),
        "cdr" => "(".to_string() + &"a ".repeat(n) + ")",
        "vector" => "#(".repeat(n) + &")".repeat(n),
        "quote" => "'".repeat(n) + "a",
        "nested" => "(+ 1 ".repeat(n) + "1" + &")".repeat(n),
        _ => return None,
    })
}

/// a program that builds the structure of nesting n at run time (the VM's run loop is
/// iterative, every `mk` is a tail loop) and binds it to the global `name`
fn program(direction: &str, n: usize, name: &str) -> String {
    let step = match direction {
        "car" => "(cons acc '())",
        "cdr" => "(cons 'a acc)",
        "vector" => "(vector acc)",
        "quote" => "(list 'quote acc)",
        "nested" => "(list '+ 1 acc)",
        "closure" => "(lambda () acc)",
        // the frame of mk holds the previous continuation while the next one is captured
        "continuation" => "(call/cc (lambda (c) c))",
        "nontail" => {
            // a list built by NON-tail recursion n deep
            return format!(
                "(define (mk n) (if (= n 0) '() (cons n (mk (- n 1))))) (define {} (mk {}))",
                name, n
            );
        }
        _ => panic!("bad direction"),
    };
    let init = match direction {
        "quote" => "'a",
        "nested" => "1",
        "closure" | "continuation" => "#f",
        _ => "'()",
    };
    format!(
        "(define (mk n acc) (if (= n 0) acc (mk (- n 1) {}))) (define {} (mk {} {}))",
        step, name, n, init
    )
}

fn run_text(vm: &mut Vm, text: &str) -> Result<(), String> {
    let mut text: &str = text;
    loop {
        let (cell, rest) = marwood::parse::parse_text(text).map_err(|e| format!("{:?}", e))?;
        let r = vm.eval(&cell).map_err(|e| format!("error: {}", e))?;
        std::mem::forget(r);
        std::mem::forget(cell);
        match rest {
            Some(r) => text = r,
            None => return Ok(()),
        }
    }
}

fn scenario(direction: &str, op: &str, n: usize) -> String {
    vd::set_trace(1000);
    match op {
        "read" => {
            let t = text(direction, n).unwrap_or_else(|| program(direction, n, "v"));
            stage("parse");
            let r = marwood::parse::parse_text(&t);
            let s = format!("read ok={}", r.is_ok());
            std::mem::forget(r);
            s
        }
        "quote-eval" => {
            let mut vm = Vm::new();
            let form = match datum(direction, n) {
                // the nested expression is evaluated itself; a datum is quoted and passed to a
                // procedure that ignores it, so that no deep result is converted back
                Some(d) if direction == "nested" => d,
                Some(d) => list2(
                    list3(sym("lambda"), pair(sym("x"), Cell::Nil), Cell::from(0)),
                    list2(sym("quote"), d),
                ),
                None => {
                    stage("eval-program");
                    let r = run_text(&mut vm, &program(direction, n, "v"));
                    std::mem::forget(vm);
                    return format!("quote-eval degenerate {:?}", r);
                }
            };
            stage("eval");
            let r = vm.eval(&form);
            let s = format!("quote-eval ok={}", r.is_ok());
            std::mem::forget(r);
            std::mem::forget(form);
            std::mem::forget(vm);
            s
        }
        "build" => {
            let mut vm = Vm::new();
            stage("build");
            let r = if direction == "nested" {
                // build the expression at run time and evaluate it
                run_text(&mut vm, &(program(direction, n, "v") + " (eval v)"))
            } else {
                run_text(&mut vm, &program(direction, n, "v"))
            };
            std::mem::forget(vm);
            format!("build {:?}", r)
        }
        "gc" => {
            let mut vm = Vm::new();
            stage("build");
            if direction == "nontail" {
                // collections while the recursion is n deep
                vm.verif_set_gc_every(Some(9973));
            }
            let r = run_text(&mut vm, &program(direction, n, "v"));
            vm.verif_set_gc_every(None);
            stage("gc");
            vm.verif_force_gc();
            stage("after-gc");
            let r2 = run_text(&mut vm, "(if (procedure? v) 1 (if (pair? v) 2 3))");
            let s = format!("gc {:?} {:?} collections={}", r, r2, vm.verif_gc_count());
            std::mem::forget(vm);
            s
        }
        "equal" => {
            // a heap large enough that no collection runs while the structures are built:
            // the operation under observation is equal?, not the marker
            let mut vm = Vm::verif_new(BIG_HEAP);
            stage("build");
            let r = run_text(&mut vm, &(program(direction, n, "v") + " " + &program(direction, n, "w")));
            stage("equal");
            let e = vm.eval(&list3(sym("equal?"), sym("v"), sym("w")));
            let s = format!("equal {:?} {}", r, match &e {
                Ok(c) => format!("{}", c),
                Err(e) => format!("error: {}", e),
            });
            std::mem::forget(vm);
            s
        }
        "write" => {
            let mut vm = Vm::verif_new(BIG_HEAP);
            stage("build");
            let r = run_text(&mut vm, &program(direction, n, "v"));
            stage("convert");
            let c = vm.eval(&sym("v"));
            stage("display");
            let s = match &c {
                Ok(c) => format!("{:#}", c).len().to_string(),
                Err(e) => format!("error: {}", e),
            };
            std::mem::forget(c);
            std::mem::forget(vm);
            format!("write {:?} len={}", r, s)
        }
        "drop" => {
            match datum(direction, n) {
                Some(d) => {
                    stage("drop");
                    drop(d);
                    "drop datum".into()
                }
                None => {
                    let mut vm = Vm::verif_new(BIG_HEAP);
                    stage("build");
                    let r = run_text(&mut vm, &program(direction, n, "v"));
                    stage("drop");
                    drop(vm);
                    format!("drop vm {:?}", r)
                }
            }
        }
        // probe outside the property's grid: the printer alone, on a datum built without
        // recursion (in the grid `write` the conversion get_as_cell recurses first)
        "probe-display" => {
            let d = datum(direction, n).expect("data direction");
            stage("display");
            let s = format!("{:#}", d).len();
            std::mem::forget(d);
            format!("probe-display len={}", s)
        }
        _ => panic!("bad operation"),
    }
}

fn main() {
    let a: Vec<String> = std::env::args().collect();
    if a.len() != 5 {
        eprintln!("usage: mwdepth <direction> <operation> <depth> <main|2m>");
        std::process::exit(2);
    }
    let (direction, op, n, thread) = (a[1].clone(), a[2].clone(), a[3].parse::<usize>().unwrap(), a[4].clone());
    let work = move || {
        let r = std::panic::catch_unwind(std::panic::AssertUnwindSafe(|| scenario(&direction, &op, n)));
        match r {
            Ok(s) => s,
            Err(_) => "PANIC".to_string(),
        }
    };
    let summary = if thread == "2m" {
        std::thread::Builder::new()
            .stack_size(2 * 1024 * 1024)
            .spawn(work)
            .unwrap()
            .join()
            .unwrap_or_else(|_| "PANIC".to_string())
    } else {
        work()
    };
    println!("DONE {}", summary);
    std::io::stdout().flush().unwrap();
    std::process::exit(0);
}
