//! wire interfaces of the "num" area (ids 10-29); the format is documented in
//! coq/Model/WireNum.v.  Numbers are built DIRECTLY in the requested representation.
#![allow(unused_imports, dead_code)]
use crate::text::*;
use marwood::cell::Cell;
use marwood::number::Number;
use marwood::vm::Vm;
use num::bigint::BigInt;
use num::traits::{Pow, Signed};
use num::{CheckedAdd, CheckedDiv, CheckedMul, CheckedSub, FromPrimitive, Integer, Rational32, ToPrimitive};
use std::cell::RefCell;
use std::panic::{catch_unwind, AssertUnwindSafe};

fn big(s: &str, m: &str) -> BigInt {
    let v: BigInt = m.parse().unwrap();
    if s == "0" {
        v
    } else {
        -v
    }
}

/// truncating conversion of a (possibly out of range) wire integer to i32/i64 is
/// never needed: the generators keep fixnums inside i64 and ratio parts inside i32
fn i64_of(s: &str, m: &str) -> i64 {
    big(s, m).to_i64().expect("fixnum out of i64 range")
}
fn i32_of(s: &str, m: &str) -> i32 {
    big(s, m).to_i32().expect("ratio component out of i32 range")
}

enum Arg {
    Num(Number),
    Other,
}

fn decode_num(c: &[String], i: &mut usize) -> Option<Number> {
    let tag = c.get(*i)?.as_str();
    match tag {
        "0" => {
            let n = Number::Fixnum(i64_of(c.get(*i + 1)?, c.get(*i + 2)?));
            *i += 3;
            Some(n)
        }
        "1" => {
            let n = Number::new_bigint(big(c.get(*i + 1)?, c.get(*i + 2)?));
            *i += 3;
            Some(n)
        }
        "2" => {
            let n = i32_of(c.get(*i + 1)?, c.get(*i + 2)?);
            let d = i32_of(c.get(*i + 3)?, c.get(*i + 4)?);
            *i += 5;
            Some(Number::Rational(Rational32::new_raw(n, d)))
        }
        "3" => {
            let bits: u64 = c.get(*i + 1)?.parse().ok()?;
            *i += 2;
            Some(Number::Float(f64::from_bits(bits)))
        }
        _ => None,
    }
}

fn decode_arg(c: &[String], i: &mut usize) -> Option<Arg> {
    if c.get(*i)?.as_str() == "4" {
        *i += 1;
        return Some(Arg::Other);
    }
    decode_num(c, i).map(Arg::Num)
}

fn show_f64(f: f64) -> String {
    if f.is_nan() {
        "nan".into()
    } else {
        format!("{:x}", f.to_bits())
    }
}

fn show_num(n: &Number) -> String {
    match n {
        Number::Fixnum(z) => format!(" fix {}", z),
        Number::BigInt(z) => format!(" big {}", z),
        Number::Rational(r) => format!(" rat {}/{}", r.numer(), r.denom()),
        Number::Float(f) => format!(" flo {}", show_f64(*f)),
    }
}
fn show_ratio(r: &Rational32) -> String {
    format!(" {}/{}", r.numer(), r.denom())
}
fn show_opt<T>(o: &Option<T>, f: impl Fn(&T) -> String) -> String {
    match o {
        Some(x) => f(x),
        None => " none".into(),
    }
}
fn show_ord(o: &std::cmp::Ordering) -> String {
    format!(" {:?}", o)
}

fn binary(op: &str, a: &Number, b: &Number) -> String {
    match op {
        "0" => format!("OK{}", show_num(&(a + b))),
        "1" => format!("OK{}", show_num(&(a - b))),
        "2" => format!("OK{}", show_num(&(a * b))),
        "3" => format!("OK{}", show_num(&(a / b))),
        "4" => format!("OK{}", show_opt(&a.quotient(b), show_num)),
        "5" => format!("OK{}", show_opt(&(a % b), show_num)),
        "6" => format!("OK{}", show_opt(&a.modulo(b), show_num)),
        "7" => format!("OK {}", a == b),
        "8" => format!("OK{}", show_opt(&a.partial_cmp(b), show_ord)),
        "9" => format!("OK {}", a < b),
        "10" => format!("OK {}", a <= b),
        "11" => format!("OK {}", a > b),
        "12" => format!("OK {}", a >= b),
        _ => "BADCASE".into(),
    }
}

fn show_int<T: std::fmt::Display>(x: &T) -> String {
    format!(" {}", x)
}

fn unary(op: &str, a: &Number) -> String {
    match op {
        "0" => format!("OK{}", show_num(&a.abs())),
        "1" => format!("OK{}", show_num(&a.floor())),
        "2" => format!("OK{}", show_num(&a.ceil())),
        "3" => format!("OK{}", show_num(&a.truncate())),
        "4" => format!("OK{}", show_num(&a.round())),
        "5" => format!("OK{}", show_num(&a.numerator())),
        "6" => format!("OK{}", show_num(&a.denominator())),
        "7" => format!("OK{}", show_opt(&a.to_exact(), show_num)),
        "8" => format!("OK{}", show_opt(&a.to_inexact(), show_num)),
        "9" => format!("OK {}", a.is_integer()),
        "10" => format!("OK{}", show_opt(&a.to_i64(), show_int)),
        "11" => format!("OK{}", show_opt(&a.to_u64(), show_int)),
        "12" => format!("OK{}", show_opt(&a.to_u32(), show_int)),
        "13" => format!("OK{}", show_opt(&a.to_usize(), show_int)),
        "14" => format!("OK{}", show_opt(&a.to_f64(), |f| format!(" {}", show_f64(*f)))),
        "15" => format!("OK {}", a.is_zero()),
        _ => "BADCASE".into(),
    }
}

const PROCS: [&str; 29] = [
    "+", "-", "*", "/", "=", "<", ">", "<=", ">=", "min", "max", "zero?", "positive?", "negative?",
    "odd?", "even?", "abs", "quotient", "remainder", "modulo", "floor", "ceiling", "truncate",
    "round", "numerator", "denominator", "expt", "exact->inexact", "inexact->exact",
];

thread_local! {
    static VM: RefCell<Option<Vm>> = RefCell::new(None);
}

/// libm is not modelled: `expt` with a float base, or a rational base with an
/// exponent above i32::MAX, is answered LIBM on both sides
fn expt_is_libm(args: &[Arg]) -> bool {
    if args.len() != 2 {
        return false;
    }
    let e_ok = match &args[1] {
        Arg::Num(e) => e.is_integer() && e.to_u32().is_some(),
        _ => false,
    };
    if !e_ok {
        return false;
    }
    match (&args[0], &args[1]) {
        (Arg::Num(Number::Float(_)), _) => true,
        (Arg::Num(Number::Rational(_)), Arg::Num(e)) => e.to_u32().unwrap() > i32::MAX as u32,
        _ => false,
    }
}

fn builtin(proc_: usize, args: Vec<Arg>) -> String {
    if proc_ >= PROCS.len() {
        return "ERR".into();
    }
    if proc_ == 26 && expt_is_libm(&args) {
        return "LIBM".into();
    }
    let mut cells = vec![Cell::new_symbol(PROCS[proc_])];
    for a in args {
        cells.push(match a {
            Arg::Num(n) => Cell::Number(n),
            Arg::Other => Cell::Bool(true),
        });
    }
    let expr = Cell::new_list(cells);
    VM.with(|slot| {
        let mut vm = slot.borrow_mut().take().unwrap_or_else(Vm::new);
        let r = catch_unwind(AssertUnwindSafe(|| vm.eval(&expr)));
        match r {
            Ok(res) => {
                *slot.borrow_mut() = Some(vm);
                match res {
                    Ok(Cell::Number(n)) => format!("OK{}", show_num(&n)),
                    Ok(Cell::Bool(true)) => "OK #t".into(),
                    Ok(Cell::Bool(false)) => "OK #f".into(),
                    Ok(_) => "OK other".into(),
                    Err(_) => "ERR".into(),
                }
            }
            Err(_) => {
                // the VM may be in an inconsistent state after a panic: rebuild it
                std::mem::forget(vm);
                "PANIC".into()
            }
        }
    })
}

fn ratio_of(c: &[String], i: usize) -> Option<Rational32> {
    Some(Rational32::new_raw(
        i32_of(c.get(i)?, c.get(i + 1)?),
        i32_of(c.get(i + 2)?, c.get(i + 3)?),
    ))
}

fn ratio_case(c: &[String]) -> String {
    // 13 18 bits | 13 op es e a [b]
    if c.len() == 3 && c[1] == "18" {
        let bits: u64 = c[2].parse().unwrap();
        return format!("OK{}", show_opt(&Rational32::from_f64(f64::from_bits(bits)), show_ratio));
    }
    if c.len() != 8 && c.len() != 12 {
        return "BADCASE".into();
    }
    let op = c[1].as_str();
    let e = i64_of(&c[2], &c[3]);
    let a = ratio_of(c, 4).unwrap();
    if c.len() == 8 {
        return match op {
            "0" => format!("OK{}", show_ratio(&Rational32::new(*a.numer(), *a.denom()))),
            "6" => format!("OK{}", show_ratio(&a.floor())),
            "7" => format!("OK{}", show_ratio(&a.ceil())),
            "8" => format!("OK{}", show_ratio(&a.trunc())),
            "9" => format!("OK{}", show_ratio(&a.round())),
            "10" => format!("OK{}", show_ratio(&a.fract())),
            "11" => format!("OK{}", show_ratio(&a.pow(e as i32))),
            "12" => format!("OK{}", show_ratio(&a.abs())),
            "13" => format!("OK{}", show_opt(&a.to_f64(), |f| format!(" {}", show_f64(*f)))),
            "19" => format!("OK {}", a.to_integer()),
            "20" => format!("OK {}", a.numer().gcd(a.denom())),
            "21" => format!("OK {}", Pow::pow(*a.numer(), e as u32)),
            _ => "BADCASE".into(),
        };
    }
    let b = ratio_of(c, 8).unwrap();
    match op {
        "1" => format!("OK{}", show_opt(&a.checked_add(&b), show_ratio)),
        "2" => format!("OK{}", show_opt(&a.checked_sub(&b), show_ratio)),
        "3" => format!("OK{}", show_opt(&a.checked_mul(&b), show_ratio)),
        "4" => format!("OK{}", show_opt(&a.checked_div(&b), show_ratio)),
        "5" => format!("OK{}", show_ord(&a.cmp(&b))),
        "14" => format!("OK{}", show_ratio(&(a % b))),
        "15" => format!("OK{}", show_ratio(&(a / b))),
        "16" => format!("OK{}", show_ratio(&(a + b))),
        "17" => format!("OK{}", show_ratio(&(a - b))),
        _ => "BADCASE".into(),
    }
}

pub fn run(c: &[String]) -> String {
    match c[0].as_str() {
        "10" => {
            if c.len() < 3 {
                return "BADCASE".into();
            }
            let mut i = 2;
            let a = match decode_num(c, &mut i) {
                Some(a) => a,
                None => return "BADCASE".into(),
            };
            let b = match decode_num(c, &mut i) {
                Some(b) => b,
                None => return "BADCASE".into(),
            };
            if i != c.len() {
                return "BADCASE".into();
            }
            binary(&c[1], &a, &b)
        }
        "11" => {
            if c.len() < 3 {
                return "BADCASE".into();
            }
            if c[1] == "16" {
                let e: u32 = match c[2].parse() {
                    Ok(e) => e,
                    Err(_) => return "BADCASE".into(),
                };
                let mut i = 3;
                return match decode_num(c, &mut i) {
                    Some(Number::Float(_)) => "LIBM".into(),
                    Some(Number::Rational(_)) if e > i32::MAX as u32 => "LIBM".into(),
                    Some(a) if i == c.len() => format!("OK{}", show_num(&a.pow(e))),
                    _ => "BADCASE".into(),
                };
            }
            let mut i = 2;
            match decode_num(c, &mut i) {
                Some(a) if i == c.len() => unary(&c[1], &a),
                _ => "BADCASE".into(),
            }
        }
        "12" => {
            if c.len() < 2 {
                return "BADCASE".into();
            }
            let proc_: usize = c[1].parse().unwrap_or(999);
            let mut i = 2;
            let mut args = vec![];
            while i < c.len() {
                match decode_arg(c, &mut i) {
                    Some(a) => args.push(a),
                    None => return "BADCASE".into(),
                }
            }
            builtin(proc_, args)
        }
        "13" => ratio_case(c),
        "14" => {
            if c.len() < 3 {
                return "BADCASE".into();
            }
            let k: usize = c[2].parse().unwrap_or(0);
            let mut i = 3;
            let mut all = vec![];
            while i < c.len() {
                match decode_num(c, &mut i) {
                    Some(a) => all.push(a),
                    None => return "BADCASE".into(),
                }
            }
            if k > all.len() {
                return "BADCASE".into();
            }
            let mut o = String::from("ALL");
            for a in &all[..k] {
                for b in &all[k..] {
                    o.push(';');
                    match catch_unwind(AssertUnwindSafe(|| binary(&c[1], a, b))) {
                        Ok(s) => o.push_str(&s),
                        Err(_) => o.push_str("PANIC"),
                    }
                }
            }
            o
        }
        "15" => {
            let mut i = 1;
            let a = match decode_num(c, &mut i) {
                Some(a) => a,
                None => return "BADCASE".into(),
            };
            let b = match decode_num(c, &mut i) {
                Some(b) if i == c.len() => b,
                _ => return "BADCASE".into(),
            };
            let mut o = String::from("CMP");
            for op in ["7", "8", "9", "10", "11", "12"] {
                o.push(';');
                match catch_unwind(AssertUnwindSafe(|| binary(op, &a, &b))) {
                    Ok(s) => o.push_str(&s),
                    Err(_) => o.push_str("PANIC"),
                }
            }
            o
        }
        "16" | "17" => {
            let mut i = 1;
            let mut args = vec![];
            while i < c.len() {
                match decode_arg(c, &mut i) {
                    Some(a) => args.push(a),
                    None => return "BADCASE".into(),
                }
            }
            let clone = |a: &Arg| match a {
                Arg::Num(n) => Arg::Num(n.clone()),
                Arg::Other => Arg::Other,
            };
            if c[0] == "16" {
                let mut o = String::from("VM");
                for proc_ in [4, 5, 6, 7, 8, 9, 10] {
                    o.push(';');
                    o.push_str(&builtin(proc_, args.iter().map(clone).collect()));
                }
                o
            } else {
                if args.len() != 3 {
                    return "BADCASE".into();
                }
                let mut o = String::from("TRI");
                for proc_ in [4, 5, 6, 7, 8] {
                    for idx in [vec![0, 1], vec![1, 2], vec![0, 2], vec![0, 1, 2]] {
                        o.push(';');
                        o.push_str(&builtin(proc_, idx.iter().map(|&j| clone(&args[j])).collect()));
                    }
                }
                o
            }
        }
        _ => "BADCASE".into(),
    }
}
