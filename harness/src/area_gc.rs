//! wire interfaces of the "gc" area (ids 60-69), built on the hooks of marwood/src/vm/verif.rs
//!
//! 60  session under a collection schedule:
//!       60 mode k seed snap_mod snap_max chunk <program text as code points>
//!     mode 0 = no forced collection, 1 = every k-th instruction, 2 = pseudo-random
//!     boundaries (xorshift from seed, one in k).  chunk = heap chunk size (0 = default).
//!     Every top-level form of the text is evaluated in turn.  Result line:
//!       S <result>* | <display/write log> ## gc=<n> forced=<n> checked=<n> indep=<ok|FAIL:..>
//!         cap=<capacity> used=<used> { SNAP <numbers> AFTER <canonical line> }*
//!     The part before " ## " must not depend on the schedule (C03); after every
//!     collection the harness runs its OWN reachability traversal on the state seen
//!     before the collection and checks the state after it (indep=).
//!     A collection whose index i satisfies i % snap_mod == snap_mod-1 (at most
//!     snap_max of them) is serialised: the snapshot is a case of interface 61.
//! 61  (model only) mark + sweep of Model/Gc.v on a serialised snapshot.
//! 62  the packed two-bit map of gc.rs:  62 size { 0 index | 1 index state | 2 newsize }*
//!     (get / set / resize); prints the result of every get.
//! 65  symbol builtins:  65 op <text>   op 0 = string->symbol (prints the stored name),
//!     1 = symbol->string of the symbol with that name, 2 = symbol->string after string->symbol.
//! 63  heap statistics for C12:  63 chunk nforms <len text>*  — evaluates the forms in
//!     turn and prints capacity/used after each:  H <cap>:<used>:<gc count> ...
//! 64  symbol routes for C18 — same as 60 (a session), kept as a separate id so that
//!     the two properties' case streams are distinguishable.
#![allow(unused_imports, dead_code)]
use crate::text::*;
use marwood::cell::Cell;
use marwood::error::Error;
use marwood::vm::vcell::VCell;
use marwood::vm::verif::GcEvent;
use marwood::vm::{SystemInterface, Vm};
use std::cell::RefCell;
use std::collections::{HashMap, HashSet};
use std::rc::Rc;

pub fn run(c: &[String]) -> String {
    let id: u64 = c[0].parse().unwrap_or(0);
    match id {
        60 | 64 => session_case(c),
        62 => pmap_case(c),
        63 => stats_case(c),
        65 => symbol_case(c),
        _ => "BADCASE".into(),
    }
}

// ------------------------------------------------------------------ output log
#[derive(Debug)]
struct LogInterface {
    log: Rc<RefCell<String>>,
}
impl SystemInterface for LogInterface {
    fn display(&self, cell: &Cell) {
        self.log.borrow_mut().push_str(&format!("d:{} ", esc(&format!("{}", cell))));
    }
    fn write(&self, cell: &Cell) {
        self.log.borrow_mut().push_str(&format!("w:{} ", esc(&format!("{:#}", cell))));
    }
    fn terminal_dimensions(&self) -> (usize, usize) {
        (0, 0)
    }
    fn time_utc(&self) -> u64 {
        0
    }
}

fn show_result(r: &Result<Cell, Error>) -> String {
    match r {
        Ok(cell) => format!("OK {}", esc(&format!("{:#}", cell))),
        Err(Error::ErrorSignal(v)) => {
            let s: Vec<String> = v.iter().map(|c| format!("{:#}", c)).collect();
            format!("ERRuser {}", esc(&s.join(" ")))
        }
        Err(Error::ParseError(marwood::parse::Error::Incomplete))
        | Err(Error::LexError(marwood::lex::Error::Incomplete)) => "ERRincomplete".into(),
        Err(_) => "ERR".into(),
    }
}

/// instruction budget of one top-level form (a run that exceeds it prints BUDGET and the
/// session stops: a mutated collector can send a program into an endless loop)
const BUDGET: usize = 1_000_000;
/// at most this many collections per session (then the session panics: PANIC line)
const MAX_COLLECTIONS: u64 = 40_000;

/// evaluate every top-level form of `text` (what Vm::eval_text does: parse_text,
/// prepare_eval, run — with a budget); returns the canonical results
fn eval_all(vm: &mut Vm, text: &str, out: &mut String, budget: usize) {
    let mut rest: &str = text;
    loop {
        if rest.trim().is_empty() {
            return;
        }
        let (cell, remaining) = match marwood::parse::parse_text(rest) {
            Ok(x) => x,
            Err(e) => {
                out.push_str(&show_result(&Err(e.into())));
                out.push(' ');
                return;
            }
        };
        let r = match vm.prepare_eval(&cell) {
            Err(e) => Err(e),
            Ok(()) => match vm.run_count(budget) {
                Ok(Some(c)) => Ok(c),
                Ok(None) => {
                    out.push_str("BUDGET ");
                    return;
                }
                Err(e) => Err(e),
            },
        };
        out.push_str(&show_result(&r));
        out.push(' ');
        match remaining {
            Some(r) => rest = r,
            None => return,
        }
    }
}

// ------------------------------------------------- independent reachability
// The harness's own statement of what is live: everything that can be named from
// the roots through ANY address-bearing value (no knowledge of how marwood's
// marker is written).  Worklist, visited sets for addresses and for Rc payloads.
struct Walk<'a> {
    cells: &'a [VCell],
    seen: Vec<bool>,
    seen_rc: HashSet<usize>,
    todo: Vec<usize>,
    dangling: usize,
}

impl<'a> Walk<'a> {
    fn addr(&mut self, a: usize) {
        if a == usize::MAX {
            return; // the initial ep / ip.0
        }
        if a >= self.cells.len() {
            self.dangling += 1;
            return;
        }
        if !self.seen[a] {
            self.seen[a] = true;
            self.todo.push(a);
        }
    }

    fn value(&mut self, v: &VCell) {
        match v {
            VCell::Pair(a, d) => {
                self.addr(*a);
                self.addr(*d);
            }
            VCell::Ptr(p) => self.addr(*p),
            VCell::Closure(l, e) => {
                self.addr(*l);
                self.addr(*e);
            }
            VCell::LexicalEnvPtr(e, _) => self.addr(*e),
            VCell::EnvironmentPointer(e) => self.addr(*e),
            VCell::InstructionPointer(l, _) => self.addr(*l),
            VCell::Vector(vec) => {
                if self.seen_rc.insert(Rc::as_ptr(vec) as *const u8 as usize) {
                    for i in 0..vec.len() {
                        let x = vec.get(i).unwrap();
                        self.value(&x);
                    }
                }
            }
            VCell::LexicalEnv(env) => {
                if self.seen_rc.insert(Rc::as_ptr(env) as *const u8 as usize) {
                    for i in 0..env.slot_len() {
                        let x = env.get(i);
                        self.value(&x);
                    }
                }
            }
            VCell::Lambda(lam) => {
                if self.seen_rc.insert(Rc::as_ptr(lam) as *const u8 as usize) {
                    for x in lam.bc.iter() {
                        self.value(x);
                    }
                    for x in lam.args.iter() {
                        self.value(x);
                    }
                    for x in lam.envmap.get_map().iter() {
                        self.value(&x.0);
                    }
                }
            }
            VCell::Continuation(k) => {
                if self.seen_rc.insert(Rc::as_ptr(k) as *const u8 as usize) {
                    for x in k.stack().iter() {
                        self.value(x);
                    }
                    self.addr(k.ip().0);
                    self.addr(k.ep());
                }
            }
            _ => {}
        }
    }

    fn run(&mut self) {
        while let Some(a) = self.todo.pop() {
            let c = self.cells[a].clone();
            self.value(&c);
        }
    }
}

fn reachable(vm: &Vm) -> (Vec<bool>, usize) {
    let cells = vm.verif_heap_cells();
    let mut w = Walk {
        cells,
        seen: vec![false; cells.len()],
        seen_rc: HashSet::new(),
        todo: vec![],
        dangling: 0,
    };
    for (sym, _) in vm.verif_global_bindings() {
        w.addr(sym);
    }
    for v in vm.verif_global_slots() {
        w.value(v);
    }
    for v in vm.verif_stack() {
        w.value(v);
    }
    w.value(vm.verif_acc());
    w.addr(vm.verif_ip().0);
    w.addr(vm.verif_ep());
    w.run();
    (w.seen, w.dangling)
}

/// shallow identity of two cells: same constructor, same scalars, same Rc object
fn same_cell(a: &VCell, b: &VCell) -> bool {
    match (a, b) {
        (VCell::Symbol(x), VCell::Symbol(y)) => Rc::ptr_eq(x, y),
        (VCell::String(x), VCell::String(y)) => Rc::ptr_eq(x, y),
        (VCell::Vector(x), VCell::Vector(y)) => Rc::ptr_eq(x, y),
        (VCell::Continuation(x), VCell::Continuation(y)) => Rc::ptr_eq(x, y),
        (VCell::Lambda(x), VCell::Lambda(y)) => Rc::ptr_eq(x, y),
        (VCell::LexicalEnv(x), VCell::LexicalEnv(y)) => Rc::ptr_eq(x, y),
        (VCell::Macro(x), VCell::Macro(y)) => Rc::ptr_eq(x, y),
        (VCell::BuiltInProc(x), VCell::BuiltInProc(y)) => Rc::ptr_eq(x, y),
        (x, y) => x == y,
    }
}

struct Before {
    live: Vec<bool>,
    cells: Vec<VCell>,
    symtab: Vec<(String, usize)>,
    dangling: usize,
}

fn check_after(vm: &Vm, b: &Before) -> Result<(), String> {
    let cells = vm.verif_heap_cells();
    let states = vm.verif_gc_states();
    if cells.len() != b.cells.len() {
        return Err("capacity changed during mark/sweep".into());
    }
    if b.dangling > 0 {
        return Err(format!("{} root/edge address(es) outside the heap", b.dangling));
    }
    let free: Vec<usize> = vm.verif_free_list().to_vec();
    let mut on_free = vec![0u32; cells.len()];
    for a in &free {
        if *a >= cells.len() {
            return Err(format!("free list holds {} outside the heap", a));
        }
        on_free[*a] += 1;
    }
    for i in 0..cells.len() {
        let allocated = states[i] == 1;
        if states[i] == 2 {
            return Err(format!("cell {} still marked Used after sweep", i));
        }
        if b.live[i] && !allocated {
            return Err(format!("live cell {} reclaimed ({:?})", i, b.cells[i]));
        }
        if !b.live[i] && allocated {
            return Err(format!("unreachable cell {} still allocated ({:?})", i, b.cells[i]));
        }
        if b.live[i] && !same_cell(&cells[i], &b.cells[i]) {
            return Err(format!("live cell {} changed: {:?} -> {:?}", i, b.cells[i], cells[i]));
        }
        if !allocated {
            if cells[i] != VCell::Undefined {
                return Err(format!("free cell {} not Undefined", i));
            }
            if on_free[i] != 1 {
                return Err(format!("free cell {} is on the free list {} times", i, on_free[i]));
            }
        } else if on_free[i] != 0 {
            return Err(format!("allocated cell {} is on the free list", i));
        }
    }
    // symbol table <-> heap consistency (C18) and identity of live symbols
    let st = vm.verif_symbol_table();
    let mut by_addr: HashMap<usize, &str> = HashMap::new();
    for (name, a) in &st {
        if *a >= cells.len() || states[*a] != 1 {
            return Err(format!("symbol table entry {:?} -> {} is not an allocated cell", name, a));
        }
        match &cells[*a] {
            VCell::Symbol(s) if s.as_str() == name.as_str() => {}
            other => return Err(format!("symbol table entry {:?} -> {} holds {:?}", name, a, other)),
        }
        if by_addr.insert(*a, name.as_str()).is_some() {
            return Err(format!("two symbol table entries for cell {}", a));
        }
    }
    for i in 0..cells.len() {
        if states[i] == 1 {
            if let VCell::Symbol(s) = &cells[i] {
                if by_addr.get(&i).copied() != Some(s.as_str()) {
                    return Err(format!("allocated symbol cell {} ({:?}) has no table entry", i, s));
                }
            }
        }
    }
    for (name, a) in &b.symtab {
        if b.live[*a] && !st.iter().any(|(n, x)| n == name && x == a) {
            return Err(format!("live symbol {:?} lost its table entry", name));
        }
    }
    Ok(())
}

// ----------------------------------------------------------- snapshot encoding
const P61: u128 = 2305843009213693951; // 2^61 - 1

fn hash_seq<I: Iterator<Item = u128>>(it: I) -> u128 {
    let mut h: u128 = 7;
    for x in it {
        h = (h * 1000003 + (x % P61) + 1) % P61;
    }
    h
}

#[derive(Default)]
struct Ser {
    ids: HashMap<(u8, usize), usize>,
    vecs: Vec<Rc<marwood::vm::vector::Vector>>,
    envs: Vec<Rc<marwood::vm::environment::LexicalEnvironment>>,
    lams: Vec<Rc<marwood::vm::lambda::Lambda>>,
    conts: Vec<Rc<marwood::vm::continuation::Continuation>>,
    nstr: usize,
    nmac: usize,
}

fn push(o: &mut Vec<String>, x: usize) {
    o.push(x.to_string());
}

impl Ser {
    fn id(&mut self, kind: u8, p: usize, next: usize) -> (usize, bool) {
        match self.ids.get(&(kind, p)) {
            Some(i) => (*i, false),
            None => {
                self.ids.insert((kind, p), next);
                (next, true)
            }
        }
    }

    fn vcell(&mut self, v: &VCell, o: &mut Vec<String>) {
        match v {
            VCell::Bool(b) => {
                push(o, 0);
                push(o, *b as usize)
            }
            VCell::Char(c) => {
                push(o, 1);
                push(o, *c as usize)
            }
            VCell::Nil => push(o, 2),
            VCell::Number(_) => push(o, 3),
            VCell::Pair(a, d) => {
                push(o, 4);
                push(o, *a);
                push(o, *d)
            }
            VCell::Symbol(s) => {
                push(o, 5);
                push(o, s.chars().count());
                for ch in s.chars() {
                    push(o, ch as usize)
                }
            }
            VCell::String(s) => {
                let n = self.nstr;
                let (i, fresh) = self.id(6, Rc::as_ptr(s) as *const u8 as usize, n);
                if fresh {
                    self.nstr += 1;
                }
                push(o, 6);
                push(o, i)
            }
            VCell::Vector(x) => {
                let n = self.vecs.len();
                let (i, fresh) = self.id(7, Rc::as_ptr(x) as *const u8 as usize, n);
                if fresh {
                    self.vecs.push(x.clone());
                }
                push(o, 7);
                push(o, i)
            }
            VCell::Undefined => push(o, 8),
            VCell::Void => push(o, 9),
            VCell::Continuation(x) => {
                let n = self.conts.len();
                let (i, fresh) = self.id(10, Rc::as_ptr(x) as *const u8 as usize, n);
                if fresh {
                    self.conts.push(x.clone());
                }
                push(o, 10);
                push(o, i)
            }
            VCell::Closure(l, e) => {
                push(o, 11);
                push(o, *l);
                push(o, *e)
            }
            VCell::Lambda(x) => {
                let n = self.lams.len();
                let (i, fresh) = self.id(12, Rc::as_ptr(x) as *const u8 as usize, n);
                if fresh {
                    self.lams.push(x.clone());
                }
                push(o, 12);
                push(o, i)
            }
            VCell::LexicalEnv(x) => {
                let n = self.envs.len();
                let (i, fresh) = self.id(13, Rc::as_ptr(x) as *const u8 as usize, n);
                if fresh {
                    self.envs.push(x.clone());
                }
                push(o, 13);
                push(o, i)
            }
            VCell::LexicalEnvSlot(i) => {
                push(o, 14);
                push(o, *i)
            }
            VCell::LexicalEnvPtr(e, i) => {
                push(o, 15);
                push(o, *e);
                push(o, *i)
            }
            VCell::Macro(x) => {
                let n = self.nmac;
                let (i, fresh) = self.id(16, Rc::as_ptr(x) as *const u8 as usize, n);
                if fresh {
                    self.nmac += 1;
                }
                push(o, 16);
                push(o, i)
            }
            VCell::Acc => push(o, 17),
            VCell::ArgumentCount(n) => {
                push(o, 18);
                push(o, *n)
            }
            VCell::BasePointer(n) => {
                push(o, 19);
                push(o, *n)
            }
            VCell::BasePointerOffset(z) => {
                push(o, 20);
                push(o, (*z < 0) as usize);
                push(o, z.unsigned_abs() as usize)
            }
            VCell::BuiltInProc(_) => push(o, 21),
            VCell::EnvironmentPointer(p) => {
                push(o, 22);
                push(o, *p)
            }
            VCell::GlobalEnvSlot(i) => {
                push(o, 23);
                push(o, *i)
            }
            VCell::InstructionPointer(l, i) => {
                push(o, 24);
                push(o, *l);
                push(o, *i)
            }
            VCell::OpCode(_) => push(o, 25),
            VCell::Ptr(p) => {
                push(o, 26);
                push(o, *p)
            }
        }
    }

    fn list(&mut self, l: &[VCell], o: &mut Vec<String>) {
        push(o, l.len());
        for v in l {
            self.vcell(v, o);
        }
    }
}

/// the state before a collection as a case of interface 61
fn snapshot(vm: &Vm) -> Vec<String> {
    let mut ser = Ser::default();
    let cells = vm.verif_heap_cells();
    let states = vm.verif_gc_states();
    let mut head: Vec<String> = vec![];
    push(&mut head, 61);
    push(&mut head, 0); // verbose flag
    push(&mut head, cells.len());
    push(&mut head, vm.verif_heap_chunk_size());
    let mut body: Vec<String> = vec![];
    let mut n = 0;
    for i in 0..cells.len() {
        if states[i] != 0 || cells[i] != VCell::Undefined {
            n += 1;
            push(&mut body, i);
            push(&mut body, states[i] as usize);
            ser.vcell(&cells[i], &mut body);
        }
    }
    push(&mut head, n);
    head.append(&mut body);
    // free list, next to pop first
    let fl = vm.verif_free_list();
    push(&mut head, fl.len());
    for a in fl.iter().rev() {
        push(&mut head, *a);
    }
    let st = vm.verif_symbol_table();
    push(&mut head, st.len());
    for (name, a) in &st {
        push(&mut head, *a);
        push(&mut head, name.chars().count());
        for ch in name.chars() {
            push(&mut head, ch as usize);
        }
    }
    // roots
    let mut roots: Vec<String> = vec![];
    let b = vm.verif_global_bindings();
    push(&mut roots, b.len());
    for (k, s) in &b {
        push(&mut roots, *k);
        push(&mut roots, *s);
    }
    ser.list(vm.verif_global_slots(), &mut roots);
    ser.list(vm.verif_stack(), &mut roots);
    ser.vcell(vm.verif_acc(), &mut roots);
    push(&mut roots, vm.verif_ip().0);
    push(&mut roots, vm.verif_ip().1);
    push(&mut roots, vm.verif_ep());
    push(&mut roots, vm.verif_bp());
    // payload tables; encoding a payload may discover further payloads
    let (mut bv, mut be, mut bl, mut bc): (Vec<String>, Vec<String>, Vec<String>, Vec<String>) =
        (vec![], vec![], vec![], vec![]);
    let (mut iv, mut ie, mut il, mut ic) = (0, 0, 0, 0);
    loop {
        let mut progress = false;
        while iv < ser.vecs.len() {
            let x = ser.vecs[iv].clone();
            let l: Vec<VCell> = (0..x.len()).map(|i| x.get(i).unwrap()).collect();
            ser.list(&l, &mut bv);
            iv += 1;
            progress = true;
        }
        while ie < ser.envs.len() {
            let x = ser.envs[ie].clone();
            let l: Vec<VCell> = (0..x.slot_len()).map(|i| x.get(i)).collect();
            ser.list(&l, &mut be);
            ie += 1;
            progress = true;
        }
        while il < ser.lams.len() {
            let x = ser.lams[il].clone();
            ser.list(&x.bc, &mut bl);
            ser.list(&x.args, &mut bl);
            let keys: Vec<VCell> = x.envmap.get_map().iter().map(|it| it.0.clone()).collect();
            ser.list(&keys, &mut bl);
            il += 1;
            progress = true;
        }
        while ic < ser.conts.len() {
            let x = ser.conts[ic].clone();
            let l: Vec<VCell> = x.stack().iter().cloned().collect();
            ser.list(&l, &mut bc);
            push(&mut bc, x.ip().0);
            push(&mut bc, x.ip().1);
            push(&mut bc, x.ep());
            push(&mut bc, x.bp());
            push(&mut bc, x.stack().get_sp());
            ic += 1;
            progress = true;
        }
        if !progress {
            break;
        }
    }
    push(&mut head, ser.vecs.len());
    head.append(&mut bv);
    push(&mut head, ser.envs.len());
    head.append(&mut be);
    push(&mut head, ser.lams.len());
    head.append(&mut bl);
    push(&mut head, ser.conts.len());
    head.append(&mut bc);
    head.append(&mut roots);
    head
}

/// canonical description of the state after mark + sweep (same text as Model/WireGc.v)
fn after_line(vm: &Vm) -> String {
    let states = vm.verif_gc_states();
    let alloc: Vec<u128> = (0..states.len()).filter(|i| states[*i] == 1).map(|i| i as u128).collect();
    let used = states.iter().filter(|s| **s == 2).count();
    let fl = vm.verif_free_list();
    let st = vm.verif_symbol_table();
    let mut hs: u128 = 0;
    for (name, a) in &st {
        let e = hash_seq(std::iter::once(*a as u128).chain(name.chars().map(|c| c as u128)));
        hs = (hs + e) % P61;
    }
    format!(
        "OK alloc {} {} free {} {} sym {} {} used {}",
        alloc.len(),
        hash_seq(alloc.iter().copied()),
        fl.len(),
        hash_seq(fl.iter().rev().map(|a| *a as u128)),
        st.len(),
        hs,
        used
    )
}

// -------------------------------------------------------------------- sessions
struct Obs {
    before: Option<Before>,
    checked: u64,
    problem: Option<String>,
    snaps: Vec<(Vec<String>, String)>,
    pending: Option<Vec<String>>,
    snap_mod: u64,
    snap_max: usize,
    index: u64,
    maxlive: usize,
}

fn install_observer(vm: &mut Vm, obs: Rc<RefCell<Obs>>) {
    vm.verif_set_gc_observer(Some(Box::new(move |vm: &Vm, ev: GcEvent| {
        let mut o = obs.borrow_mut();
        match ev {
            GcEvent::Before { .. } => {
                let (live, dangling) = reachable(vm);
                let nlive = live.iter().filter(|b| **b).count();
                if nlive > o.maxlive {
                    o.maxlive = nlive;
                }
                o.before = Some(Before {
                    live,
                    cells: vm.verif_heap_cells().to_vec(),
                    symtab: vm.verif_symbol_table(),
                    dangling,
                });
                let i = o.index;
                o.index += 1;
                if i > MAX_COLLECTIONS {
                    panic!("collection budget exceeded");
                }
                if o.snap_mod > 0 && i % o.snap_mod == o.snap_mod - 1 && o.snaps.len() < o.snap_max {
                    o.pending = Some(snapshot(vm));
                }
            }
            GcEvent::AfterSweep { .. } => {
                if let Some(b) = o.before.take() {
                    o.checked += 1;
                    if o.problem.is_none() {
                        if let Err(e) = check_after(vm, &b) {
                            o.problem = Some(format!("collection {}: {}", o.index - 1, e));
                        }
                    }
                }
                if let Some(s) = o.pending.take() {
                    o.snaps.push((s, after_line(vm)));
                }
            }
        }
    })));
}

fn num(c: &[String], i: usize) -> u64 {
    c[i].parse().unwrap()
}

fn new_vm(chunk: u64) -> Vm {
    if chunk == 0 {
        Vm::new()
    } else {
        Vm::verif_new(chunk as usize)
    }
}

fn session_case(c: &[String]) -> String {
    let (mode, k, seed, snap_mod, snap_max, chunk) =
        (num(c, 1), num(c, 2), num(c, 3), num(c, 4), num(c, 5), num(c, 6));
    let text = cps(&c[7..]);
    let mut vm = new_vm(chunk);
    let log = Rc::new(RefCell::new(String::new()));
    vm.set_system_interface(Box::new(LogInterface { log: log.clone() }));
    let obs = Rc::new(RefCell::new(Obs {
        before: None,
        checked: 0,
        problem: None,
        snaps: vec![],
        pending: None,
        snap_mod,
        snap_max: snap_max as usize,
        index: 0,
        maxlive: 0,
    }));
    install_observer(&mut vm, obs.clone());
    match mode {
        1 => vm.verif_set_gc_every(Some(k as usize)),
        2 => vm.verif_set_gc_random(Some((seed, k))),
        _ => {}
    }
    let mut out = String::from("S ");
    eval_all(&mut vm, &text, &mut out, BUDGET);
    out.push_str("| ");
    out.push_str(&log.borrow());
    vm.verif_set_gc_observer(None);
    let o = obs.borrow();
    out.push_str(&format!(
        "## gc={} forced={} checked={} indep={} cap={} used={}",
        vm.verif_gc_count(),
        vm.verif_gc_forced_count(),
        o.checked,
        match &o.problem {
            None => "ok".to_string(),
            Some(p) => format!("FAIL:{}", esc(p).replace(' ', "_")),
        },
        vm.verif_heap_capacity(),
        vm.verif_heap_used()
    ));
    for (snap, after) in &o.snaps {
        out.push_str(" SNAP ");
        out.push_str(&snap.join(" "));
        out.push_str(" AFTER ");
        out.push_str(after);
    }
    out
}

/// 63 chunk nforms (len cps*)* : heap statistics after each form
fn stats_case(c: &[String]) -> String {
    let chunk = num(c, 1);
    let nforms = num(c, 2) as usize;
    let mut vm = new_vm(chunk);
    let obs = Rc::new(RefCell::new(Obs {
        before: None,
        checked: 0,
        problem: None,
        snaps: vec![],
        pending: None,
        snap_mod: 0,
        snap_max: 0,
        index: 0,
        maxlive: 0,
    }));
    install_observer(&mut vm, obs.clone());
    let mut out = format!("H {}:{}:0", vm.verif_heap_capacity(), vm.verif_heap_used());
    let mut i = 3;
    let mut res = String::new();
    for _ in 0..nforms {
        let n = num(c, i) as usize;
        let text = cps(&c[i + 1..i + 1 + n]);
        i += 1 + n;
        let mut r = String::new();
        eval_all(&mut vm, &text, &mut r, usize::MAX - 1);
        res.push_str(&r);
        out.push_str(&format!(
            " {}:{}:{}",
            vm.verif_heap_capacity(),
            vm.verif_heap_used(),
            vm.verif_gc_count()
        ));
    }
    let o = obs.borrow();
    format!(
        "{} | {}## checked={} indep={} maxlive={} maxalloc={}",
        out,
        res,
        o.checked,
        match &o.problem {
            None => "ok".to_string(),
            Some(p) => format!("FAIL:{}", esc(p).replace(' ', "_")),
        },
        o.maxlive,
        vm.verif_max_alloc_per_tick()
    )
}

// ----------------------------------------------------------------- 62: gc::Map
fn pmap_case(c: &[String]) -> String {
    use marwood::vm::gc::{Map, State};
    let size = num(c, 1) as usize;
    let mut m = Map::new(size);
    let mut out = String::from("OK");
    let mut i = 2;
    while i < c.len() {
        match num(c, i) {
            0 if i + 1 < c.len() => {
                out.push_str(match m.get(num(c, i + 1) as usize) {
                    None => " N",
                    Some(State::Free) => " F",
                    Some(State::Allocated) => " A",
                    Some(State::Used) => " U",
                });
                i += 2;
            }
            1 if i + 2 < c.len() => {
                let st = match num(c, i + 2) {
                    0 => State::Free,
                    1 => State::Allocated,
                    _ => State::Used,
                };
                let r = std::panic::catch_unwind(std::panic::AssertUnwindSafe(|| {
                    m.set(num(c, i + 1) as usize, st)
                }));
                if r.is_err() {
                    out.push_str(" PANIC");
                    return out;
                }
                i += 3;
            }
            2 if i + 1 < c.len() => {
                let r = std::panic::catch_unwind(std::panic::AssertUnwindSafe(|| {
                    m.resize(num(c, i + 1) as usize)
                }));
                if r.is_err() {
                    out.push_str(" PANIC");
                    return out;
                }
                i += 2;
            }
            _ => break,
        }
    }
    out
}

// ------------------------------------------------------------ 65: symbol builtins
fn symbol_case(c: &[String]) -> String {
    let op = num(c, 1);
    let text = cps(&c[2..]);
    let mut vm = Vm::new();
    let quote = |x: Cell| Cell::new_list(vec![Cell::Symbol("quote".into()), x]);
    let expr = match op {
        0 => Cell::new_list(vec![Cell::Symbol("string->symbol".into()), Cell::String(text)]),
        1 => Cell::new_list(vec![Cell::Symbol("symbol->string".into()), quote(Cell::Symbol(text))]),
        _ => Cell::new_list(vec![
            Cell::Symbol("symbol->string".into()),
            Cell::new_list(vec![Cell::Symbol("string->symbol".into()), Cell::String(text)]),
        ]),
    };
    match vm.eval(&expr) {
        Ok(Cell::Symbol(s)) => format!("OK {}", esc(&s)),
        Ok(Cell::String(s)) => format!("OK {}", esc(&s)),
        Ok(_) => "ERR".into(),
        Err(Error::ParseError(marwood::parse::Error::Incomplete)) => "ERR incomplete".into(),
        Err(_) => "ERR".into(),
    }
}
