//! wire interfaces 7, 8, 9 (work package "c10"): written data reads back as the same data.
//! Mirrors coq/Model/WireDatum.v (see there for the datum encoding and the line formats).
//! The datum is BUILT as a `marwood::cell::Cell` (never parsed from text), and results are
//! shown with a structural dump (representation tags, exact values, float bits, code points).
use crate::area_numfmt::show_num;
use crate::text::esc;
use marwood::cell::Cell;
use marwood::number::Number;
use marwood::vm::Vm;
use num::bigint::BigInt;
use num::Rational32;
use std::cell::RefCell;

fn signed_i64(neg: bool, abs: &str) -> i64 {
    let a: u64 = abs.parse().unwrap();
    if neg {
        (a as i128).wrapping_neg() as i64
    } else {
        a as i64
    }
}

fn take_text<'a>(c: &'a [String]) -> (String, &'a [String]) {
    let n: usize = c[0].parse().unwrap();
    let s: String = c[1..1 + n]
        .iter()
        .map(|x| char::from_u32(x.parse::<u32>().unwrap()).unwrap())
        .collect();
    (s, &c[1 + n..])
}

/// one datum and the rest of the case
fn dec(c: &[String]) -> (Cell, &[String]) {
    let tag: u32 = c[0].parse().unwrap();
    match tag {
        0 => (Cell::Nil, &c[1..]),
        1 => (Cell::Bool(false), &c[1..]),
        2 => (Cell::Bool(true), &c[1..]),
        3 => (Cell::Char(char::from_u32(c[1].parse::<u32>().unwrap()).unwrap()), &c[2..]),
        4 => (Cell::Number(Number::Fixnum(signed_i64(c[1] == "1", &c[2]))), &c[3..]),
        5 => {
            let abs: BigInt = c[2].parse().unwrap();
            (Cell::Number(Number::new_bigint(if c[1] == "1" { -abs } else { abs })), &c[3..])
        }
        6 => {
            let nn: i64 = c[2].parse().unwrap();
            let dd: i64 = c[4].parse().unwrap();
            let n = (if c[1] == "1" { -nn } else { nn }) as i32;
            let d = (if c[3] == "1" { -dd } else { dd }) as i32;
            (Cell::Number(Number::Rational(Rational32::new_raw(n, d))), &c[5..])
        }
        7 => (Cell::Number(Number::Float(f64::from_bits(c[1].parse::<u64>().unwrap()))), &c[2..]),
        8 => {
            let (s, r) = take_text(&c[1..]);
            (Cell::String(s), r)
        }
        9 => {
            let (s, r) = take_text(&c[1..]);
            (Cell::Symbol(s), r)
        }
        10 => {
            let (a, r1) = dec(&c[1..]);
            let (d, r2) = dec(r1);
            (Cell::Pair(Box::new(a), Box::new(d)), r2)
        }
        11 => {
            let n: usize = c[1].parse().unwrap();
            let mut r = &c[2..];
            let mut v = Vec::with_capacity(n);
            for _ in 0..n {
                let (x, r1) = dec(r);
                v.push(x);
                r = r1;
            }
            (Cell::Vector(v), r)
        }
        12 => {
            let (s, r) = take_text(&c[1..]);
            match marwood::parse::parse_text(&s) {
                Ok((d, _)) => (d, r),
                Err(_) => (Cell::Undefined, &c[..1]), // reported as BADCASE (non-empty rest)
            }
        }
        _ => (Cell::Undefined, &c[..1]),
    }
}

fn dump_text(o: &mut String, s: &str) {
    o.push_str(&format!("{}", s.chars().count()));
    for ch in s.chars() {
        o.push_str(&format!(" {:x}", ch as u32));
    }
}

/// the structural printer: every item starts with a space
fn dump(o: &mut String, c: &Cell) {
    match c {
        Cell::Nil => o.push_str(" nil"),
        Cell::Bool(true) => o.push_str(" t"),
        Cell::Bool(false) => o.push_str(" f"),
        Cell::Char(ch) => o.push_str(&format!(" ch {:x}", *ch as u32)),
        Cell::Number(n) => {
            o.push(' ');
            o.push_str(&show_num(n));
        }
        Cell::String(s) => {
            o.push_str(" str ");
            dump_text(o, s);
        }
        Cell::Symbol(s) => {
            o.push_str(" sym ");
            dump_text(o, s);
        }
        Cell::Pair(a, d) => {
            o.push_str(" pair");
            dump(o, a);
            dump(o, d);
        }
        Cell::Vector(v) => {
            o.push_str(&format!(" vec {}", v.len()));
            for x in v {
                dump(o, x);
            }
        }
        _ => o.push_str(" other"),
    }
}

fn esc_word(s: &str) -> String {
    esc(s).replace(' ', "\\u{20}")
}

fn write_read(d: &Cell) -> String {
    let w = format!("{:#}", d);
    let mut o = String::from("I");
    dump(&mut o, d);
    o.push_str(&format!(" W {} R", esc_word(&w)));
    match marwood::parse::parse_text(&w) {
        Ok((d2, rest)) => {
            dump(&mut o, &d2);
            o.push_str(if rest.is_none() { " NONE" } else { " REST" });
            o.push_str(" W2 ");
            o.push_str(&esc_word(&format!("{:#}", d2)));
        }
        Err(marwood::parse::Error::Incomplete)
        | Err(marwood::parse::Error::LexError(marwood::lex::Error::Incomplete)) => o.push_str(" ERR incomplete"),
        Err(_) => o.push_str(" ERR"),
    }
    o
}

thread_local! {
    // one machine booted with the prelude, reused across cases ((quote d) leaves no
    // binding behind; collections between cases are welcome); dropped by a panic
    static VM: RefCell<Option<Vm>> = RefCell::new(None);
}

fn quote_eval(d: &Cell) -> String {
    let form = Cell::new_list(vec![Cell::new_symbol("quote"), d.clone()]);
    let mut vm = VM.with(|v| v.borrow_mut().take()).unwrap_or_else(Vm::new);
    let r = vm.eval(&form);
    VM.with(|v| *v.borrow_mut() = Some(vm));
    let mut o = String::from("I");
    dump(&mut o, d);
    match r {
        Ok(c) => {
            o.push_str(" Q");
            dump(&mut o, &c);
        }
        Err(_) => o.push_str(" Q ERR"),
    }
    o
}

pub fn run(c: &[String]) -> String {
    let id: u32 = c[0].parse().unwrap();
    let (d, rest) = dec(&c[1..]);
    if !rest.is_empty() {
        return "BADCASE".into();
    }
    match id {
        7 => write_read(&d),
        8 => quote_eval(&d),
        9 => format!("D {}", esc_word(&format!("{}", d))),
        _ => "BADCASE".into(),
    }
}
