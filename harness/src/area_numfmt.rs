//! wire interfaces 20-29: the textual forms of numbers (work package "numfmt")
//!
//!  number encoding on the wire (a "repr"):   0 sign abs        Fixnum (i64)
//!                                            1 sign abs        BigInt (any size, also small)
//!                                            2 ns nabs ds dabs Rational32::new_raw (as stored)
//!                                            3 bits            f64::from_bits
//!  20 ex radix cps..        Number::parse_with_exactness      -> OK NONE | OK <num>
//!  21 fmt <repr>            format!("{}"/{:x}/{:o}/{:b})       -> OK <text>
//!  22 argc [<repr radix>] <repr>       (number->string z [r]) through Vm::eval
//!  23 argc [<repr radix>] cps..        (string->number s [r]) through Vm::eval
//!  24 radix <repr>          (string->number (number->string z r) r) through Vm::eval
//!  25 radix <repr>          the printed spelling as a source literal #b/#o/#d/#x<spelling>
//!                           through Vm::eval_text, beside string->number of the spelling
//!  result numbers: FIX s a | BIG s a | RAT s n s d | FLO hexbits (every NaN as 7ff8000000000000)
#![allow(unused_imports, dead_code)]
use crate::text::*;
use marwood::cell::Cell;
use marwood::number::{Exactness, Number};
use marwood::vm::Vm;
use num::bigint::BigInt;
use num::{Rational32, Signed, Zero};
use std::cell::RefCell;
use std::fmt::Write;

fn sign_abs(neg: bool, abs: &str) -> String {
    format!("{} {}", if neg { 1 } else { 0 }, abs)
}

pub fn show_num(n: &Number) -> String {
    match n {
        Number::Fixnum(z) => format!("FIX {}", sign_abs(*z < 0, &z.unsigned_abs().to_string())),
        Number::BigInt(z) => format!("BIG {}", sign_abs(z.is_negative(), &z.magnitude().to_string())),
        Number::Rational(r) => format!(
            "RAT {} {}",
            sign_abs(*r.numer() < 0, &r.numer().unsigned_abs().to_string()),
            sign_abs(*r.denom() < 0, &r.denom().unsigned_abs().to_string())
        ),
        Number::Float(f) => {
            if f.is_nan() {
                "FLO 7ff8000000000000".to_string()
            } else {
                format!("FLO {:x}", f.to_bits())
            }
        }
    }
}

fn show_cell(c: &Cell) -> String {
    match c {
        Cell::Number(n) => show_num(n),
        Cell::String(s) => format!("STR {}", esc(s)),
        Cell::Bool(false) => "FALSE".to_string(),
        other => format!("OTHER {}", esc(&format!("{:#}", other))),
    }
}

/// decode one number; returns it and the rest of the case
fn take_num(c: &[String]) -> (Number, &[String]) {
    let tag: u32 = c[0].parse().unwrap();
    match tag {
        0 => {
            let neg = c[1] == "1";
            let abs: u64 = c[2].parse().unwrap();
            let v: i64 = if neg { (abs as i128).wrapping_neg() as i64 } else { abs as i64 };
            (Number::Fixnum(v), &c[3..])
        }
        1 => {
            let neg = c[1] == "1";
            let abs: BigInt = c[2].parse().unwrap();
            (Number::new_bigint(if neg { -abs } else { abs }), &c[3..])
        }
        2 => {
            let nn: i64 = c[2].parse().unwrap();
            let dd: i64 = c[4].parse().unwrap();
            let n = if c[1] == "1" { -nn } else { nn } as i32;
            let d = if c[3] == "1" { -dd } else { dd } as i32;
            (Number::Rational(Rational32::new_raw(n, d)), &c[5..])
        }
        3 => {
            let bits: u64 = c[1].parse().unwrap();
            (Number::Float(f64::from_bits(bits)), &c[2..])
        }
        _ => panic!("bad repr"),
    }
}

/// a sink that refuses to grow without bound: write_float_fract never terminates on
/// infinities and NaN; the formatter's `?` propagates the refusal and we report NOFUEL
struct Bounded {
    s: String,
    overflow: bool,
}
impl Write for Bounded {
    fn write_str(&mut self, x: &str) -> std::fmt::Result {
        if self.s.len() + x.len() > 1 << 16 {
            self.overflow = true;
            return Err(std::fmt::Error);
        }
        self.s.push_str(x);
        Ok(())
    }
}

fn fmt_num(fmt: u32, n: &Number) -> Result<String, ()> {
    let mut b = Bounded { s: String::new(), overflow: false };
    let r = match fmt {
        16 => write!(b, "{:x}", n),
        8 => write!(b, "{:o}", n),
        2 => write!(b, "{:b}", n),
        _ => write!(b, "{}", n),
    };
    if b.overflow || r.is_err() {
        Err(())
    } else {
        Ok(b.s)
    }
}

thread_local! {
    static VM: RefCell<Option<Vm>> = RefCell::new(None);
}

/// evaluate on a cached Vm; the Vm is dropped after an error so that an error path
/// never influences a later case
fn with_vm<R>(f: impl FnOnce(&mut Vm) -> Result<R, ()>) -> Result<R, ()> {
    VM.with(|slot| {
        let mut vm = slot.borrow_mut().take().unwrap_or_else(Vm::new);
        let r = f(&mut vm);
        if r.is_ok() {
            *slot.borrow_mut() = Some(vm);
        }
        r
    })
}

fn call(name: &str, args: Vec<Cell>) -> Cell {
    let mut v = vec![Cell::Symbol(name.to_string())];
    v.extend(args);
    Cell::new_list(v)
}

fn would_hang(fmt_radix: Option<&Number>, z: &Number) -> bool {
    // number->string of a non-finite float in radix 16/8/2 never returns (unbounded output)
    let r = match fmt_radix {
        Some(Number::Fixnum(r)) => *r,
        Some(Number::BigInt(r)) => {
            use num::ToPrimitive;
            r.to_i64().unwrap_or(0)
        }
        Some(Number::Rational(r)) if *r.denom() == 1 => *r.numer() as i64,
        _ => 10,
    };
    matches!(z, Number::Float(f) if !f.is_finite()) && (r == 16 || r == 8 || r == 2)
}

fn eval_show(expr: &Cell) -> String {
    match with_vm(|vm| vm.eval(expr).map_err(|_| ())) {
        Ok(c) => format!("OK {}", show_cell(&c)),
        Err(()) => "ERR".to_string(),
    }
}

pub fn run(c: &[String]) -> String {
    let id: u32 = c[0].parse().unwrap();
    match id {
        20 => {
            let ex = match c[1].as_str() {
                "1" => Exactness::Exact,
                "2" => Exactness::Inexact,
                _ => Exactness::Unspecified,
            };
            let radix: u32 = c[2].parse().unwrap();
            let s = cps(&c[3..]);
            match Number::parse_with_exactness(&s, ex, radix) {
                Some(n) => format!("OK {}", show_num(&n)),
                None => "OK NONE".to_string(),
            }
        }
        21 => {
            let fmt: u32 = c[1].parse().unwrap();
            let (n, _) = take_num(&c[2..]);
            match fmt_num(fmt, &n) {
                Ok(s) => format!("OK {}", esc(&s)),
                Err(()) => "NOFUEL".to_string(),
            }
        }
        22 => {
            let argc: u32 = c[1].parse().unwrap();
            if argc == 2 {
                let (r, rest) = take_num(&c[2..]);
                let (z, _) = take_num(rest);
                if would_hang(Some(&r), &z) {
                    return match fmt_num(16, &z) { Err(()) => "NOFUEL".into(), Ok(_) => "BADCASE".into() };
                }
                eval_show(&call("number->string", vec![Cell::Number(z), Cell::Number(r)]))
            } else {
                let (z, _) = take_num(&c[2..]);
                eval_show(&call("number->string", vec![Cell::Number(z)]))
            }
        }
        23 => {
            let argc: u32 = c[1].parse().unwrap();
            if argc == 2 {
                let (r, rest) = take_num(&c[2..]);
                let s = cps(rest);
                eval_show(&call("string->number", vec![Cell::String(s), Cell::Number(r)]))
            } else {
                let s = cps(&c[2..]);
                eval_show(&call("string->number", vec![Cell::String(s)]))
            }
        }
        24 => {
            let radix: i64 = c[1].parse().unwrap();
            let (z, _) = take_num(&c[2..]);
            let r = Number::Fixnum(radix);
            if would_hang(Some(&r), &z) {
                return "NOFUEL".into();
            }
            let inner = call("number->string", vec![Cell::Number(z), Cell::Number(r.clone())]);
            eval_show(&call("string->number", vec![inner, Cell::Number(r)]))
        }
        25 => {
            let radix: i64 = c[1].parse().unwrap();
            let (z, _) = take_num(&c[2..]);
            let r = Number::Fixnum(radix);
            if would_hang(Some(&r), &z) {
                return "NOFUEL".into();
            }
            let spelling = match with_vm(|vm| {
                vm.eval(&call("number->string", vec![Cell::Number(z), Cell::Number(r.clone())])).map_err(|_| ())
            }) {
                Ok(Cell::String(s)) => s,
                Ok(_) => return "BADCASE".into(),
                Err(()) => return "ERR".into(),
            };
            let prefix = match radix {
                2 => "#b",
                8 => "#o",
                16 => "#x",
                _ => "#d",
            };
            let src = format!("'{}{}", prefix, spelling);
            let lit = match with_vm(|vm| vm.eval_text(&src).map_err(|_| ())) {
                Ok((cell, rest)) => format!("{} {}", show_cell(&cell), if rest.is_none() { "END" } else { "REST" }),
                Err(()) => "ERR".to_string(),
            };
            let s2n = match with_vm(|vm| {
                vm.eval(&call("string->number", vec![Cell::String(spelling.clone()), Cell::Number(r)])).map_err(|_| ())
            }) {
                Ok(cell) => show_cell(&cell),
                Err(()) => "ERR".to_string(),
            };
            format!("OK {} LIT {} S2N {}", esc(&spelling), lit, s2n)
        }
        _ => "BADCASE".into(),
    }
}
