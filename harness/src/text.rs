//! text-level interfaces: scanner, highlighter
use marwood::lex;
use marwood::syntax::ReplHighlighter;

pub fn cps(c: &[String]) -> String {
    c.iter()
        .map(|x| char::from_u32(x.parse::<u32>().unwrap()).unwrap())
        .collect()
}

/// canonical ASCII rendering: printable ASCII except '\' verbatim, rest \u{hex}
pub fn esc(s: &str) -> String {
    let mut o = String::new();
    for ch in s.chars() {
        let c = ch as u32;
        if (32..=126).contains(&c) && c != 92 {
            o.push(ch);
        } else {
            o.push_str(&format!("\\u{{{:x}}}", c));
        }
    }
    o
}

pub fn lex_case(s: &str) -> String {
    match lex::scan(s) {
        Ok(toks) => {
            let mut o = String::from("OK");
            for t in toks {
                o.push_str(&format!(" {}-{}:{:?}", t.span.0, t.span.1, t.token_type));
            }
            o
        }
        Err(lex::Error::Incomplete) => "ERR incomplete".into(),
        Err(_) => "ERR".into(),
    }
}

pub fn highlight_case(index: usize, s: &str) -> String {
    let h = ReplHighlighter::new();
    format!("OK {}", esc(&h.highlight(s, index)))
}

pub fn highlight_check_case(index: usize, s: &str) -> String {
    let h = ReplHighlighter::new();
    format!("OK {}", h.highlight_check(s, index))
}

pub fn parse_text_case(s: &str) -> String {
    match marwood::parse::parse_text(s) {
        Ok((cell, rest)) => {
            let r = match rest {
                None => "NONE".to_string(),
                Some(rest) => format!("REST {}", s.len() - rest.len()),
            };
            format!("OK {} {}", esc(&format!("{:#}", cell)), r)
        }
        Err(marwood::parse::Error::Incomplete)
        | Err(marwood::parse::Error::LexError(lex::Error::Incomplete)) => "ERR incomplete".into(),
        Err(_) => "ERR".into(),
    }
}

pub fn parse_all_case(s: &str) -> String {
    let mut o = String::from("ALL");
    let mut text: &str = s;
    loop {
        match marwood::parse::parse_text(text) {
            Ok((cell, rest)) => {
                o.push(' ');
                o.push_str(&esc(&format!("{:#}", cell)));
                match rest {
                    None => {
                        o.push_str(" END");
                        return o;
                    }
                    Some(rest) => text = rest,
                }
            }
            Err(marwood::parse::Error::Incomplete)
            | Err(marwood::parse::Error::LexError(lex::Error::Incomplete)) => {
                o.push_str(" ERR incomplete");
                return o;
            }
            Err(_) => {
                o.push_str(" ERR");
                return o;
            }
        }
    }
}
