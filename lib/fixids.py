#!/usr/bin/env python3
"""Rewrite the commit ids in known_findings.json 'fixed' lines to the ids the same
commits have on /repo's main branch (work-package fixes are cherry-picked)."""
import json, re, subprocess, os
HERE = os.path.dirname(os.path.dirname(os.path.abspath(__file__)))
def git(*a):
    return subprocess.run(["git", "-C", "/repo"] + list(a), stdout=subprocess.PIPE, stderr=subprocess.DEVNULL, text=True).stdout.strip()
main = {}
for line in git("log", "--format=%h\t%s", "main").splitlines():
    h, s = line.split("\t", 1)
    main.setdefault(s, h)
p = os.path.join(HERE, "known_findings.json")
d = json.load(open(p))
out = []
for x in d["fixed"]:
    m = re.search(r"\b([0-9a-f]{7,40})\b", x.split("property=", 1)[1]) if "property=" in x else None
    if m:
        h = m.group(1)
        subj = git("show", "-s", "--format=%s", h)
        if subj and subj in main and not main[subj].startswith(h[:7]):
            x = x.replace(h, main[subj])
    out.append(x)
d["fixed"] = out
json.dump(d, open(p, "w"), indent=1)
for x in out:
    print(x[:110])
