"""Translator: the parts of the Coq development regenerated from /repo's working
tree on every run (DESIGN 4.4).  Writes coq/Gen/*.v only when content changes."""
import os, re


def write_if_changed(path, content):
    if os.path.exists(path) and open(path).read() == content:
        return False
    os.makedirs(os.path.dirname(path), exist_ok=True)
    with open(path, "w") as f:
        f.write(content)
    return True


def coq_nlist(xs, per_line=24):
    xs = [str(x) for x in xs]
    lines = [";".join(xs[i:i + per_line]) for i in range(0, len(xs), per_line)]
    return "[" + ";\n ".join(lines) + "]"


def regenerate(repo, gendir):
    changed = []
    return changed
