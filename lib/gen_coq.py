"""Translator: the parts of the Coq development regenerated from /repo's working
tree on every run (DESIGN 4.4).  Writes coq/Gen/*.v only when content changes."""
import os, re


def write_if_changed(path, content):
    if os.path.exists(path) and open(path).read() == content:
        return False
    os.makedirs(os.path.dirname(path), exist_ok=True)
    with open(path, "w") as f:
        f.write(content)
    return True


def coq_nlist(xs, per_line=24):
    xs = [str(x) for x in xs]
    lines = [";".join(xs[i:i + per_line]) for i in range(0, len(xs), per_line)]
    return "[" + ";\n ".join(lines) + "]"


BUILTIN_FILES = ["char", "list", "number", "ports", "predicate", "procedure", "rand", "string", "symbol", "vector"]


def builtins(repo):
    """(name, rust function) for every vm.load_builtin(..) in registration order
    (builtin/mod.rs load_builtins calls the modules in BUILTIN_FILES order)"""
    mod = open(os.path.join(repo, "marwood/src/vm/builtin/mod.rs")).read()
    order = re.findall(r"^\s*(\w+)::load_builtins\(self\);", mod, re.M)
    out = []
    for m in order:
        src = open(os.path.join(repo, "marwood/src/vm/builtin/%s.rs" % m)).read()
        for name, fn in re.findall(r'vm\.load_builtin\(\s*"([^"]+)"\s*,\s*(\w+)\s*\)', src):
            out.append((name, m + "::" + fn))
    return out


def coq_text(s):
    return coq_nlist([ord(c) for c in s], 32)


def regenerate(repo, gendir):
    changed = []
    # ---- Builtins.v
    bs = builtins(repo)
    lines = ["(* GENERATED from %s/marwood/src/vm/builtin/*.rs by lib/gen_coq.py - do not edit *)" % repo,
             "From Coq Require Import NArith List.", "Import ListNotations.", "Open Scope N_scope.",
             "(* index in this list = builtin id; (name, id of the first builtin sharing the same Rust fn) *)",
             "Definition builtin_table : list (list N * N) := ["]
    first = {}
    rows = []
    for i, (name, fn) in enumerate(bs):
        first.setdefault(fn, i)
        rows.append("  (%s, %d) (* %d %s %s *)" % (coq_text(name), first[fn], i, name.replace("*)", "* )"), fn))
    lines.append(";\n".join(rows))
    lines.append("].")
    if write_if_changed(os.path.join(gendir, "Builtins.v"), "\n".join(lines) + "\n"):
        changed.append("Builtins.v")
    # ---- Prelude.v
    prelude = open(os.path.join(repo, "marwood/prelude.scm"), encoding="utf-8").read()
    body = ["(* GENERATED from %s/marwood/prelude.scm by lib/gen_coq.py - do not edit *)" % repo,
            "From Coq Require Import NArith List.", "Import ListNotations.", "Open Scope N_scope.",
            "Definition prelude_text : list N :=", coq_text(prelude) + "."]
    if write_if_changed(os.path.join(gendir, "Prelude.v"), "\n".join(body) + "\n"):
        changed.append("Prelude.v")
    # ---- GcParams.v
    modrs = open(os.path.join(repo, "marwood/src/vm/mod.rs")).read()
    runrs = open(os.path.join(repo, "marwood/src/vm/run.rs")).read()
    heaprs = open(os.path.join(repo, "marwood/src/vm/heap.rs")).read()
    def find(rx, src, what):
        m = re.search(rx, src)
        return m.group(1) if m else None
    chunk = find(r"const HEAP_CHUNK_SIZE: usize = (\d+);", modrs, "chunk")
    cadence = find(r"cycles % (\d+) == 0", runrs, "cadence")
    lo = find(r"as f64\) < (0\.\d+)_f64", runrs, "lo")
    hi = find(r"as f64\) > (0\.\d+)_f64", runrs, "hi")
    growth = find(r"as f64 \* (\d+\.\d+)\)", heaprs, "growth")
    def frac(x):
        if x is None:
            return "None"
        a, b = x.split(".")
        return "Some (%d, %d)" % (int(a + b), 10 ** len(b))
    g = ["(* GENERATED from %s/marwood/src/vm/{mod,run,heap}.rs by lib/gen_coq.py - do not edit *)" % repo,
         "From Coq Require Import NArith.", "Open Scope N_scope.",
         "(* None = the translator no longer finds the constant in the source *)",
         "Definition heap_chunk_size : option N := %s." % ("Some %s" % chunk if chunk else "None"),
         "Definition gc_cadence : option N := %s." % ("Some %s" % cadence if cadence else "None"),
         "Definition gc_skip_below : option (N * N) := %s. (* numerator, denominator *)" % frac(lo),
         "Definition gc_grow_above : option (N * N) := %s." % frac(hi),
         "Definition heap_growth_factor : option (N * N) := %s." % frac(growth)]
    if write_if_changed(os.path.join(gendir, "GcParams.v"), "\n".join(g) + "\n"):
        changed.append("GcParams.v")
    return changed
