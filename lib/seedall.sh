#!/bin/bash
# seedall.sh ID:name ... — seedtest.sh for each, strictly one after the other
for a in "$@"; do id=${a%%:*}; name=${a#*:}
  /verif/lib/seedtest.sh $id /tmp/seed/$id $name > /tmp/seedtest-$id.log 2>&1
  echo "== $id $name: $(tail -1 /tmp/seedtest-$id.log | cut -c1-600)"
done
