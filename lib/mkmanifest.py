#!/usr/bin/env python3
"""Writes MANIFEST.json from the table below (kept in one place so that it stays valid)."""
import json, os
HERE = os.path.dirname(os.path.dirname(os.path.abspath(__file__)))

import glob, importlib, sys
sys.path.insert(0, os.path.join(HERE, "lib"))
sys.path.insert(0, os.path.join(HERE, "lib", "props"))

def collect():
    """every lib/props/cNN.py that defines MANIFEST = dict(text=, design=, note=, technique=) is a claimed check"""
    out = {}
    for f in sorted(glob.glob(os.path.join(HERE, "lib", "props", "c[0-9][0-9]*.py"))):
        name = os.path.basename(f)[:-3]
        mod = importlib.import_module(name)
        if hasattr(mod, "MANIFEST"):
            out[mod.PID] = mod.MANIFEST
    return out

CHECKS = collect()

NOT_APPLICABLE = []

def main():
    props = [json.loads(l)["id"] for l in open(os.path.join(HERE, "properties.jsonl"))]
    checks = []
    for pid in props:
        if pid not in CHECKS:
            continue
        c = CHECKS[pid]
        checks.append({
            "property_id": pid,
            "quick_cmd": "./check %s --tier quick" % pid,
            "thorough_cmd": "./check %s --tier thorough" % pid,
            "evidence_file": "/verif/evidence/%s.json" % pid,
            "replay_cmd_template": "./check %s --replay {path}" % pid,
            "engine": "coq-model",
            "level_claimed": {"category": "proof", "text": c["text"], "design_ref": c["design"]},
            "level_note": c["note"],
            "technique": c["technique"],
        })
    na = [x for x in NOT_APPLICABLE]
    claimed = set(CHECKS) | {x["property_id"] for x in na}
    for pid in props:
        if pid not in claimed:
            na.append({"property_id": pid, "reason": "not yet claimed: model and theorems under construction (see DESIGN.md section 8); no check registered yet"})
    m = {
        "version": 1,
        "setup_cmd": "./setup.sh",
        "hooks": {
            "guard": "marwood_verif",
            "enable": "RUSTFLAGS=\"--cfg marwood_verif\" cargo build --offline (harness crate /verif/harness with a path dependency on /repo/marwood)",
            "baseline_off_cmd": "cd /repo && cargo test --workspace --no-fail-fast --offline",
            "source_commits": HOOK_COMMITS,
            "add_only": True,
        },
        "engines": [{"name": "coq-model", "path": "/verif/coq", "serves_properties": sorted(CHECKS),
                     "kind_free_text": "hand-written Gallina model + Coq 8.16 theorems; extracted OCaml model and Rust harness for the correspondence check; driver ./check"}],
        "checks": checks,
        "notes": "Machine-checked proof in Coq 8.16.1 over an executable model, tied to /repo by a correspondence check on every run. See DESIGN.md.",
        "not_applicable": na,
    }
    with open(os.path.join(HERE, "MANIFEST.json"), "w") as f:
        json.dump(m, f, indent=1)

HOOK_COMMITS = ["ada2622", "3bcbf39", "75f978c", "fb1ed49"]
if __name__ == "__main__":
    main()
