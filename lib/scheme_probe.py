#!/usr/bin/env python3
"""scheme_probe.py form1 form2 ... — run one session (wire interface 70) on the reference
interpreter (lib/scheme_ref.py), the implementation (harness mwh) and the extracted model,
and print the three lines and whether they agree.  Debugging aid for C01/C02/C05."""
import os, subprocess, sys
HERE = os.path.dirname(os.path.abspath(__file__))
sys.path.insert(0, HERE)
import scheme_ref as R

VERIF = os.path.dirname(HERE)


def encode(forms, iface=70):
    c = [iface, len(forms)]
    for f in forms:
        c.append(len(f))
        c += [ord(ch) for ch in f]
    return c


def decode(case):
    n = case[1]
    i = 2
    forms = []
    for _ in range(n):
        ln = case[i]
        forms.append("".join(chr(c) for c in case[i + 1:i + 1 + ln]))
        i += 1 + ln
    return forms


def run_exe(exe, case):
    line = " ".join(map(str, case))
    try:
        return subprocess.run([exe], input=line + "\n", stdout=subprocess.PIPE, stderr=subprocess.DEVNULL, text=True,
                              timeout=60).stdout.strip()
    except subprocess.TimeoutExpired:
        return "TIMEOUT"


def main():
    args = sys.argv[1:]
    model = True
    if args and args[0] == "-n":
        model = False
        args = args[1:]
    case = encode(args)
    st, exp = R.run_session(args)
    print("ref  :", st, exp.replace(R.WILD, "<any>"))
    il = run_exe(os.path.join(VERIF, "harness/target/debug/mwh"), case)
    print("impl :", il)
    if st == "OK":
        print("  ref~impl :", R.match_line(exp, il))
    if model:
        ml = run_exe(os.path.join(VERIF, "ocaml/mwmodel"), case)
        print("model:", ml)
        print("  impl=model:", il == ml)


if __name__ == "__main__":
    main()
