#!/usr/bin/env python3
"""Self-test of the reference interpreter against the worked examples of the R7RS-small
report (sections 4.1, 4.2, 5.3, 6.x; examples using procedures outside the subset are
adapted, e.g. sqrt -> *), plus the classic re-entrant continuation examples.  Pure Python:
    python3 lib/scheme_ref_test.py
Each entry is (session, expected write forms of the LAST datum of each listed form)."""
import sys, os
sys.path.insert(0, os.path.dirname(os.path.abspath(__file__)))
import scheme_ref as R

T = [
    ("((lambda x x) 3 4 5 6)", "(3 4 5 6)"),
    ("((lambda (x y . z) z) 3 4 5 6)", "(5 6)"),
    ("(define reverse-subtract (lambda (x y) (- y x))) (reverse-subtract 7 10)", "3"),
    ("(define add4 (let ((x 4)) (lambda (y) (+ x y)))) (add4 6)", "10"),
    ("(if (> 3 2) 'yes 'no)", "yes"), ("(if (> 3 2) (- 3 2) (+ 3 2))", "1"),
    ("(define x 2) (+ x 1) (set! x 4) (+ x 1)", "5"),
    ("(cond ((> 3 2) 'greater) ((< 3 2) 'less))", "greater"),
    ("(cond ((> 3 3) 'greater) ((< 3 3) 'less) (else 'equal))", "equal"),
    ("(cond ((assv 'b '((a 1) (b 2))) => cadr) (else #f))", "2"),
    ("(case (* 2 3) ((2 3 5 7) 'prime) ((1 4 6 8 9) 'composite))", "composite"),
    ("(case (car '(c d)) ((a e i o u) 'vowel) ((w y) 'semivowel) (else => (lambda (x) x)))", "c"),
    ("(and (= 2 2) (> 2 1))", "#t"), ("(and (= 2 2) (< 2 1))", "#f"), ("(and 1 2 'c '(f g))", "(f g)"), ("(and)", "#t"),
    ("(or (= 2 2) (> 2 1))", "#t"), ("(or #f #f #f)", "#f"), ("(or (memq 'b '(a b c)) (car '()))", "(b c)"),
    ("(let ((x 2) (y 3)) (* x y))", "6"),
    ("(let ((x 2) (y 3)) (let ((x 7) (z (+ x y))) (* z x)))", "35"),
    ("(let ((x 2) (y 3)) (let* ((x 7) (z (+ x y))) (* z x)))", "70"),
    ("(letrec ((even? (lambda (n) (if (= 0 n) #t (odd? (- n 1))))) (odd? (lambda (n) (if (= 0 n) #f (even? (- n 1)))))) (even? 88))", "#t"),
    ("(letrec* ((p (lambda (x) (+ 1 (q (- x 1))))) (q (lambda (y) (if (= 0 y) 0 (+ 1 (p (- y 1)))))) (x (p 5)) (y x)) y)", "5"),
    ("(define x 0) (and (= x 0) (begin (set! x 5) (+ x 1)))", "6"),
    ("(let loop ((numbers '(3 -2 1 6 -5)) (nonneg '()) (neg '())) (cond ((null? numbers) (list nonneg neg)) "
     "((>= (car numbers) 0) (loop (cdr numbers) (cons (car numbers) nonneg) neg)) "
     "((< (car numbers) 0) (loop (cdr numbers) nonneg (cons (car numbers) neg)))))", "((6 1 3) (-5 -2))"),
    ("(force (delay (+ 1 2)))", "3"), ("(let ((p (delay (+ 1 2)))) (list (force p) (force p)))", "(3 3)"),
    ("(define integers (letrec ((next (lambda (n) (delay (cons n (next (+ n 1))))))) (next 0))) "
     "(define head (lambda (stream) (car (force stream)))) (define tail (lambda (stream) (cdr (force stream)))) "
     "(head (tail (tail integers)))", "2"),
    ("(define count 0) (define p (delay (begin (set! count (+ count 1)) (if (> count x) count (force p))))) (define x 5) "
     "(list (force p) (begin (set! x 10) (force p)))", "(6 6)"),
    ("(define q (let ((count 5)) (define (get-count) count) (define p (delay (if (<= count 0) count (begin (set! count (- count 1)) "
     "(force p) (set! count (+ count 2)) count)))) (list get-count p))) (define get-count (car q)) (define p2 (cadr q)) "
     "(list (get-count) (force p2) (get-count))", "(5 0 10)"),
    ("(define (loop n) (if (= n 0) (delay 'done) (delay-force (loop (- n 1))))) (force (loop 2000))", "done"),
    ("`(list ,(+ 1 2) 4)", "(list 3 4)"), ("(let ((name 'a)) `(list ,name ',name))", "(list a 'a)"),
    ("`(a ,(+ 1 2) ,@(map (lambda (x) (* x x)) '(4 -5 6)) b)", "(a 3 16 25 36 b)"),
    ("`((foo ,(- 10 3)) ,@(cdr '(c)) . ,(car '(cons)))", "((foo 7) . cons)"),
    ("`#(10 5 ,(+ 1 1) ,@(map - '(16 9)) 8)", "#(10 5 2 -16 -9 8)"),
    ("`(a `(b ,(foo ,(+ 1 3) d) e) f)", "(a (quasiquote (b (unquote (foo 4 d)) e)) f)"),
    ("(let ((name1 'x) (name2 'y)) `(a `(b ,,name1 ,',name2 d) e))", "(a (quasiquote (b (unquote x) (unquote 'y) d)) e)"),
    ("`(1 ,@'() . 2)", "(1 . 2)"), ("`(1 `(2 ,@(3 ,@(list 4 5))))", "(1 (quasiquote (2 (unquote-splicing (3 4 5)))))"),
    ("(let ((x 5)) (define foo (lambda (y) (bar x y))) (define bar (lambda (a b) (+ (* a b) a))) (foo (+ x 3)))", "45"),
    ("(list (eqv? 'a 'a) (eqv? '() '()) (eqv? (cons 1 2) (cons 1 2)) (eqv? (lambda () 1) (lambda () 2)) (let ((p (lambda (x) x))) (eqv? p p)) (eqv? #f 'nil))",
     "(#t #t #f #f #t #f)"),
    ("(define gen-counter (lambda () (let ((n 0)) (lambda () (set! n (+ n 1)) n)))) (list (let ((g (gen-counter))) (eqv? g g)) (eqv? (gen-counter) (gen-counter)))", "(#t #f)"),
    ("(list (equal? 'a 'a) (equal? '(a (b) c) '(a (b) c)) (equal? \"abc\" \"abc\") (equal? 2 2) (equal? (make-vector 5 'a) (make-vector 5 'a)))", "(#t #t #t #t #t)"),
    ("(list (append '(x) '(y)) (append '(a (b)) '((c))) (append '(a b) '(c . d)) (append '() 'a) (reverse '(a (b c) d (e (f)))))",
     "((x y) (a (b) (c)) (a b c . d) a ((e (f)) d (b c) a))"),
    ("(list (list-tail '(a b c d) 2) (list-ref '(a b c d) 2) (memq 'c '(a b c d e)) (memq 'd '(a b c)) (memq (list 'a) '(b (a) c)) (member (list 'a) '(b (a) c)) (memv 101 '(100 101 102)))",
     "((c d) c (c d e) #f #f ((a) c) (101 102))"),
    ("(define e '((a 1) (b 2) (c 3))) (list (assq 'a e) (assq 'd e) (assq (list 'a) '(((a)) ((b)) ((c)))) (assoc (list 'a) '(((a)) ((b)) ((c)))) (assv 5 '((2 3) (5 7) (11 13))))",
     "((a 1) #f #f ((a)) (5 7))"),
    ("(apply + (list 3 4))", "7"),
    ("(define compose (lambda (f g) (lambda args (f (apply g args))))) ((compose - *) 12 75)", "-900"),
    ("(map cadr '((a b) (d e) (g h)))", "(b e h)"), ("(map + '(1 2 3) '(4 5 6))", "(5 7 9)"),
    ("(let ((count 0)) (map (lambda (ignored) (set! count (+ count 1)) count) '(a b)))", "(1 2)"),
    ("(let ((v (make-vector 5))) (for-each (lambda (i) (vector-set! v i (* i i))) '(0 1 2 3 4)) v)", "#(0 1 4 9 16)"),
    ("(call-with-current-continuation (lambda (exit) (for-each (lambda (x) (if (< x 0) (exit x))) '(54 0 37 -3 245 19)) #t))", "-3"),
    ("(define list-length (lambda (obj) (call-with-current-continuation (lambda (return) (letrec ((r (lambda (obj) (cond ((null? obj) 0) "
     "((pair? obj) (+ (r (cdr obj)) 1)) (else (return #f)))))) (r obj)))))) (list (list-length '(1 2 3 4)) (list-length '(a b . c)))", "(4 #f)"),
    ("(eval '(* 7 3))", "21"), ("(let ((f (eval '(lambda (f x) (f x x))))) (f + 10))", "20"),
    ("(list (vector 'a 'b 'c) (vector-ref '#(1 1 2 3 5 8 13 21) 5))", "(#(a b c) 8)"),
    # re-entrant continuations
    ("(define r '()) (define k #f) (set! r (cons (call/cc (lambda (c) (set! k c) 1)) r)) (if (< (length r) 3) (k (+ 1 (length r)))) r", "(2 1)"),
    # multiple returns from map must not mutate earlier results (R7RS 6.10 map)
    ("(define ks '()) (define r1 (map (lambda (x) (call/cc (lambda (c) (set! ks (cons c ks)) x))) '(1 2 3))) (define first r1) "
     "(define n 0) (if (= n 0) (begin (set! n 1) ((cadr ks) 20))) (list first r1)", "((1 2 3) (1 20 3))"),
    # letrec evaluates all inits before assigning (distinguishes letrec from letrec* under re-entry)
    ("(let ((cont #f)) (letrec ((x (call/cc (lambda (c) (set! cont c) 0))) (y (call/cc (lambda (c) (set! cont c) 0)))) "
     "(if cont (let ((c cont)) (set! cont #f) (set! x 1) (set! y 1) (c 0)) (+ x y))))", "0"),
    # tree generator with two coroutines
    ("(define (tree->generator tree) (define caller #f) (define (loop) (let walk ((t tree)) (cond ((null? t) 'skip) ((pair? t) (walk (car t)) (walk (cdr t))) "
     "(else (call/cc (lambda (rest) (set! loop (lambda () (rest 'resume))) (caller t)))))) (caller '())) "
     "(lambda () (call/cc (lambda (c) (set! caller c) (loop))))) "
     "(define g (tree->generator '((a b) (c (d))))) (list (g) (g) (g) (g) (g))", "(a b c d ())"),
    # proper tail calls: a long loop does not grow the continuation
    ("(let loop ((i 0)) (if (< i 20000) (loop (+ i 1)) i))", "20000"),
]


def main():
    bad = 0
    for text, want in T:
        st, line = R.run_session([text], R.Config(max_steps=2000000))
        if st != "OK":
            got = st + " " + line
        else:
            body = line[len("SESSION | "):line.rindex(" LOG")]
            got = body.rsplit("OK ", 1)[-1] if "OK " in body else body
        if got != R.esc(want):
            bad += 1
            print("FAIL", text, "\n   want", want, "\n   got ", got)
    print("%d examples, %d failures" % (len(T), bad))
    return 1 if bad else 0


if __name__ == "__main__":
    sys.exit(main())
