"""Shared machinery of the /verif checks: builds (harness, Coq cone, extracted
model), case execution (implementation / extracted model / in-kernel), proof
re-checking, verdicts, evidence and replay files."""
import fcntl, hashlib, json, os, random, re, shutil, subprocess, sys, threading, time

VERIF = os.path.dirname(os.path.dirname(os.path.abspath(__file__)))
REPO = os.environ.get("MW_REPO", "/repo")
COQ = os.path.join(VERIF, "coq")
OCAML = os.path.join(VERIF, "ocaml")
HARNESS = os.path.join(VERIF, "harness")
NPROC = min(16, os.cpu_count() or 4)
GUARD = "marwood_verif"

FORBIDDEN = re.compile(
    r"\b(Admitted|admit|Axiom|Axioms|Parameter|Parameters|Conjecture|bypass_check)\b"
    r"|Unset\s+Guard|Admit\s+Obligations|type-in-type|impredicative-set|Unset\s+Positivity|Unset\s+Universe")


class BuildError(Exception):
    pass


def write_if_changed(path, content):
    if os.path.exists(path) and open(path).read() == content:
        return False
    os.makedirs(os.path.dirname(path), exist_ok=True)
    with open(path, "w") as f:
        f.write(content)
    return True


def log(*a):
    print(*a, file=sys.stderr, flush=True)


def sh(cmd, cwd=None, timeout=3600, env=None, check=True, input=None):
    e = dict(os.environ)
    e.update({"CARGO_NET_OFFLINE": "true"})
    if env:
        e.update(env)
    p = subprocess.run(cmd, cwd=cwd, shell=isinstance(cmd, str), timeout=timeout, env=e,
                       stdout=subprocess.PIPE, stderr=subprocess.STDOUT, input=input, text=True)
    if check and p.returncode != 0:
        raise BuildError("command failed (%d): %s\n%s" % (p.returncode, cmd, p.stdout[-4000:]))
    return p.stdout


class Lock:
    """serialise builds between concurrently running checks"""
    def __init__(self, name):
        self.path = os.path.join(VERIF, ".lock." + name)
    def __enter__(self):
        self.f = open(self.path, "w")
        fcntl.flock(self.f, fcntl.LOCK_EX)
    def __exit__(self, *a):
        fcntl.flock(self.f, fcntl.LOCK_UN)
        self.f.close()


# ------------------------------------------------------------------ builds
def build_harness(profile="debug"):
    """cargo build of the harness against /repo's working tree, hooks on"""
    with Lock("cargo"):
        tmpl = open(os.path.join(HARNESS, "Cargo.toml.in")).read().replace("@REPO@", REPO)
        write_if_changed(os.path.join(HARNESS, "Cargo.toml"), tmpl)
        lock_src = os.path.join(REPO, "Cargo.lock")
        lock_dst = os.path.join(HARNESS, "Cargo.lock")
        if not os.path.exists(lock_dst):
            shutil.copy(lock_src, lock_dst)
        cmd = ["cargo", "build", "--offline", "--quiet"]
        if profile == "release":
            cmd.append("--release")
        t0 = time.time()
        sh(cmd, cwd=HARNESS, env={"RUSTFLAGS": "--cfg %s -Awarnings" % GUARD}, timeout=1800)
        log("[build] harness (%s) %.1fs" % (profile, time.time() - t0))
    return os.path.join(HARNESS, "target", profile, "mwh")


def regen():
    """regenerate coq/Gen/*.v from /repo's working tree (translator, lib/gen_coq.py)"""
    import gen_coq
    return gen_coq.regenerate(REPO, os.path.join(COQ, "Gen"))


COQPROJECT_HEAD = """-Q . MW
-arg -w -arg -notation-overridden,-deprecated-hint-without-locality,-extraction-reserved-identifier,-extraction-opaque-accessed,-deprecated-instance-without-locality,-ambiguous-paths
"""


def write_coqproject():
    """_CoqProject lists every .v under coq/{Gen,Model,Proofs,Props,Extract}"""
    files = []
    for d in ("Gen", "Model", "Proofs", "Props", "Extract"):
        dd = os.path.join(COQ, d)
        if os.path.isdir(dd):
            files += sorted(os.path.join(d, f) for f in os.listdir(dd) if f.endswith(".v") and not f.startswith("."))
    ex = os.path.join(COQ, "EXCLUDE")
    if os.path.exists(ex):
        skip = {l.strip() for l in open(ex) if l.strip() and not l.startswith("#")}
        files = [f for f in files if f not in skip]
    write_if_changed(os.path.join(COQ, "_CoqProject"), COQPROJECT_HEAD + "\n".join(files) + "\n")


def coq_makefile():
    write_coqproject()
    mk = os.path.join(COQ, "Makefile")
    cp = os.path.join(COQ, "_CoqProject")
    if not os.path.exists(mk) or os.path.getmtime(mk) < os.path.getmtime(cp):
        sh("coq_makefile -f _CoqProject -o Makefile", cwd=COQ)


def coq_make(targets, timeout=3000):
    with Lock("coq"):
        regen()
        coq_makefile()
        t0 = time.time()
        out = sh(["make", "-j%d" % NPROC] + list(targets), cwd=COQ, timeout=timeout)
        log("[build] coq %s %.1fs" % (" ".join(targets), time.time() - t0))
        return out


def build_model():
    """make the extraction and compile the OCaml driver"""
    with Lock("coq"):
        regen()
        coq_makefile()
        sh(["make", "-j%d" % NPROC, "Extract/Extract.vo"], cwd=COQ, timeout=3000)
        exe = os.path.join(OCAML, "mwmodel")
        src = [os.path.join(OCAML, f) for f in ("mwmodel_core.ml", "mwmodel_core.mli", "main.ml")]
        if not os.path.exists(src[0]):
            # extraction output missing although the .vo is current: force it
            os.remove(os.path.join(COQ, "Extract", "Extract.vo"))
            sh(["make", "Extract/Extract.vo"], cwd=COQ, timeout=3000)
        if (not os.path.exists(exe)) or any(os.path.getmtime(s) > os.path.getmtime(exe) for s in src):
            t0 = time.time()
            sh("ocamlfind ocamlopt -w -a -inline 100 mwmodel_core.mli mwmodel_core.ml main.ml -o mwmodel",
               cwd=OCAML, timeout=1800)
            log("[build] mwmodel %.1fs" % (time.time() - t0))
    return exe


def cone_of(vfile):
    """transitive .v dependencies of a file inside coq/ (from coqdep)"""
    dep = sh("coqdep -Q . MW $(grep -v '^-' _CoqProject)", cwd=COQ)
    graph = {}
    for line in dep.splitlines():
        if ":" not in line:
            continue
        lhs, rhs = line.split(":", 1)
        tgt = lhs.split()[0]
        if not tgt.endswith(".vo"):
            continue
        graph[tgt[:-1]] = [d[:-1] for d in rhs.split() if d.endswith(".vo") and not d.startswith("/")]
    seen, todo = set(), [vfile]
    while todo:
        f = todo.pop()
        if f in seen:
            continue
        seen.add(f)
        todo.extend(graph.get(f, []))
    return sorted(seen)


def strip_comments(src):
    out, depth, i = [], 0, 0
    while i < len(src):
        if src.startswith("(*", i):
            depth += 1; i += 2
        elif src.startswith("*)", i) and depth > 0:
            depth -= 1; i += 2
        else:
            if depth == 0:
                out.append(src[i])
            i += 1
    return "".join(out)


def scan_forbidden(files):
    bad = []
    for f in files:
        src = strip_comments(open(os.path.join(COQ, f)).read())
        for m in FORBIDDEN.finditer(src):
            bad.append("%s: %s" % (f, m.group(0)))
        # Variable / Hypothesis / Context only inside a Section
        depth = 0
        for line in src.splitlines():
            s = line.strip()
            if re.match(r"Section\s", s):
                depth += 1
            elif re.match(r"End\s", s) and depth > 0:
                depth -= 1
            elif depth == 0 and re.match(r"(Variable|Variables|Hypothesis|Hypotheses|Context)\b", s):
                bad.append("%s: %s outside a section" % (f, s.split()[0]))
    return bad


def check_props(pid, allowed_axioms=(), thorough=False):
    """Rebuild the Coq cone of Props/<pid>.v, always re-run coqc on the property
    file itself, compare Print Assumptions with the allowlist.  Returns a dict for
    the evidence; ok=False means a proof obligation no longer checks."""
    vfile = "Props/%s.v" % pid
    res = {"file": vfile, "ok": False, "theorems": [], "obligations": 0, "discharged": 0,
           "axioms": [], "problems": []}
    src = strip_comments(open(os.path.join(COQ, vfile)).read())
    thms = re.findall(r"^\s*(?:Theorem|Corollary)\s+(\w+)", src, re.M)
    res["theorems"] = thms
    res["obligations"] = len(thms)
    n_print = len(re.findall(r"Print\s+Assumptions", src))
    try:
        with Lock("coq"):
            regen()
            coq_makefile()
            vo = os.path.join(COQ, vfile + "o")
            if thorough:
                # rebuild the whole cone from clean
                for f in cone_of(vfile):
                    for ext in ("o", "os", "ok"):
                        p = os.path.join(COQ, f + ext)
                        if os.path.exists(p) and not f.startswith("Gen/"):
                            os.remove(p)
            if os.path.exists(vo):
                os.remove(vo)
            t0 = time.time()
            out = sh(["make", "-j%d" % NPROC, vfile + "o"], cwd=COQ, timeout=3000)
            # when /repo changed (regenerated Gen/*.v) or in the thorough tier, files of the cone were rebuilt
            # in the same make and their own Print Assumptions output is mixed in: compile the property file
            # once more, alone, and parse that output only
            others = [l for l in out.splitlines() if l.startswith("COQC ") and l.split()[1] != vfile]
            if others:
                res["cone_rebuilt"] = len(others)
                if os.path.exists(vo):
                    os.remove(vo)
                out = sh(["make", "-j%d" % NPROC, vfile + "o"], cwd=COQ, timeout=3000)
            res["coq_wall_s"] = round(time.time() - t0, 1)
    except BuildError as e:
        res["problems"].append("proof obligation does not check: " + str(e)[-1500:])
        m = re.search(r'File "\./([^"]+)", line (\d+)', str(e))
        res["broken_at"] = "%s:%s" % (m.group(1), m.group(2)) if m else vfile
        return res
    cone = cone_of(vfile)
    res["cone_files"] = cone
    bad = scan_forbidden(cone)
    if bad:
        res["problems"] += ["forbidden construct: " + b for b in bad]
    closed = out.count("Closed under the global context")
    ax_blocks = re.findall(r"Axioms:\n((?:.+\n?)*?)(?=\n\S|\Z)", out)
    axioms = set()
    for m in re.finditer(r"^([A-Za-z_][\w.']*)\s*:", out, re.M):
        name = m.group(1)
        if name not in ("File", "Warning", "Axioms"):
            axioms.add(name)
    res["axioms"] = sorted(axioms)
    n_ax_blocks = out.count("Axioms:")
    if closed + n_ax_blocks != n_print:
        res["problems"].append("Print Assumptions count mismatch: %d commands, %d reports" % (n_print, closed + n_ax_blocks))
    if n_print < len(thms):
        res["problems"].append("%d theorems but only %d Print Assumptions" % (len(thms), n_print))
    allowed_axioms = list(allowed_axioms) + STD_REAL_AXIOMS
    extra = [a for a in axioms if a not in allowed_axioms and a.split(".")[-1] not in allowed_axioms]
    if extra:
        res["problems"].append("axioms outside the allowlist: " + ", ".join(extra))
    if thorough:
        try:
            t0 = time.time()
            lib = "MW." + vfile[:-2].replace("/", ".")
            chk = sh(["coqchk", "-silent", "-o", "-Q", ".", "MW", lib], cwd=COQ, timeout=3000)
            res["coqchk"] = chk.strip().splitlines()[-12:]
            res["coqchk_wall_s"] = round(time.time() - t0, 1)
        except BuildError as e:
            res["problems"].append("coqchk failed: " + str(e)[-800:])
    res["ok"] = not res["problems"]
    res["discharged"] = len(thms) if res["ok"] else 0
    return res


# ------------------------------------------------------------ running cases
def case_line(case):
    return " ".join(str(x) for x in case)


def _run_sharded(exe, lines, nshards=NPROC, timeout=3600, env=None, per_shard=200):
    """per_shard: minimum number of cases worth a process of its own (modules with expensive
    cases lower it through CASES_PER_SHARD, see runner.Ctx)"""
    if not lines:
        return []
    per_shard = max(1, per_shard)
    nshards = max(1, min(nshards, (len(lines) + per_shard - 1) // per_shard))
    chunks = [lines[i::nshards] for i in range(nshards)]
    outs = [None] * nshards
    errs = []

    # optional hang protection (opt-in, used by the session properties C01/C02/C05 whose cases are
    # whole programs): MW_IMPL_CASE_BUDGET = seconds per case; a shard that exceeds its budget is
    # replayed case by case with a short per-case limit, hanging cases answer TIMEOUT
    case_budget = float(os.environ.get("MW_IMPL_CASE_BUDGET", "0") or 0)
    if not isinstance(exe, str):
        # the extracted model (run through /bin/sh with an unlimited stack) is one to two orders of magnitude slower
        # than the implementation: it gets its own, larger budget per case
        case_budget = float(os.environ.get("MW_MODEL_CASE_BUDGET", "0") or 0) or case_budget * 4

    def work(i):
        try:
            t = timeout if not case_budget else min(timeout, max(20.0, case_budget * len(chunks[i])))
            try:
                p = subprocess.run(_argv(exe), input="\n".join(chunks[i]) + "\n", stdout=subprocess.PIPE,
                                   stderr=subprocess.DEVNULL, text=True, timeout=t, env=env)
            except subprocess.TimeoutExpired:
                if not case_budget:
                    raise
                outs[i] = _run_one_by_one(exe, chunks[i], env, per_case_timeout=5,
                                          max_timeouts=int(os.environ.get("MW_IMPL_MAX_TIMEOUTS", "3")))
                return
            res = p.stdout.split("\n")
            if res and res[-1] == "":
                res.pop()
            if len(res) != len(chunks[i]):
                # the process died on some case: find it by bisection-free replay
                res = _run_one_by_one(exe, chunks[i], env)
            outs[i] = res
        except subprocess.TimeoutExpired:
            # some case of this shard hangs: replay one by one, the hanging ones become TIMEOUT lines
            try:
                outs[i] = _run_one_by_one(exe, chunks[i], env)
            except Exception as e:  # noqa
                errs.append(repr(e))
        except Exception as e:  # noqa
            errs.append(repr(e))
    th = [threading.Thread(target=work, args=(i,)) for i in range(nshards)]
    for t in th:
        t.start()
    for t in th:
        t.join()
    if errs:
        raise BuildError("runner failed: " + "; ".join(errs))
    res = [None] * len(lines)
    for i in range(nshards):
        for j, r in enumerate(outs[i]):
            res[i + j * nshards] = r
    return res


def _run_one_by_one(exe, lines, env=None, per_case_timeout=20, max_timeouts=None):
    res = []
    ntimeouts = 0
    for ln in lines:
        if max_timeouts is not None and ntimeouts >= max_timeouts:
            res.append("NOTRUN after-%d-timeouts-in-this-shard" % ntimeouts)
            continue
        try:
            p = subprocess.run(_argv(exe), input=ln + "\n", stdout=subprocess.PIPE, stderr=subprocess.DEVNULL,
                               text=True, timeout=per_case_timeout, env=env)
            o = p.stdout.strip("\n")
            if p.returncode != 0 and not o:
                o = "ABORT(%d)" % p.returncode
            res.append(o)
        except subprocess.TimeoutExpired:
            res.append("TIMEOUT")
            ntimeouts += 1
    return res


def run_impl(exe, cases, **kw):
    return _run_sharded(exe, [case_line(c) for c in cases], **kw)


def _argv(exe):
    return [exe] if isinstance(exe, str) else list(exe)


def run_model(exe, cases, **kw):
    """the extracted model recurses non-tail over lists (a vector of 10^6 elements is a list of 10^6 cells): it runs
    with an unlimited native stack so that sizes the implementation handles do not end in the driver's STACK answer"""
    env = dict(os.environ)
    argv = ["/bin/sh", "-c", 'ulimit -s unlimited 2>/dev/null || ulimit -s 8000000 2>/dev/null; exec "$0"', exe]
    return _run_sharded(argv, [case_line(c) for c in cases], env=env, **kw)


def coq_list(xs):
    return "[" + ";".join(str(x) for x in xs) + "]"


def kernel_crosscheck(cases, expected, tag, shard=250):
    """Evaluate MW.Model.Wire.run_case inside coqc (vm_compute) on the given cases
    and compare with the lines the extracted model printed.  Returns the list of
    indices that differ."""
    if not cases:
        return []
    tmpdir = os.path.join(VERIF, ".kx")
    os.makedirs(tmpdir, exist_ok=True)
    jobs = []
    for k in range(0, len(cases), shard):
        name = "kx_%s_%d" % (tag, k)
        path = os.path.join(tmpdir, name + ".v")
        body = ["From Coq Require Import NArith List.", "From MW Require Import Model.Base Model.Wire.",
                "Import ListNotations.", "Open Scope N_scope.",
                "Definition eqlist (a b : list N) : bool := if list_eq_dec N.eq_dec a b then true else false.",
                "Definition cases : list (list N * list N) := ["]
        rows = []
        for c, e in zip(cases[k:k + shard], expected[k:k + shard]):
            rows.append("(%s, %s)" % (coq_list(c), coq_list(e.encode("latin-1"))))
        body.append(";\n".join(rows))
        body.append("].")
        body.append("Fixpoint bad (i : N) (l : list (list N * list N)) : list N := match l with [] => [] "
                    "| (c, e) :: r => if eqlist (run_case c) e then bad (i + 1) r else i :: bad (i + 1) r end.")
        body.append("Definition result := Eval vm_compute in bad 0 cases.")
        body.append("Print result.")
        with open(path, "w") as f:
            f.write("\n".join(body) + "\n")
        jobs.append((k, name, path))
    badidx = []
    results = {}

    def work(job):
        k, name, path = job
        try:
            # vm_compute on data of 10^5 elements needs more than the default native stack
            out = sh("ulimit -s unlimited 2>/dev/null || ulimit -s 8000000 2>/dev/null; exec coqc -noglob -Q %s MW -Q %s KX %s"
                     % (COQ, tmpdir, path), cwd=tmpdir, timeout=1800)
            results[k] = out
        except BuildError as e:
            results[k] = "ERROR " + str(e)
    sem = threading.Semaphore(NPROC)

    def guarded(job):
        with sem:
            work(job)
    th = [threading.Thread(target=guarded, args=(j,)) for j in jobs]
    for t in th:
        t.start()
    for t in th:
        t.join()
    for k, name, path in jobs:
        out = results[k]
        m = re.search(r"result\s*=\s*(\[.*?\])\s*:\s*list N", out, re.S)
        if not m:
            raise BuildError("kernel cross-check did not evaluate: " + out[-2000:])
        inner = m.group(1).strip()[1:-1].strip()
        if inner:
            for x in inner.split(";"):
                badidx.append(k + int(x.strip().replace("%N", "")))
        for ext in (".v", ".vo", ".vok", ".vos", ".glob"):
            p = os.path.join(tmpdir, name + ext)
            if os.path.exists(p):
                os.remove(p)
        aux = os.path.join(tmpdir, "." + name + ".aux")
        if os.path.exists(aux):
            os.remove(aux)
    return badidx


# ----------------------------------------------------------------- findings
def load_known(pid):
    path = os.path.join(VERIF, "known_findings.json")
    if not os.path.exists(path):
        return []
    data = json.load(open(path))
    return [f for f in data.get("findings", []) if f.get("property") == pid and f.get("status") == "open"]


# ---------------------------------------------------------------- reporting
class Report:
    def __init__(self, pid, tier, seed):
        self.pid, self.tier, self.seed = pid, tier, seed
        self.t0 = time.time()
        self.violations = []      # (replay_path, suffix)
        self.known_seen = {}
        self.coverage = {}
        self.assumptions = []
        self.nreplay = 0

    def replay_path(self):
        self.nreplay += 1
        d = os.path.join(VERIF, "replay")
        os.makedirs(d, exist_ok=True)
        return os.path.join(d, "%s-%d-%d.json" % (self.pid, self.seed, self.nreplay))

    def violation(self, payload, no_input=False):
        path = self.replay_path()
        payload = dict(payload)
        payload.update({"property": self.pid, "seed": self.seed, "tier": self.tier,
                        "no_failing_input_found": bool(no_input)})
        with open(path, "w") as f:
            json.dump(payload, f, indent=1)
        self.violations.append((path, " no-failing-input-found" if no_input else ""))

    def known(self, fid, what):
        self.known_seen[fid] = what

    def finish(self):
        ev = {
            "property_id": self.pid, "tier": self.tier, "seed": self.seed, "level": "proof",
            "coverage": self.coverage, "assumptions": self.assumptions,
            "wall_s": round(time.time() - self.t0, 2), "violations": len(self.violations),
        }
        os.makedirs(os.path.join(VERIF, "evidence"), exist_ok=True)
        with open(os.path.join(VERIF, "evidence", self.pid + ".json"), "w") as f:
            json.dump(ev, f, indent=1, sort_keys=True)
        for fid, what in sorted(self.known_seen.items()):
            print("KNOWN-FINDING: property=%s %s: %s" % (self.pid, fid, what))
        for path, suffix in self.violations[:20]:
            print("VIOLATION property=%s replay=%s%s" % (self.pid, path, suffix))
        if self.violations:
            print("%s: FAIL (%d violation(s))" % (self.pid, len(self.violations)))
            return 1
        print("%s: ok  (%s tier, %.1fs)" % (self.pid, self.tier, time.time() - self.t0))
        return 0


# The number tower's float arm is built from Flocq's binary64 operations, which Flocq
# defines together with their correctness proofs over Coq's Reals; every statement that
# mentions a datum printer/reader or the VM therefore lists these four standard-library
# axioms under Print Assumptions even when its proof never reasons about reals.
STD_REAL_AXIOMS = ["Classical_Prop.classic", "ClassicalDedekindReals.sig_forall_dec",
                   "ClassicalDedekindReals.sig_not_dec",
                   "FunctionalExtensionality.functional_extensionality_dep"]

TRUSTED_BASE_COMMON = [
    "standard-library axioms reported by Print Assumptions where a statement mentions Flocq-based definitions (Model/F64.v via Model/NumFmt.v): Classical_Prop.classic, ClassicalDedekindReals.sig_forall_dec, ClassicalDedekindReals.sig_not_dec, FunctionalExtensionality.functional_extensionality_dep; no axiom is declared by this development",
    "Coq 8.16.1 kernel (coqc); vm_compute used for finite reflection and the in-kernel cross-check; no native_compute",
    "hand-written Gallina model of the Rust code tied to /repo by differential correspondence on generated cases (sampling outside exhaustively enumerated domains)",
    "extraction: ExtrOcamlBasic only (Extract Inductive bool/option/list/prod/unit/sumbool/sumor, Extract Inlined Constant fst/snd/andb/orb/negb...), OCaml 4.13.1, ocaml/main.ml driver; mitigated by the vm_compute cross-check sub-sample",
    "Rust harness /verif/harness (canonical printing, catch_unwind), rustc/LLVM, Rust std/core semantics",
    "lib/*.py generators, differ, and the Python spec oracle used to classify disagreements",
]


def digest(x):
    return hashlib.sha1(repr(x).encode()).hexdigest()[:16]
