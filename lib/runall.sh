#!/bin/bash
# runall.sh [tier] [ids...] — every registered check in turn on the current /repo; summary at the end
cd /verif
TIER=${1:-quick}; shift
IDS=${@:-C01 C02 C03 C04 C05 C06 C07 C08 C09 C10 C11 C12 C13 C14 C15 C16 C17 C18 C19 C20}
mkdir -p /tmp/runall
for id in $IDS; do
  s=$(date +%s)
  timeout 14400 ./check $id --tier $TIER > /tmp/runall/$id.$TIER.log 2>&1; rc=$?
  e=$(( $(date +%s) - s ))
  echo "$id rc=$rc ${e}s viol=$(grep -c '^VIOLATION' /tmp/runall/$id.$TIER.log) known=$(grep -c '^KNOWN-FINDING' /tmp/runall/$id.$TIER.log) $(grep -E 'CHECK-ERROR' /tmp/runall/$id.$TIER.log | head -1 | cut -c1-200)"
done
