import json, subprocess, sys
def show(ref):
    return json.loads(subprocess.check_output(["git","-C","/verif","show",ref+":known_findings.json"]))
ours=show("HEAD"); theirs=show(sys.argv[1])
out=dict(ours)
ids={(f['property'],f['id']) for f in ours.get('findings',[])}
for f in theirs.get('findings',[]):
    if (f['property'],f['id']) not in ids: out['findings'].append(f)
for x in theirs.get('fixed',[]):
    if x not in out['fixed']: out['fixed'].append(x)
json.dump(out,open('/verif/known_findings.json','w'),indent=1)
print(len(out['findings']),'findings',len(out['fixed']),'fixed')
