"""Generic flow of one property check (DESIGN 2.3/2.5): build, re-check proofs,
run corpus + generated cases on implementation and model, classify, report."""
import json, os, random, sys, time
import common as C


def _nonfatal(e):
    print("CHECK-ERROR: " + str(e)[-3000:])
    return 2


class Ctx:
    """what a property module needs to run extra cases during shrinking/search"""
    def __init__(self, impl_exes, model_exe, mod=None, tier="quick"):
        self.impl_exes, self.model_exe = impl_exes, model_exe
        # optional MODEL_SKIP(case) -> bool of the property module: such cases are
        # implementation-only (e.g. runs far beyond the model's instruction budget);
        # their model line is the constant SKIPPED and is never compared
        self.skip = getattr(mod, "MODEL_SKIP", None)
        NOFUEL_NO_ANSWER[0] = bool(getattr(mod, "MODEL_NOFUEL_IS_NO_ANSWER", False))
        # optional CASES_PER_SHARD: modules whose cases are expensive ask for more, smaller shards
        self.kw = {"per_shard": mod.CASES_PER_SHARD} if hasattr(mod, "CASES_PER_SHARD") else {}
        # optional SHARD_TIMEOUT (seconds): a shard running longer is replayed case by case and the
        # hanging cases become TIMEOUT lines (default: common.py's one hour)
        # (implementation only: the model cannot hang, it has fuel); an int or a dict per tier
        self.ikw = dict(self.kw)
        if hasattr(mod, "SHARD_TIMEOUT"):
            t = mod.SHARD_TIMEOUT
            self.ikw["timeout"] = t.get(tier, 3600) if isinstance(t, dict) else t

    def impl(self, cases, profile=None):
        exe = self.impl_exes[profile or sorted(self.impl_exes)[0]]
        return C.run_impl(exe, cases, **self.ikw)

    def model(self, cases):
        # a model answer containing UNMODELLED (panic site 99 of Model/Builtins.v: a builtin, or an arm of one,
        # that needs libm/rand/time and has no model) is not an answer: such a case is implementation-only
        if self.skip is None:
            return [SKIPPED if _no_answer(l) else l for l in C.run_model(self.model_exe, cases, **self.kw)]
        keep = [i for i, c in enumerate(cases) if not self.skip(c)]
        lines = C.run_model(self.model_exe, [cases[i] for i in keep], **self.kw)
        out = [SKIPPED] * len(cases)
        for i, l in zip(keep, lines):
            out[i] = SKIPPED if _no_answer(l) else l
        return out


SKIPPED = "SKIPPED"
MODEL_TIMEOUTS = [0]


NOFUEL_NO_ANSWER = [False]


def _no_answer(line):
    # modules whose programs are known to terminate and whose sizes can exceed the model's instruction budget
    # (EVAL_FUEL = 400000 instructions; C04 measures loops of 1000 iterations through nested derived forms) declare
    # MODEL_NOFUEL_IS_NO_ANSWER: an exhausted model budget is then not an answer of the model (counted with the timeouts)
    if NOFUEL_NO_ANSWER[0] and "NOFUEL" in line:
        MODEL_TIMEOUTS[0] += 1
        return True
    return _no_answer0(line)


def _no_answer0(line):
    """UNMODELLED: no model for this builtin/arm.  TIMEOUT/NOTRUN: the extracted model (slower than the
    implementation by orders of magnitude on large data) did not finish within the runner's per-case limit:
    that is not an answer of the model, the case is implementation-only; counted in the evidence"""
    if line.startswith(("TIMEOUT", "NOTRUN")):
        MODEL_TIMEOUTS[0] += 1
        return True
    return "UNMODELLED" in line


def shrink_case(mod, ctx, case, still_fails, budget=400):
    """greedy delta-debugging over the candidate reductions the module offers"""
    if not hasattr(mod, "reductions"):
        return case
    cur, spent, progress = case, 0, True
    while progress and spent < budget:
        progress = False
        cands = list(mod.reductions(cur))[:64]
        if not cands:
            break
        impl = ctx.impl(cands)
        model = ctx.model(cands)
        spent += len(cands)
        for cand, i, m in zip(cands, impl, model):
            if still_fails(cand, i, m):
                cur, progress = cand, True
                break
    return cur


def run_property(mod, tier="quick", seed=0, replay=None):
    pid = mod.PID
    rep = C.Report(pid, tier, seed)
    rng = random.Random((seed, pid).__repr__())
    profiles = getattr(mod, "PROFILES", ["debug"])
    try:
        impl_exes = {p: C.build_harness(p) for p in profiles}
    except C.BuildError as e:
        return _nonfatal("harness does not build against /repo: %s" % e)
    try:
        model_exe = C.build_model()
    except C.BuildError as e:
        return _nonfatal("model does not build: %s" % e)
    ctx = Ctx(impl_exes, model_exe, mod, tier)

    if replay:
        data = json.load(open(replay))
        cases = data.get("cases") or [data["case"]]
        for c in cases:
            print("case     :", C.case_line(c)[:2000])
            if hasattr(mod, "describe"):
                print("readable :", json.dumps(mod.describe(c))[:2000])
            for p in profiles:
                il = ctx.impl([c], p)[0]
                print("impl(%s): %s" % (p, il[:2000]))
                msg = mod.oracle(c, il) if hasattr(mod, "oracle") else None
                print("oracle   :", msg or "ok")
            print("model    :", ctx.model([c])[0][:2000])
        rel = data.get("related_cases")
        if rel and hasattr(mod, "cross_oracle") and len(cases) == 1:
            # the failing case together with the cases it is compared with
            group = cases + [c for c in rel if c != cases[0]]
            for p in profiles:
                lines = ctx.impl(group, p)
                for c, l in zip(group[1:], lines[1:]):
                    print("related  :", json.dumps(mod.describe(c))[:2000] if hasattr(mod, "describe") else C.case_line(c)[:2000])
                    print("impl(%s): %s" % (p, l[:2000]))
                msgs = [m for i, m in mod.cross_oracle(group, lines)]
                print("cross    :", "; ".join(msgs)[:2000] or "ok")
        if data.get("broken"):
            print("broken   :", data["broken"])
        return 0

    # ---- proofs
    props = C.check_props(pid, getattr(mod, "ALLOWED_AXIOMS", ()), thorough=(tier == "thorough"))

    # ---- cases
    t0 = time.time()
    corpus = list(mod.corpus()) if hasattr(mod, "corpus") else []
    gen_cases, meta = mod.generate(rng, tier)
    cases = corpus + gen_cases
    log = C.log
    log("[%s] %d cases (%d corpus) generated in %.1fs" % (pid, len(cases), len(corpus), time.time() - t0))
    t0 = time.time()
    impl = {p: ctx.impl(cases, p) for p in profiles}
    log("[%s] implementation ran in %.1fs" % (pid, time.time() - t0))
    t0 = time.time()
    model = ctx.model(cases)
    log("[%s] model ran in %.1fs" % (pid, time.time() - t0))

    # ---- kernel cross-check of a deterministic sub-sample
    nk = getattr(mod, "KERNEL_SAMPLE", {"quick": 200, "thorough": 2000})[tier]
    idx = list(range(len(cases)))
    random.Random(seed).shuffle(idx)
    small = [i for i in idx if len(cases[i]) <= getattr(mod, "KERNEL_MAXLEN", 400) and model[i] != SKIPPED]
    kidx = sorted(small[:nk])
    t0 = time.time()
    try:
        kbad = C.kernel_crosscheck([cases[i] for i in kidx], [model[i] for i in kidx], pid)
    except C.BuildError as e:
        return _nonfatal("kernel cross-check failed to run: %s" % e)
    log("[%s] kernel cross-check of %d cases in %.1fs" % (pid, len(kidx), time.time() - t0))
    if kbad:
        i = kidx[kbad[0]]
        return _nonfatal("extracted model and vm_compute disagree on case %s (extraction/driver bug): model line %r"
                         % (C.case_line(cases[i])[:500], model[i][:300]))

    # ---- classify
    known = C.load_known(pid)
    known_ids = {f["id"]: f for f in known}
    nontrivial, disagreements, oracle_fail = set(), [], []
    kinds = {}
    # optional hook: a model line that carries the outcome of both build profiles
    # (`debug|release`) is projected to the profile the implementation was built with
    # for the comparison; known_class always receives the unprojected model line
    mview = getattr(mod, "model_view", lambda ml, p: ml)
    for p in profiles:
        for i, (c, il, ml0) in enumerate(zip(cases, impl[p], model)):
            ml = mview(ml0, p)
            k = il.split(" ", 1)[0] if il else "EMPTY"
            kinds[k] = kinds.get(k, 0) + 1
            if mod.nontrivial(c, il):
                nontrivial.add(C.digest(c))
            fid = mod.known_class(c, il, ml0) if hasattr(mod, "known_class") else None
            if fid is not None and fid in known_ids:
                rep.known(fid, known_ids[fid]["what"])
                continue
            msg = mod.oracle(c, il)
            if msg:
                oracle_fail.append((i, p, msg))
            elif il != ml and ml != SKIPPED:
                disagreements.append((i, p))

    # cross-case oracle: properties that compare the implementation with itself on
    # related cases (sliced vs uninterrupted, n vs 10n, with/without a failed form)
    if hasattr(mod, "cross_oracle"):
        for p in profiles:
            for i, msg in mod.cross_oracle(cases, impl[p]):
                fid = mod.known_class(cases[i], impl[p][i], model[i]) if hasattr(mod, "known_class") else None
                if fid is not None and fid in known_ids:
                    rep.known(fid, known_ids[fid]["what"])
                    continue
                oracle_fail.append((i, p, msg))

    def fails_oracle(c, il, ml):
        return bool(mod.oracle(c, il)) and not (hasattr(mod, "known_class") and mod.known_class(c, il, ml) in known_ids)

    seen_msgs = set()
    for i, p, msg in oracle_fail:
        key = msg.split(":")[0]
        if key in seen_msgs and len(seen_msgs) > 0:
            continue
        seen_msgs.add(key)
        related = mod.related(cases, i) if hasattr(mod, "related") else None
        if mod.oracle(cases[i], impl[p][i]):
            small_case = shrink_case(mod, ctx, cases[i], fails_oracle)
        elif related and hasattr(mod, "shrink_group"):
            # cross-case failure: the module shrinks the failing case together with its related cases
            small_case, related = mod.shrink_group(ctx, cases[i], related, p)
        else:
            small_case = cases[i]
        il = ctx.impl([small_case], p)[0]
        ml = ctx.model([small_case])[0]
        rep.violation({"case": small_case, "original_case": cases[i], "profile": p,
                       "readable": mod.describe(small_case) if hasattr(mod, "describe") else None,
                       "impl": il, "model": ml, "oracle": mod.oracle(small_case, il) or msg,
                       "related_cases": related})
        if len(rep.violations) >= 5:
            break

    broken = []
    if not props["ok"]:
        broken.append("proof: " + "; ".join(props["problems"])[:1500])
    if disagreements and not rep.violations:
        # correspondence broken without an oracle failure: search the neighbourhood
        found = False
        if hasattr(mod, "neighbours"):
            budget = 4000 if tier == "quick" else 60000
            pool = []
            for i, p in disagreements[:50]:
                pool += mod.neighbours(cases[i], rng)
            pool = pool[:budget]
            if pool:
                il = ctx.impl(pool)
                ml = ctx.model(pool)
                for c, a, b in zip(pool, il, ml):
                    if fails_oracle(c, a, b):
                        sc = shrink_case(mod, ctx, c, fails_oracle)
                        a2 = ctx.impl([sc])[0]
                        rep.violation({"case": sc, "readable": mod.describe(sc) if hasattr(mod, "describe") else None,
                                       "impl": a2, "model": ctx.model([sc])[0], "oracle": mod.oracle(sc, a2)})
                        found = True
                        break
        if not found:
            i, p = disagreements[0]

            def differs(c, a, b):
                return a != mview(b, sorted(impl_exes)[0])
            sc = shrink_case(mod, ctx, cases[i], differs)
            broken.append("correspondence %s: implementation and model differ on %d case(s)"
                          % (getattr(mod, "CORRESPONDENCE", pid), len(disagreements)))
            rep.violation({"case": sc, "original_case": cases[i], "profile": p,
                           "readable": mod.describe(sc) if hasattr(mod, "describe") else None,
                           "impl": ctx.impl([sc], p)[0], "model": ctx.model([sc])[0],
                           "broken": "correspondence between %s and the model no longer checks; theorems relying on it: %s"
                                     % (getattr(mod, "CORRESPONDENCE", "the implementation"), ", ".join(props["theorems"])),
                           "n_disagreements": len(disagreements)}, no_input=True)
    if not props["ok"] and not rep.violations:
        rep.violation({"broken": "proof obligation no longer checks: %s (%s)" % (props.get("broken_at", props["file"]),
                                                                               "; ".join(props["problems"])[:1500]),
                       "cases": []}, no_input=True)

    # ---- evidence
    samples = []
    for i in idx[:4]:
        samples.append({"case": C.case_line(cases[i])[:300],
                        "readable": mod.describe(cases[i]) if hasattr(mod, "describe") else None,
                        "impl": impl[profiles[0]][i][:300], "model": model[i][:300]})
    for t in props["theorems"][:6]:
        samples.append({"obligation": "%s.%s" % (props["file"], t)})
    cov = {
        "obligations": props["obligations"], "discharged": props["discharged"],
        "checker_cmd": "make -C coq %so  (coqc 8.16.1, full .vo; property file recompiled in this run%s)"
                       % (props["file"], "; cone rebuilt from clean + coqchk -o" if tier == "thorough" else ""),
        "trusted_base": C.TRUSTED_BASE_COMMON + list(getattr(mod, "TRUSTED_BASE", [])),
        "theorems": props["theorems"], "axioms_reported": props["axioms"],
        "cone_files": props.get("cone_files", []), "proof_problems": props["problems"],
        "evaluations": len(cases) * len(profiles),
        "distinct_nontrivial": len(nontrivial),
        "rule": mod.RULE, "samples": samples,
        "exhaustive": bool(meta.get("exhaustive", False)),
        "profiles": profiles,
        "kernel_crosscheck": len(kidx), "model_timeouts_not_compared": MODEL_TIMEOUTS[0],
        "disagreements_checked": len(disagreements),
        "oracle_failures": len(oracle_fail),
        "result_kinds": kinds,
        "distribution": meta,
        "known_findings_seen": sorted(rep.known_seen),
        "broken": broken,
    }
    if "coqchk" in props:
        cov["coqchk"] = props["coqchk"]
    rep.coverage = cov
    rep.assumptions = list(getattr(mod, "ASSUMPTIONS", []))
    return rep.finish()
