"""C09 — numeric comparison is one consistent total order across representations."""
from fractions import Fraction
import numlib as L
from numlib import model_view, describe  # noqa: F401  (hooks used by the runner)

PID = "C09"
PROFILES = ["debug", "release"]
ALLOWED_AXIOMS = ["ClassicalDedekindReals.sig_not_dec", "ClassicalDedekindReals.sig_forall_dec",
                  "FunctionalExtensionality.functional_extensionality_dep", "Classical_Prop.classic"]
KERNEL_SAMPLE = {"quick": 300, "thorough": 2000}
CORRESPONDENCE = ("marwood/src/number.rs PartialEq/PartialOrd (333-436) + vm/builtin/number.rs num_comp, min, max, "
                  "zero? positive? negative? + num-rational Ord::cmp vs Model/NumArith.v over Model/Ratio32.v")
RULE = ("C08's palette (boundary integers within 3 of 0, +-2^31, +-2^63, random 32..256-bit integers, rationals up to "
        "2^31-1; every value in every representation that can carry it) extended with floats: integers near 2^53 and "
        "2^63, +-0.0, subnormals, +-inf, and for every exact palette value its nearest double and both neighbours; all "
        "ordered pairs (thorough) or a 1/16 sample (quick) through the Number API (== partial_cmp < <= > >=) and through "
        "Vm::eval (= < > <= >= min max); triples (clustered around one value, and random) with the four argument lists "
        "(a b) (b c) (a c) (a b c) for transitivity and the variadic fold; zero? positive? negative? on every value. "
        "Non-trivial = the operands are in different representations or one is inexact; distinct by case hash")
ASSUMPTIONS = [
    "NaN is outside the property; a few NaN cases are run for the model/implementation tie only",
    "a non-number argument makes the variadic comparison answer #f (kept as is, not claimed)",
]
TRUSTED_BASE = ["Python oracle lib/props/c09.py + numlib.py (exact comparison with fractions.Fraction; doubles decoded exactly)"]
MANIFEST = dict(
    text="Coq theorems over a hand-written model of number.rs PartialEq/PartialOrd and num-rational's continued-fraction "
         "Ord::cmp on Ratio<i32>: the comparison terminates and equals the comparison of a*d with c*b; over all exact "
         "representation pairs (and float-float) < = > are decided by the mathematical values, hence trichotomy, "
         "transitivity, consistency of <= >= (Rust's derived forms), the variadic fold as the conjunction over adjacent "
         "pairs, min/max/zero?/positive?/negative?; with floats: f64_to_Q is proved equal to Flocq's real value of a double, "
         "Float-Float comparison is the comparison of the values unconditionally, and all 16 representation pairs (infinities "
         "included) compare by value whenever every exact operand converts exactly to a double (decidable side condition, "
         "proved for |integers| <= 2^53 and dyadic rationals), hence trichotomy and transitivity there; refutation "
         "witnesses for the recorded exact-vs-inexact rounding class (2^53+1 vs 2^53, 1/3 vs its double). Tied to "
         "/repo by all pairs of the palette (exact values in every representation + floats), sampled triples, debug and "
         "release builds, 3-way.",
    design="DESIGN.md section 5 C09",
    note="Trusted: Coq kernel, the hand-written model (tied by differential correspondence), num-bigint comparison as Z "
         "comparison, extraction+OCaml driver (cross-checked in-kernel), Rust harness, Python oracle. Axioms: "
         "Ratio32.cmp_correct is closed under the global context; theorems whose statement mentions a number.rs function "
         "report the four standard-library axioms behind Coq's reals (ClassicalDedekindReals.sig_not_dec, sig_forall_dec, "
         "functional_extensionality_dep, Classical_Prop.classic) because the float arms of the same functions are Flocq "
         "operations whose validity proofs are built over R; no other axiom. The unrestricted float statement is false "
         "(the recorded rounding class) and is kept with its refutation.",
    technique="Rocq/Coq proof (Euclid-style induction for the continued-fraction comparison) + correspondence check")


# ---------------------------------------------------------------------- values
def cmpv(x, y):
    """exact three-way comparison of two non-NaN numbers"""
    vx, vy = L.value(x), L.value(y)

    def key(v):
        return (1, 0) if v == '+inf' else (-1, 0) if v == '-inf' else (0, v)
    kx, ky = key(vx), key(vy)
    return (kx > ky) - (kx < ky)


def is_nan(x):
    return x[0] == 'flo' and L.value(x) == 'nan'


def rounded_cmp_differs(x, y):
    """the recorded defect class: x exact, y inexact, and comparing the double nearest to x with y answers
    differently from comparing x itself"""
    if not (L.is_exact(x) and x[0] != 'other' and y[0] == 'flo') or is_nan(y):
        return False
    vx = L.value(x)
    rx = ('flo', L.nearest_double(vx))
    return cmpv(rx, y) != cmpv(x, y)


def in_rounding_class(args):
    nums = [a for a in args if a[0] != 'other']
    return any(rounded_cmp_differs(a, b) or rounded_cmp_differs(b, a) for a in nums for b in nums)


# ------------------------------------------------------------------ generation
def corpus():
    e = L.enc
    big53 = 9007199254740993
    f53 = ('flo', L.f_bits(9007199254740992.0))
    third = ('flo', L.f_bits(0.3333333333333333))
    return [
        [16, *e(('fix', -2**32)), *e(('rat', 1, 2))],                 # F9: (< -4294967296 1/2)
        [15, *e(('fix', -2**32)), *e(('rat', 1, 2))],
        [15, *e(('rat', 1, 2)), *e(('big', -2**40))],
        [16, *e(('fix', big53)), *e(f53)],                            # (= 9007199254740993 9007199254740992.0)
        [16, *e(('rat', 1, 3)), *e(third)],
        [17, *e(('fix', big53)), *e(f53), *e(('fix', big53 - 1))],    # = not transitive
        [17, *e(('fix', 1)), *e(('rat', 3, 2)), *e(('flo', L.f_bits(2.5)))],
        [16, *e(('fix', 1)), *e(('other',)), *e(('fix', 2))],
    ]


def generate(rng, tier):
    ex = L.exact_palette(rng, 1, 4)
    evals = sorted({L.value(x) for x in ex})
    fl = L.float_palette(rng, evals)
    allv = ex + fl
    pairs = [(a, b) for a in allv for b in allv]
    if tier == "quick":
        pairs = rng.sample(pairs, len(pairs) // 16)
    cases = []
    dist = {"exact_values": len(ex), "float_values": len(fl), "pairs": len(pairs), "exhaustive_pairs": tier == "thorough"}
    # Rationals closer to each other than a double can resolve (Farey neighbours a/b, c/d
    # with b*d > 2^53): an ordering computed through f64 conflates them.  Never sub-sampled.
    M = L.I32_MAX
    close = []
    for k in [M - 2, M - 3, M - 1000, 2**30 + 1, 3037000500 % M, rng.randint(2**27, M - 2), rng.randint(2**27, M - 2)]:
        close.append((Fraction(k, k + 1), Fraction(k + 1, k + 2)))      # near 1
        close.append((Fraction(1, k + 1), Fraction(1, k)))              # near 0
        close.append((Fraction(-(k + 1), k + 2), Fraction(-k, k + 1)))  # negative
    for _ in range(12):
        b = rng.randint(2**27, M - 1); d = b + 1                        # consecutive denominators: a*d - b*c = 1
        a = rng.randint(1, b - 1)
        c = (a * d + 1) // b if (a * d + 1) % b == 0 else None
        if c is None:
            c = a + 1 if Fraction(a + 1, d) > Fraction(a, b) else a
        if 0 < c <= M and Fraction(c, d) != Fraction(a, b):
            lo, hi = sorted([Fraction(a, b), Fraction(c, d)])
            if hi.numerator <= M and hi.denominator <= M and lo.numerator <= M and lo.denominator <= M:
                close.append((lo, hi))
    close_pairs = []
    for lo, hi in close:
        for x in L.reprs_of(lo):
            for y in L.reprs_of(hi):
                close_pairs += [(x, y), (y, x)]
    dist["close_rational_pairs"] = len(close_pairs)
    pairs = list(pairs) + close_pairs
    for a, b in pairs:
        ea, eb = L.enc(a), L.enc(b)
        cases.append([15] + ea + eb)
        cases.append([16] + ea + eb)
        k = "pair:%s-%s" % (a[0], b[0])
        dist[k] = dist.get(k, 0) + 1
    for a in allv:
        for proc in (11, 12, 13):
            cases.append([12, proc] + L.enc(a))
        cases.append([16] + L.enc(a))
    # triples: clusters around one value, then random
    ntri = 8000 if tier == "quick" else 200000
    clusters = []
    for q in evals:
        cl = list(L.reprs_of(q))
        b = L.nearest_double(q)
        cl.append(('flo', b))
        if isinstance(L.flo_value(b), Fraction):
            cl += [('flo', L.next_up(b)), ('flo', L.next_down(b))]
        if q.denominator == 1:
            cl += L.reprs_of(q + 1) + L.reprs_of(q - 1)
        clusters.append(cl)
    n_cl = 0
    for _ in range(ntri * 3 // 4):
        cl = rng.choice(clusters)
        a, b, c = (rng.choice(cl) for _ in range(3))
        cases.append([17] + L.enc(a) + L.enc(b) + L.enc(c))
        n_cl += 1
    for _ in range(ntri // 4):
        a, b, c = (rng.choice(allv) for _ in range(3))
        cases.append([17] + L.enc(a) + L.enc(b) + L.enc(c))
    nvar = 2000 if tier == "quick" else 20000
    for _ in range(nvar):
        n = rng.choice([3, 4, 5])
        base = sorted((rng.choice(allv) for _ in range(n)), key=_sortkey)
        if rng.random() < 0.4:
            rng.shuffle(base)
        if rng.random() < 0.03:
            base[rng.randrange(n)] = ('other',)
        cases.append([16] + [t for x in base for t in L.enc(x)])
    nan = ('flo', 0x7ff8000000000000)
    for a in rng.sample(allv, 20):
        cases.append([15] + L.enc(a) + L.enc(nan))
        cases.append([16] + L.enc(nan) + L.enc(a))
    dist.update({"triples_clustered": n_cl, "triples_random": ntri // 4, "variadic": nvar})
    return cases, dist


def _sortkey(x):
    v = L.value(x)
    return float('inf') if v == '+inf' else float('-inf') if v == '-inf' else v


# ---------------------------------------------------------------------- oracle
def parts(line):
    return [L.parse_result(p) for p in line.split(";")[1:]]


def _bool(r):
    return r[1] if r[0] == 'bool' else None


CMP_NAMES = ["=", "<", ">", "<=", ">="]


def holds(name, c):
    return {"=": c == 0, "<": c < 0, ">": c > 0, "<=": c <= 0, ">=": c >= 0}[name]


def adjacent_truth(name, args):
    return all(holds(name, cmpv(x, y)) for x, y in zip(args, args[1:]))


def oracle(case, impl_line):
    iface = case[0]
    if iface == 15:
        a, b = L.dec_args(case[1:])
        if is_nan(a) or is_nan(b):
            return None
        if not impl_line.startswith("CMP;"):
            return "panic: comparison -> %s" % impl_line[:60]
        r = parts(impl_line)
        if any(x[0] == 'panic' for x in r):
            return "panic: a comparison of %s and %s panicked" % (L.show(a), L.show(b))
        eq, pc, lt, le, gt, ge = r
        c = cmpv(a, b)
        got = {"=": _bool(eq), "<": _bool(lt), "<=": _bool(le), ">": _bool(gt), ">=": _bool(ge)}
        if None in got.values() or pc[0] != 'ord':
            return "malformed: %s" % impl_line[:80]
        if [got["<"], got["="], got[">"]].count(True) != 1:
            return "trichotomy: not exactly one of < = > holds for %s and %s: %s" % (L.show(a), L.show(b), got)
        for name in CMP_NAMES:
            if got[name] != holds(name, c):
                return "wrong-order: %s %s %s answered %s" % (L.show(a), name, L.show(b), got[name])
        if pc[1] != {-1: "Less", 0: "Equal", 1: "Greater"}[c]:
            return "wrong-order: partial_cmp(%s, %s) = %s" % (L.show(a), L.show(b), pc[1])
        if got["<="] != (got["<"] or got["="]) or got[">="] != (got[">"] or got["="]):
            return "inconsistent: <= >= disagree with < = > on %s, %s" % (L.show(a), L.show(b))
        return None
    if iface == 16:
        args = L.dec_args(case[1:])
        if any(a[0] == 'other' or is_nan(a) for a in args) or not args:
            return None
        if not impl_line.startswith("VM;"):
            return "panic: %s" % impl_line[:60]
        r = parts(impl_line)
        if any(x[0] == 'panic' for x in r):
            return "panic: a comparison procedure panicked on %s" % ([L.show(a) for a in args],)
        for name, res in zip(CMP_NAMES, r[:5]):
            want = adjacent_truth(name, args)
            if _bool(res) is None:
                return "error: (%s ...) on numbers did not answer a boolean: %r" % (name, res)
            if _bool(res) != want:
                return "wrong-order: (%s %s) answered %s" % (name, " ".join(L.show(a) for a in args), _bool(res))
        if len(args) >= 2:
            for name, res, pick in (("min", r[5], min), ("max", r[6], max)):
                if res[0] != 'num':
                    return "error: (%s ...) on numbers: %r" % (name, res)
                best = args[0]
                for a in args[1:]:
                    if (cmpv(a, best) < 0) if name == "min" else (cmpv(a, best) > 0):
                        best = a
                if is_nan(res[1]) or cmpv(res[1], best) != 0:
                    return "wrong-order: (%s %s) answered %s" % (name, " ".join(L.show(a) for a in args), L.show(res[1]))
        return None
    if iface == 17:
        a, b, c = L.dec_args(case[1:])
        if any(x[0] == 'other' or is_nan(x) for x in (a, b, c)):
            return None
        if not impl_line.startswith("TRI;"):
            return "panic: %s" % impl_line[:60]
        r = parts(impl_line)
        if any(x[0] != 'bool' for x in r) or len(r) != 20:
            return "error: comparison of numbers did not answer booleans: %s" % impl_line[:80]
        for k, name in enumerate(CMP_NAMES):
            ab, bc, ac, abc = (x[1] for x in r[4 * k:4 * k + 4])
            if ab and bc and not ac:
                return "not-transitive: %s holds for (a b) and (b c) but not (a c): %s %s %s" % (
                    name, L.show(a), L.show(b), L.show(c))
            if abc != (ab and bc):
                return "variadic: (%s a b c) differs from the conjunction over adjacent pairs: %s %s %s" % (
                    name, L.show(a), L.show(b), L.show(c))
            for got, (x, y) in ((ab, (a, b)), (bc, (b, c)), (ac, (a, c))):
                if got != holds(name, cmpv(x, y)):
                    return "wrong-order: (%s %s %s) answered %s" % (name, L.show(x), L.show(y), got)
        return None
    if iface == 12 and case[1] in (11, 12, 13):
        args = L.dec_args(case[2:])
        if len(args) != 1 or args[0][0] == 'other' or is_nan(args[0]):
            return None
        res = L.parse_result(impl_line)
        if res[0] != 'bool':
            return "error: sign predicate on a number: %r" % (res,)
        c = cmpv(args[0], ('fix', 0))
        want = {11: c == 0, 12: c > 0, 13: c < 0}[case[1]]
        if res[1] != want:
            return "wrong-order: (%s %s) answered %s" % (L.PROCS[case[1]], L.show(args[0]), res[1])
        return None
    return None


def known_class(case, impl_line, model_line):
    iface = case[0]
    if iface == 15:
        args = L.dec_args(case[1:])
    elif iface in (16, 17):
        args = L.dec_args(case[1:])
    else:
        return None
    if any(is_nan(a) for a in args if a[0] != 'other'):
        return None
    if iface == 16:
        # only adjacent pairs are compared by the fold (and every later argument against the running
        # min/max, which is one of the arguments)
        nums = [a for a in args if a[0] != 'other']
        if any(rounded_cmp_differs(x, y) or rounded_cmp_differs(y, x) for x in nums for y in nums):
            return "exact-vs-inexact-by-rounding"
        return None
    if in_rounding_class(args):
        return "exact-vs-inexact-by-rounding"
    return None


def nontrivial(case, impl_line):
    if case[0] not in (15, 16, 17):
        return case[0] == 12
    args = [a for a in L.dec_args(case[1:]) if a[0] != 'other']
    return len({a[0] for a in args}) > 1


def reductions(case):
    iface = case[0]
    if iface not in (15, 16, 17):
        return
    args = L.dec_args(case[1:])
    if iface == 16 and len(args) > 2:
        for i in range(len(args)):
            rest = args[:i] + args[i + 1:]
            yield [16] + [t for a in rest for t in L.enc(a)]
    for i, a in enumerate(args):
        if a[0] in ('fix', 'big'):
            z = a[1]
            for c in (0, 1, -1, z // 2):
                if c != z and (a[0] == 'big' or L.I64_MIN <= c <= L.I64_MAX):
                    new = args[:i] + [(a[0], c)] + args[i + 1:]
                    yield [iface] + [t for x in new for t in L.enc(x)]
        elif a[0] == 'rat':
            for c in (('rat', 1, 2), ('rat', a[1], 1)):
                if c != a:
                    new = args[:i] + [c] + args[i + 1:]
                    yield [iface] + [t for x in new for t in L.enc(x)]
        elif a[0] == 'flo':
            for b in (0, L.f_bits(1.0), L.f_bits(0.5)):
                if b != a[1]:
                    new = args[:i] + [('flo', b)] + args[i + 1:]
                    yield [iface] + [t for x in new for t in L.enc(x)]


def neighbours(case, rng):
    iface = case[0]
    if iface not in (15, 16, 17):
        return []
    args = L.dec_args(case[1:])
    out = []
    for i, a in enumerate(args):
        cands = []
        if a[0] in ('fix', 'big', 'rat'):
            v = L.value(a)
            for dv in (-1, 0, 1):
                cands += L.reprs_of(v + dv)
            b = L.nearest_double(v)
            cands += [('flo', b)]
        elif a[0] == 'flo' and isinstance(L.value(a), Fraction):
            cands += [('flo', L.next_up(a[1])), ('flo', L.next_down(a[1]))]
            v = L.value(a)
            if v.denominator == 1:
                cands += L.reprs_of(v)
        for c in cands:
            new = args[:i] + [c] + args[i + 1:]
            out.append([iface] + [t for x in new for t in L.enc(x)])
    return out
