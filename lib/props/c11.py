"""C11 — reader discipline: total, exact spans, one datum per parse, incompleteness found."""
import pylex

PID = "C11"
# The parser calls Number::parse (Model/NumFmt.v), whose float arm is built from Flocq's
# binary64 operations; Flocq defines them together with correctness proofs over the
# standard library's real numbers, so Print Assumptions lists the four standard axioms
# behind Coq's Reals for every statement that mentions the parser.
ALLOWED_AXIOMS = ["Classical_Prop.classic", "ClassicalDedekindReals.sig_forall_dec",
                  "ClassicalDedekindReals.sig_not_dec", "FunctionalExtensionality.functional_extensionality_dep"]
CORRESPONDENCE = "lex::scan / parse::parse_text / the datum-by-datum loop vs Model/Lex.v, Model/Parse.v"
RULE = ("random Unicode strings, token soup, mutations of generated programs (interfaces: scan, parse_text, "
        "datum-by-datum loop), and every token-boundary prefix of generated well-formed datum sequences "
        "(flagged: must be reported incomplete when the cut lies strictly inside a datum, must parse when it "
        "does not); non-trivial = the text scans to >= 2 tokens; distinct by case hash")
ASSUMPTIONS = ["well-formedness of generated data is the generator's own construction (valid atoms, balanced brackets)"]
KERNEL_SAMPLE = {"quick": 300, "thorough": 2500}
MANIFEST = dict(
    text="Coq theorems over hand-written models of lex.rs and parse.rs: the scanner is total and its tokens tile the text (non-empty, in bounds, on character boundaries, ordered, separated only by whitespace/comments); the parser consumes exactly one datum, its answer is independent of what follows, every proper token-prefix of a datum is Incomplete and a complete datum never is; parse_text's remaining text is the suffix at the next token. Tied to /repo by differential runs on random/soup/mutated texts and all token-boundary prefixes of generated data (impl / extracted model / vm_compute).",
    design="DESIGN.md section 5 C11",
    note="Trusted: Coq kernel; hand-written model tied by sampling correspondence; number literal decoding is delegated to Model/NumFmt.v (its totality is a separate obligation); front-end loops (REPL validator, wasm) are modelled by the datum-by-datum loop of interface 5 only; extraction/driver cross-checked in-kernel on a sub-sample. Axioms: scanner theorems closed under the global context; theorems mentioning the parser inherit, through Flocq's binary64 definitions used by the number-literal decoder, the four standard-library axioms of Coq's Reals (Classical_Prop.classic, ClassicalDedekindReals.sig_forall_dec, sig_not_dec, FunctionalExtensionality.functional_extensionality_dep).",
    technique="Rocq/Coq proof (induction on fuel/token lists) + model/implementation correspondence check")

SYMS = ["a", "b", "foo", "+", "-", "...", "a.b", "x1", "set!", "λ", "->x", "list", "quote", "<=?", "if", "1+", "-x", ".a"]
INTS = ["0", "1", "-7", "42", "+5", "123456789012345678901234567890", "-9223372036854775808"]
NUMS = INTS + ["1/2", "-3/4", "1.5", "-0.0", ".5", "1e3", "6.02e23", "#x1F", "#b101", "#e1.5", "#i3", "#o17", "#d9", "#x-a", "#e#x10", "#x#e10", "#i#b101"]
CHARS = ["#\\a", "#\\space", "#\\newline", "#\\x41", "#\\λ", "#\\(", "#\\tab", "#\\x3bb", "#\\1", "#\\;"]
STRS = ['""', '"a"', '"a b"', '"\\n"', '"\\""', '"\\\\"', '"\\x41;"', '"(λ)"', '";"', '"a\\tb"']
BOOLS = ["#t", "#f"]
import os
USE_NUMS = NUMS


def gen_datum(rng, depth):
    """returns a list of token strings forming ONE well-formed datum"""
    r = rng.random()
    if depth <= 0 or r < 0.45:
        k = rng.random()
        if k < 0.35: return [rng.choice(SYMS)]
        if k < 0.6:
            # a radix/exactness prefix is a token of its own for the scanner: keep it a
            # separate generator token so that cuts between prefix and digits are produced
            n = rng.choice(USE_NUMS)
            toks = []
            while n.startswith("#") and len(n) > 2 and n[1] in "xbodei":
                toks.append(n[:2]); n = n[2:]
            if rng.random() < 0.15 and not toks:
                toks = [rng.choice(["#x", "#e", "#d", "#b", "#i", "#o"])] if n.isdigit() and set(n) <= set("01") else toks
            return toks + [n]
        if k < 0.72: return [rng.choice(CHARS)]
        if k < 0.87: return [rng.choice(STRS)]
        return [rng.choice(BOOLS)]
    if r < 0.58:
        return [rng.choice(["'", "`", ","])] + gen_datum(rng, depth - 1)
    if r < 0.68:
        toks = ["#("]
        for _ in range(rng.randint(0, 3)):
            toks += gen_datum(rng, depth - 1)
        return toks + [")"]
    op, cl = rng.choice([("(", ")"), ("(", ")"), ("[", "]"), ("{", "}")])
    toks = [op]
    n = rng.randint(0, 4)
    for _ in range(n):
        toks += gen_datum(rng, depth - 1)
    if n > 0 and rng.random() < 0.2:
        toks += ["."] + gen_datum(rng, depth - 1)
    return toks + [cl]


def render(rng, toks):
    """join tokens with separators that keep them apart; returns text and the char offsets after each token"""
    out, ends = "", []
    for i, t in enumerate(toks):
        if i > 0:
            prev = toks[i - 1]
            tight_ok = prev in ("(", "[", "{", "'", "`", ",", "#(") or t in (")", "]", "}")
            if tight_ok and rng.random() < 0.5 and not (prev in ("'", "`", ",") and False):
                sep = ""
            else:
                sep = rng.choice([" ", " ", "\n", "  ", "\t", " ; c\n", "\u00a0"])
            # a symbol/number followed tightly by a closing bracket is fine; '.' must stay separate
            if t == "." or prev == ".":
                sep = sep or " "
            out += sep
        out += t
        ends.append(len(out))
    return out, ends


def cps(s):
    return [ord(c) for c in s]


def corpus():
    out = []
    for s, flag in [("#x", 1), ("(+ 1 #x", 1), ("'(a . #b", 1), ("#(1 #d", 1), ("#e#x", 1), ("#xff", 2), ("(+ 1 #x1f)", 2)]:
        out.append([6, flag] + cps(s))
    for s in ["(a . b) c", "'(1 2 #(x \"s\\n\" #\\a)) ", "(1", "#\\x41 #\\space", ")", "\"\\x41;b\"", "(a . )", "#(1 . 2)",
              "[a}", "#xff #b101 #e12", "12abc", "( 1 2", "`(a ,b)", "", "   ; only a comment", "#", "#\\", "\"abc", "a;b\nc",
              "(a . b . c)", "(. a)", "#x", "#x #e", "'", "#(", "( ' )", "#\\xD800", "\"\\xD800;\"", "\"\\q\"", "#true", "1.2.3", ".", ". .", "..", "a . b"]:
        c = cps(s)
        out += [[1] + c, [4] + c, [5] + c]
    return out


def generate(rng, tier):
    n = 1 if tier == "quick" else 12
    cases = []
    dist = {"random_unicode": 0, "soup": 0, "mutated": 0, "prefix_cut_inside": 0, "prefix_cut_boundary": 0, "complete": 0}
    pool = list("()[]{}'`,.#\"\\;|") + list("abcxyz0123456789+-/ \n\t") + ["λ", "\u00a0", "\u0085", "é", "中", "😀", "\x07", "\x7f", "#\\", "#(", "#t", "#x"]
    # random unicode / soup
    for _ in range(12000 * n):
        k = rng.random()
        if k < 0.35:
            s = "".join(rng.choice(pool) for _ in range(rng.randint(0, 24)))
            dist["random_unicode"] += 1
        elif k < 0.5:
            s = "".join(chr(c) for c in (rng.choice([rng.randrange(0x20, 0x7f), rng.randrange(0x80, 0x400), rng.randrange(0, 0x20),
                                                      rng.choice([0x2028, 0x3000, 0xfeff, 0x10ffff, 0xd7ff, 0xe000, 0x1f600])])
                                         for _ in range(rng.randint(0, 12))))
            dist["random_unicode"] += 1
        else:
            toks = []
            for _ in range(rng.randint(1, 10)):
                toks.append(rng.choice(SYMS + USE_NUMS + CHARS + STRS + BOOLS + ["(", ")", "[", "]", "{", "}", "'", "`", ",", ".", "#(", "#x", "#e"]))
            s = "".join(t + rng.choice(["", " ", " ", "\n"]) for t in toks)
            dist["soup"] += 1
        c = cps(s)
        cases.append([rng.choice([1, 4, 5])] + c)
    # well-formed datum sequences, their mutations and all token-boundary prefixes
    for _ in range(2500 * n):
        toks, bounds = [], []           # bounds = token indices after which a datum is complete
        for _ in range(rng.randint(1, 3)):
            toks += gen_datum(rng, 3)
            bounds.append(len(toks))
        text, ends = render(rng, toks)
        cases.append([6, 2] + cps(text)); dist["complete"] += 1
        cases.append([5] + cps(text))
        first = bounds[0]
        for k in range(1, len(toks)):
            cut = text[:ends[k - 1]]
            if k < first:
                cases.append([6, 1] + cps(cut)); dist["prefix_cut_inside"] += 1
            elif k in bounds:
                cases.append([6, 2] + cps(cut)); dist["prefix_cut_boundary"] += 1
        if text:
            for _ in range(2):
                i = rng.randrange(len(text))
                m = rng.choice([text[:i] + text[i + 1:], text[:i] + rng.choice(pool) + text[i:], text[:i] + rng.choice(pool) + text[i + 1:]])
                cases.append([rng.choice([1, 4, 5])] + cps(m)); dist["mutated"] += 1
    return cases, dist


def _tokens_from_line(line):
    toks = []
    for w in line.split(" ")[1:]:
        span, ty = w.split(":")
        a, b = span.split("-")
        toks.append((int(a), int(b), ty))
    return toks


def _skippable(cps_seg):
    """whitespace characters and ;...\\n comments only"""
    i, n = 0, len(cps_seg)
    while i < n:
        c = cps_seg[i]
        if c == 59:
            while i < n and cps_seg[i] != 10:
                i += 1
            i += 1
        elif pylex.is_ws(c):
            i += 1
        else:
            return False
    return True


def oracle(case, impl_line):
    iface = case[0]
    text = case[1:] if iface in (1, 4, 5) else case[2:]
    if impl_line == "PANIC" or impl_line.startswith(("ABORT", "TIMEOUT")):
        return "panic: the reader must return a value or an error (%s)" % impl_line
    if iface == 1:
        if impl_line.startswith("ERR"):
            return None
        if not impl_line.startswith("OK"):
            return "malformed: %r" % impl_line[:60]
        toks = _tokens_from_line(impl_line)
        offs, o = {0: 0}, 0
        for i, c in enumerate(text):
            o += pylex.u8(c); offs[o] = i + 1
        prev = 0
        for (a, b, ty) in toks:
            if not (a < b <= o):
                return "span: token %d-%d empty or out of bounds" % (a, b)
            if a not in offs or b not in offs:
                return "boundary: token %d-%d not on character boundaries" % (a, b)
            if a < prev:
                return "order: token %d-%d overlaps its predecessor" % (a, b)
            if not _skippable(text[offs[prev]:offs[a]]):
                return "gap: text between tokens is not whitespace/comments before %d" % a
            prev = b
        if not _skippable(text[offs[prev]:]):
            return "gap: trailing text is not whitespace/comments"
        st, ptoks = pylex.scan(text)
        if st != "OK" or [(a, b, ty) for a, b, ty in ptoks] != toks:
            return "tokens: token list differs from the lexical grammar"
        return None
    if iface in (4, 6):
        st, ptoks = pylex.scan(text)
        if impl_line.startswith("OK "):
            body = impl_line[3:]
            if body.endswith(" NONE"):
                pass
            else:
                off = int(body.rsplit(" REST ", 1)[1])
                if st == "OK" and off not in [t[0] for t in ptoks]:
                    return "remaining: remaining text does not start at a token"
        if iface == 6:
            flag = case[1]
            if flag == 1 and impl_line != "ERR incomplete":
                return "incomplete: cut inside a well-formed datum must be reported incomplete, got %r" % impl_line[:40]
            if flag == 2 and not impl_line.startswith("OK "):
                return "complete: a complete well-formed datum was rejected: %r" % impl_line[:40]
        return None
    return None


def nontrivial(case, impl_line):
    text = case[1:] if case[0] in (1, 4, 5) else case[2:]
    st, toks = pylex.scan(text)
    return st == "OK" and len(toks) >= 2


def describe(case):
    names = {1: "scan", 4: "parse_text", 5: "parse_all", 6: "parse_text(flagged)"}
    text = case[1:] if case[0] in (1, 4, 5) else case[2:]
    d = {"iface": names.get(case[0]), "text": "".join(chr(c) for c in text)}
    if case[0] == 6:
        d["expect"] = {1: "incomplete", 2: "ok"}[case[1]]
    return d


def reductions(case):
    if case[0] == 6:
        return          # the expectation flag is only valid for the text it was generated with
    h = 1 if case[0] in (1, 4, 5) else 2
    head, text = case[:h], case[h:]
    for i in range(len(text)):
        yield head + text[:i] + text[i + 1:]


def neighbours(case, rng):
    h = 1 if case[0] in (1, 4, 5) else 2
    text = case[h:]
    out = []
    for iface in (1, 4, 5):
        out.append([iface] + text)
        for i in range(len(text)):
            out.append([iface] + text[:i])
    return out
