"""C18 — symbols are interned: same name iff eq?, across collections and conversions.

Own flow, two interfaces:
 65  string->symbol / symbol->string on strings over Unicode (empty, delimiters, backslash, digit-initial,
     whitespace, control characters, astral planes): implementation vs extracted model vs vm_compute, plus the
     Python statement of the round trip  symbol->string (string->symbol s) = s.
 64  names x pairs of production routes (literal in code, quoted datum, string->symbol, macro output, eval)
     x collection schedules between the two productions, within one evaluation and across evaluations:
     (eq? a b), (string=? (symbol->string a) (symbol->string b)), (symbol=? a b) must all be #t for equal
     names and #f for different ones — Python oracle, no model involved; the harness's symbol-table/heap
     consistency check runs after every forced collection (indep=ok).
Recorded open classes (Props/C18.v refutations): reader symbols whose first character is not
identifier-initial (+, -x, ..., 1+) are not eq? to string->symbol of the same text; reader symbols containing a
backslash.
"""
import json, os, random, sys, time
import common as C
import c03

PID = "C18"
ALLOWED_AXIOMS = []
PROFILES = ["debug"]
CORRESPONDENCE = "vm/builtin/symbol.rs string_symbol / symbol_string (+ parse.rs parse_string) vs Model/SymbolB.v (interface 65)"
RULE = ("65: strings from a palette (empty, one char, identifier-like, delimiters ()[]\"';`, backslash and escape letters, "
        "digit-initial, + - . @, whitespace, control, Latin-1, BMP, astral) of length 0..8, ops {encode, decode, round trip}; "
        "64: identifier names (plain and the peculiar + - ... -x 1+) x ordered pairs of the 5 routes x {same name, different "
        "name} x schedules {none, every instruction, random} x {one evaluation, across evaluations} with garbage produced "
        "between the two productions; non-trivial: a 65 case whose encoding contains an escape or a 64 case under a schedule "
        "with at least one checked collection; distinct by case hash")
ASSUMPTIONS = [
    "eq? on symbols is equality of heap addresses (compare.rs:29); every route allocates symbols through Heap::put / put_cell (model-level argument, Props/C18.v)",
    "the stored name of a string->symbol result is the ENCODED text (a\\x20;b for \"a b\"); name equality is equality of stored names",
]
TRUSTED_BASE = ["hooks marwood/src/vm/verif.rs (forced collections, symbol table accessor)"]
MANIFEST = dict(
    text="Coq theorems: the interning invariant (symtab n = Some a iff cell a is allocated and holds symbol n) holds for a new heap and is preserved by alloc, put, maybe_put, put_cell, maybe_put_cell, free, sweep, grow and a whole collection; same name iff same cell; put interns; a reachable symbol keeps cell and entry across a collection; symbol->string inverts string->symbol for every string of scalar values (after fix F10; refuted for the pinned code); string->symbol inverts symbol->string on made symbols and on plain identifiers, refuted on two recorded classes; the two routes stated together for ALL names (C18_same_name_same_symbol: the symbol the reader interns for a spelling and the symbol string->symbol makes, in either order, are the same cell iff the names are equal, and eq? answers accordingly; the same spelling gives the same cell for every plain identifier, refuted for + at the level of cells). Tied to /repo by names x routes x schedules sessions and by a 3-way check of the two builtins.",
    design="DESIGN.md section 5 C18",
    note="fix F10 applied (symbol.rs). Open findings: non-initial-first-char, backslash-in-reader-symbol (decidable predicates known_first_char_not_initial / known_backslash_in_symbol in Proofs/SymbolProofs.v). The claim that every route goes through Heap::put rests on the compiler model of another package. Axioms: none.",
    technique="Rocq/Coq proof (heap invariant, induction on strings) + correspondence check under forced-collection schedules")

PALETTE = [40, 41, 91, 93, 34, 39, 59, 96, 44, 92, 92, 120, 110, 116, 97, 98, 65, 122, 48, 57, 43, 45, 46, 64,
           32, 9, 10, 13, 0, 7, 27, 127, 0x85, 0xa0, 0xe9, 0xff, 0x100, 0x3bb, 0x4e2d, 0xffff, 0x10000, 0x1f600, 0x10ffff,
           33, 36, 37, 38, 42, 47, 58, 60, 61, 62, 63, 94, 95, 126, 35, 124, 123]


def hex_esc(c):
    return [92, 120] + [ord(x) for x in "%x" % c] + [59]


def is_alpha_latin1(c):
    return (65 <= c <= 90) or (97 <= c <= 122) or c in (0xAA, 0xB5, 0xBA) or 0xC0 <= c <= 0xD6 or 0xD8 <= c <= 0xF6 or 0xF8 <= c <= 0xFF


def is_initial(c):
    return is_alpha_latin1(c) or c > 0xFF or c in (33, 36, 37, 38, 42, 47, 92, 58, 60, 61, 62, 63, 94, 95, 126)


def is_subsequent(c):
    return is_initial(c) or 48 <= c <= 57 or c in (43, 45, 46, 64, 59)


def esc(cps):
    return "".join(chr(c) if 32 <= c <= 126 and c != 92 else "\\u{%x}" % c for c in cps)


def gen65(rng, n):
    cases = [[65, 2], [65, 0], [65, 1], [65, 2, 97, 92, 98], [65, 0, 43], [65, 1, 43], [65, 2, 92], [65, 2, 92, 92],
             [65, 1, 97, 92], [65, 1, 92, 120, 52, 49], [65, 1, 92, 120, 122, 59], [65, 1, 92, 120, 100, 56, 48, 48, 59],
             [65, 1, 92, 120] + [102] * 9 + [59], [65, 2, 32], [65, 2, 49, 43], [65, 2, 46, 46, 46]]
    for _ in range(n):
        ln = rng.choice([0, 1, 1, 2, 3, 4, 5, 8])
        s = []
        for _ in range(ln):
            r = rng.random()
            if r < 0.8:
                s.append(rng.choice(PALETTE))
            else:
                c = rng.randrange(0x110000)
                s.append(c if not 0xD800 <= c <= 0xDFFF else 0x41)
        cases.append([65, rng.choice([0, 1, 2, 2, 2])] + s)
    return cases


def oracle65(case, line):
    if line == "PANIC" or c03.crashed(line):
        return "panic: symbol conversion must not panic (%s)" % line[:40]
    if case[1] == 2:
        want = "OK " + esc(case[2:])
        if line != want:
            return "roundtrip: (symbol->string (string->symbol s)) is not s: got %r" % line[:120]
    return None


# ------------------------------------------------------------------ routes
ROUTES = ["literal", "quoted-datum", "string->symbol", "macro", "eval"]
PLAIN_NAMES = ["a", "foo", "list->vector", "x1", "set-car!", "<=?", "a.b", "k@1", "λ", "變數", "*star*", "$%&", "t+", "q-"]
PECULIAR = ["+", "-", "...", "-x", "1+", "+a", "-1x", ".a", "a\\b"]


def plain(name):
    cps = [ord(c) for c in name]
    return bool(cps) and is_initial(cps[0]) and all(is_subsequent(c) for c in cps[1:]) and 92 not in cps


def strlit(name):
    out = '"'
    for ch in name:
        if ch in '"\\':
            out += "\\" + ch
        else:
            out += ch
    return out + '"'


def route_expr(route, name, tag):
    if route == "literal":
        return "((lambda () '%s))" % name, ""
    if route == "quoted-datum":
        return "(car (cdr '(zz %s yy)))" % name, ""
    if route == "string->symbol":
        return "(string->symbol %s)" % strlit(name), ""
    if route == "macro" and name != "...":      # ... is the ellipsis inside a template
        return "(mac-%s)" % tag, "(define-syntax mac-%s (syntax-rules () ((_) '%s))) " % (tag, name)
    if route == "macro":
        return "(car (cdr '(zz %s yy)))" % name, ""
    return "(eval '(quote %s))" % name, ""


GARBAGE = "(let g ((i 0) (acc '())) (if (< i %d) (g (+ i 1) (cons (string->symbol (string-append \"junk\" (number->string i))) acc)) (length acc)))"


def route_program(r1, n1, r2, n2, across, ngarbage):
    e1, d1 = route_expr(r1, n1, "a")
    e2, d2 = route_expr(r2, n2, "b")
    cmp_ = "(list (eq? a b) (string=? (symbol->string a) (symbol->string b)) (symbol=? a b) (eq? b a))"
    if across:
        return "%s%s(define a %s) %s (define b %s) %s" % (d1, d2, e1, GARBAGE % ngarbage, e2, cmp_)
    return "%s%s(let* ((a %s) (junk %s) (b %s)) %s)" % (d1, d2, e1, GARBAGE % ngarbage, e2, cmp_)


def expected_cmp(same):
    return "(#t #t #t #t)" if same else "(#f #f #f #f)"


def known_class64(meta):
    """class predicates as narrow as the code branch: the reader keeps the token text, string->symbol
    hex-escapes a first character that is not identifier-initial / the reader keeps a backslash"""
    r1, n1, r2, n2 = meta["r1"], meta["n1"], meta["r2"], meta["n2"]
    if n1 != n2 or (r1 == "string->symbol") == (r2 == "string->symbol"):
        return None
    if "\\" in n1:
        return "backslash-in-reader-symbol"
    if not is_initial(ord(n1[0])):
        return "non-initial-first-char"
    return None


def main(tier="quick", seed=0, replay=None):
    rep = C.Report(PID, tier, seed)
    rng = random.Random((seed, PID).__repr__())
    try:
        exe = C.build_harness("debug")
        model_exe = C.build_model()
    except C.BuildError as e:
        print("CHECK-ERROR: " + str(e)[-3000:])
        return 2
    if replay:
        data = json.load(open(replay))
        for c in data.get("cases") or ([data["case"]] if data.get("case") else []):
            print("case     :", C.case_line(c)[:1500])
            if c[0] == 65:
                il = C.run_impl(exe, [c])[0]
                print("readable :", json.dumps({"op": ["string->symbol", "symbol->string", "roundtrip"][c[1]], "text": esc(c[2:])}))
                print("impl     :", il[:1500])
                print("model    :", C.run_model(model_exe, [c])[0][:1500])
                print("oracle   :", oracle65(c, il) or "ok")
            else:
                print("readable :", json.dumps(c03.describe(c))[:2000])
                none = [c[0], 0, 0, 0, 0, 0, c[6]] + c[7:]
                il, nl = C.run_impl(exe, [c, none])
                print("impl     :", il[:1500])
                print("impl/none:", nl[:1500])
                if data.get("expected"):
                    print("expected :", data["expected"])
        if data.get("broken"):
            print("broken   :", data["broken"])
        return 0

    props = C.check_props(PID, ALLOWED_AXIOMS, thorough=(tier == "thorough"))

    # ---------------------------------------------------------------- 65
    c65 = gen65(rng, 15000 if tier == "quick" else 300000)
    i65 = C.run_impl(exe, c65)
    m65 = C.run_model(model_exe, c65)
    nk = 300 if tier == "quick" else 3000
    try:
        kbad = C.kernel_crosscheck(c65[:nk], m65[:nk], PID)
    except C.BuildError as e:
        print("CHECK-ERROR: kernel cross-check failed to run: " + str(e)[-2000:])
        return 2
    if kbad:
        print("CHECK-ERROR: extracted model and vm_compute disagree on case %s" % C.case_line(c65[kbad[0]])[:300])
        return 2
    nontrivial, viol, dis65 = set(), [], []
    for c, il, ml in zip(c65, i65, m65):
        msg = oracle65(c, il)
        if msg:
            viol.append((c, msg, None))
        elif il != ml:
            dis65.append(c)
        elif "\\u{5c}x" in il or c[1] == 1:
            nontrivial.add(C.digest(c))

    # ---------------------------------------------------------------- 64
    known = {f["id"]: f for f in C.load_known(PID)}
    names = PLAIN_NAMES + PECULIAR
    cases, metas = [], []
    npairs = 0
    pairs = [(a, b) for a in ROUTES for b in ROUTES]
    reps = 1 if tier == "quick" else 8
    for _ in range(reps):
        for name in names:
            for (r1, r2) in (pairs if tier == "thorough" else rng.sample(pairs, 9)):
                for same in (True, False):
                    n2 = name if same else rng.choice([x for x in names if x != name])
                    across = rng.random() < 0.5
                    text = route_program(r1, name, r2, n2, across, rng.randint(0, 12))
                    chunk = rng.choice([0, 1024])
                    npairs += 1
                    for (mode, k, sd) in [(0, 0, 0), (1, 1, 0), (2, rng.randint(2, 7), rng.randint(1, 10 ** 9))]:
                        cases.append(c03.session_case(mode, k, sd, 0, 0, chunk, text, iface=64))
                        metas.append({"r1": r1, "n1": name, "r2": r2, "n2": n2, "same": same, "across": across})
    # strings whose interned name needs escapes, against the string that SPELLS that
    # interned name: two different strings, hence two different symbols, whatever is
    # already in the symbol table (string->symbol route only: these are not reader names)
    def sym_encode(name):
        out = ""
        for i, ch in enumerate(name):
            c = ord(ch)
            if ch == "\\":
                out += "\\x5c;"
            elif (i == 0 and is_initial(c)) or (i > 0 and is_subsequent(c)):
                out += ch
            else:
                out += "\\x%x;" % c
        return out
    esc_names = [" foo", "12", "a b", "(x)", "#t", "'q", "1+", "+", "a\\b", "x y z", "\u03bb x", ".5"]
    for name in esc_names:
        spelled = sym_encode(name)
        for (n1, n2, same) in [(name, spelled, False), (spelled, name, False), (name, name, True), (spelled, spelled, True)]:
            for across in (True, False):
                text = route_program("string->symbol", n1, "string->symbol", n2, across, rng.randint(0, 12))
                npairs += 1
                for (mode, k, sd) in [(0, 0, 0), (1, 1, 0), (2, rng.randint(2, 7), rng.randint(1, 10 ** 9))]:
                    cases.append(c03.session_case(mode, k, sd, 0, 0, rng.choice([0, 1024]), text, iface=64))
                    metas.append({"r1": "string->symbol", "n1": n1, "r2": "string->symbol", "n2": n2, "same": same, "across": across})
    C.log("[C18] %d conversion cases, %d route sessions" % (len(c65), len(cases)))
    t0 = time.time()
    lines = C.run_impl(exe, cases, timeout=3000)
    C.log("[C18] sessions ran in %.1fs" % (time.time() - t0))
    route_cov = {}
    for c, m, line in zip(cases, metas, lines):
        if c03.crashed(line):
            viol.append((c, "crash: route session died (%s)" % line[:40], None))
            continue
        res, info, _ = c03.split_line(line)
        want = expected_cmp(m["same"])
        got = res.split(" |")[0].rstrip().split("OK ")[-1].strip()
        fid = known_class64(m)
        if got != want:
            if fid and fid in known:
                rep.known(fid, known[fid]["what"])
                continue
            viol.append((c, "identity: routes %s/%s names %r/%r: comparisons %s, expected %s"
                         % (m["r1"], m["r2"], m["n1"], m["n2"], got, want), want))
            continue
        if info.get("indep", "ok") != "ok":
            viol.append((c, "symtab-consistency: " + info["indep"][:300], want))
            continue
        if int(info.get("checked", 0)) > 0:
            nontrivial.add(C.digest(c))
        key = "%s/%s" % (m["r1"], m["r2"])
        route_cov[key] = route_cov.get(key, 0) + 1

    seen = set()
    for c, msg, want in viol:
        key = msg.split(":")[0]
        if key in seen:
            continue
        seen.add(key)
        payload = {"case": c, "oracle": msg}
        if c[0] == 65:
            payload.update({"readable": {"op": c[1], "text": esc(c[2:])}, "impl": C.run_impl(exe, [c])[0],
                            "model": C.run_model(model_exe, [c])[0]})
        else:
            payload.update({"readable": c03.describe(c), "impl": C.run_impl(exe, [c])[0][:2000], "expected": want})
        rep.violation(payload)
    broken = []
    if not props["ok"]:
        broken.append("proof: " + "; ".join(props["problems"])[:1500])
    if dis65 and not rep.violations:
        broken.append("correspondence %s: %d case(s)" % (CORRESPONDENCE, len(dis65)))
        c = min(dis65, key=len)
        rep.violation({"case": c, "readable": {"op": c[1], "text": esc(c[2:])}, "impl": C.run_impl(exe, [c])[0],
                       "model": C.run_model(model_exe, [c])[0],
                       "broken": "string->symbol/symbol->string differ from Model/SymbolB.v; theorems relying on it: "
                                 "C18_symbol_string_roundtrip, C18_string_symbol_roundtrip_main",
                       "n_disagreements": len(dis65)}, no_input=True)
    if not props["ok"] and not rep.violations:
        rep.violation({"broken": "proof obligation no longer checks: %s (%s)"
                                 % (props.get("broken_at", props["file"]), "; ".join(props["problems"])[:1500]),
                       "cases": []}, no_input=True)

    samples = [{"op": c65[i][1], "text": esc(c65[i][2:]), "impl": i65[i], "model": m65[i]} for i in (3, 20, 21)]
    samples += [{"readable": c03.describe(cases[i]), "impl": lines[i][:200]} for i in (1, 40) if i < len(cases)]
    for t in props["theorems"][:4]:
        samples.append({"obligation": "%s.%s" % (props["file"], t)})
    rep.coverage = {
        "obligations": props["obligations"], "discharged": props["discharged"],
        "checker_cmd": "make -C coq %so  (coqc 8.16.1, full .vo; property file recompiled in this run%s)"
                       % (props["file"], "; cone rebuilt from clean + coqchk -o" if tier == "thorough" else ""),
        "trusted_base": C.TRUSTED_BASE_COMMON + TRUSTED_BASE,
        "theorems": props["theorems"], "axioms_reported": props["axioms"],
        "cone_files": props.get("cone_files", []), "proof_problems": props["problems"],
        "evaluations": len(c65) + len(cases), "distinct_nontrivial": len(nontrivial),
        "rule": RULE, "samples": samples, "exhaustive": False, "profiles": PROFILES,
        "kernel_crosscheck": min(nk, len(c65)),
        "conversion_cases": len(c65), "conversion_disagreements": len(dis65),
        "route_sessions": len(cases), "name_route_pairs": npairs, "oracle_failures": len(viol),
        "distribution": {"routes": route_cov, "names": names, "schedules": ["none", "every 1", "random"]},
        "known_findings_seen": sorted(rep.known_seen), "broken": broken,
    }
    if "coqchk" in props:
        rep.coverage["coqchk"] = props["coqchk"]
    rep.assumptions = ASSUMPTIONS
    return rep.finish()
