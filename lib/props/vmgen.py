"""vmgen.py — shared pieces of the VM property modules (C04, C07, C13): the case
encoding of the wire interfaces 70-75, parsers of their result lines, and a generator
of small terminating Scheme programs (recursion, loops, closures, call/cc escapes and
re-entry, errors at various depths, display output, global effects).

Vocabulary: only what Model/Builtins.v models at the moment (integers, pairs/lists,
predicates, eq?/eqv?, apply, call/cc, error, eval, display, write, and the prelude's
Scheme-level procedures on top of those); no member/assoc/equal?, no strings beyond
literals handed to display/error, no vectors, no floats."""
import re

# ------------------------------------------------------------------ encoding
NHEAD = {70: 1, 71: 1, 72: 2, 73: 3, 74: 1, 75: 1, 77: 2}


def enc(head, forms):
    """head = [iface, params...]; forms = list of texts"""
    c = list(head) + [len(forms)]
    for f in forms:
        c.append(len(f))
        c += [ord(ch) for ch in f]
    return c


def dec(case):
    """-> (head, forms) or (head, None) when the case is not well formed"""
    nh = NHEAD.get(case[0] if case else 0)
    if nh is None or len(case) < nh + 1:
        return list(case[:1]), None
    head, rest = list(case[:nh]), case[nh:]
    n, i, forms = rest[0], 1, []
    for _ in range(n):
        if i >= len(rest):
            return head, None
        ln = rest[i]
        i += 1
        if i + ln > len(rest):
            return head, None
        try:
            forms.append("".join(chr(x) for x in rest[i:i + ln]))
        except (ValueError, OverflowError):
            return head, None
        i += ln
    if i != len(rest):
        return head, None
    return head, forms


# ------------------------------------------------------------- result lines
BAD_WORDS = ("PANIC", "ABORT", "TIMEOUT", "BADCASE", "BOOTFAIL", "NOFUEL")


def split_forms(line):
    """'SESSION | a | b LOG x' -> (tag, [' a', ' b'], ' x' or None); the generators never
    produce values containing ' |' or ' LOG'"""
    log = None
    if " LOG" in line:
        line, log = line.rsplit(" LOG", 1)
    parts = line.split(" |")
    return parts[0], parts[1:], log


DATUM74 = re.compile(r" (OK .*?|ERR user .*?|ERR|PANIC|NOFUEL) \[sp=(\d+) bp=(\d+) cap=(\d+) frames=(\d+|-)\]")
DATUM75 = re.compile(r" (OK .*?|ERR user .*?|ERR|PANIC|NOFUEL) hw=(\d+)(?= OK | ERR| PANIC| NOFUEL|$)")


def parse74(line):
    """-> list (per form) of lists of (result, sp, bp, cap, frames) ; a read error that
    ends a form is (result, None, None, None, None)"""
    tag, forms, _ = split_forms(line)
    if tag != "STATE":
        return None
    out = []
    for f in forms:
        ds, pos = [], 0
        for m in DATUM74.finditer(f):
            if m.start() != pos:
                return None
            fr = m.group(5)
            ds.append((m.group(1), int(m.group(2)), int(m.group(3)), int(m.group(4)), None if fr == "-" else int(fr)))
            pos = m.end()
        tail = f[pos:]
        if tail:
            if tail in (" ERR", " ERR incomplete", " PANIC", " NOFUEL"):
                ds.append((tail[1:], None, None, None, None))
            else:
                return None
        out.append(ds)
    return out


def parse75(line):
    """-> list (per form) of lists of (result, hw)"""
    tag, forms, _ = split_forms(line)
    if tag != "HW":
        return None
    out = []
    for f in forms:
        ds, pos = [], 0
        for m in DATUM75.finditer(f):
            if m.start() != pos:
                return None
            ds.append((m.group(1), int(m.group(2))))
            pos = m.end()
        tail = f[pos:]
        if tail:
            if tail in (" ERR", " ERR incomplete", " PANIC", " NOFUEL"):
                ds.append((tail[1:], None))
            else:
                return None
        out.append(ds)
    return out


# ------------------------------------------------------- program generator
# Library definitions a program may use (name -> text).  All terminate on the
# arguments the generator passes.
LIB = {
    "fact": "(define (fact n) (if (= n 0) 1 (* n (fact (- n 1)))))",
    "fib": "(define (fib n) (if (< n 2) n (+ (fib (- n 1)) (fib (- n 2)))))",
    "sum-to": "(define (sum-to i acc) (if (= i 0) acc (sum-to (- i 1) (+ acc i))))",
    "deep": "(define (deep n th) (if (= n 0) (th) (+ 1 (deep (- n 1) th))))",
    "count": "(define (count-down n) (cond ((= n 0) 'done) (else (count-down (- n 1)))))",
    "even?": "(define (ev? n) (if (= n 0) #t (od? (- n 1)))) (define (od? n) (if (= n 0) #f (ev? (- n 1))))",
    "make-counter": "(define (make-counter) (let ((n 0)) (lambda () (set! n (+ n 1)) n)))",
    "make-acc": "(define (make-acc total) (lambda (d) (set! total (+ total d)) total))",
    "compose": "(define (compose f g) (lambda (x) (f (g x))))",
    "iota": "(define (iota-up a b) (if (< a b) (cons a (iota-up (+ a 1) b)) '()))",
    "fold": "(define (fold f z l) (if (null? l) z (fold f (f z (car l)) (cdr l))))",
    "filter": "(define (filter p l) (cond ((null? l) '()) ((p (car l)) (cons (car l) (filter p (cdr l)))) (else (filter p (cdr l)))))",
    "find-first": "(define (find-first p l) (call/cc (lambda (ret) (for-each (lambda (x) (if (p x) (ret x))) l) #f)))",
    "try": "(define (try th) (call/cc (lambda (k) (th k))))",
    "tree-sum": "(define (tree-sum t) (cond ((null? t) 0) ((pair? t) (+ (tree-sum (car t)) (tree-sum (cdr t)))) (else t)))",
    "rev": "(define (rev l acc) (if (null? l) acc (rev (cdr l) (cons (car l) acc))))",
    "g": "(define g1 0) (define g2 10) (define gc1 (list 1 2 3))",
    "k": "(define k0 #f) (define kn 0)",
}
ERRORS = ["(car 5)", "nope", "(nope 1)", "(error \"boom\" 1 'x)", "((lambda (x) x))", "(5 5)", "(car '())", "(cdr '())",
          "(error 'sym \"s\")", "((lambda (x y) x) 1)", "(set-car! 5 1)", "(apply car '(1 2))", "(eval '(if))"]
SYNTAX_ERRORS = ["(if)", "(lambda)", "(let ((x)) x)", "(define)", "(set! 5 1)", "(quote)"]


class Gen:
    """random expressions over a small typed language; self.used collects LIB names"""
    def __init__(self, rng, err_p=0.0, effects=True):
        self.rng, self.err_p, self.effects = rng, err_p, effects
        self.used = set()
        self.nvar = 0
        self.features = set()

    def fresh(self):
        self.nvar += 1
        return "v%d" % self.nvar

    def lit(self):
        return str(self.rng.choice([0, 1, 2, 3, 5, 7, -1, -4, 10, 12, 100]))

    def use(self, name):
        self.used.add(name)
        return name

    def int_(self, d, vs):
        r = self.rng
        if self.err_p and r.random() < self.err_p:
            self.features.add("error")
            return r.choice(ERRORS)
        if d <= 0 or r.random() < 0.18:
            if vs and r.random() < 0.6:
                return r.choice(vs)
            return self.lit()
        k = r.randrange(30)
        d1 = d - 1
        if k == 0:
            return "(+ %s %s)" % (self.int_(d1, vs), self.int_(d1, vs))
        if k == 1:
            return "(- %s %s)" % (self.int_(d1, vs), self.int_(d1, vs))
        if k == 2:
            return "(* %s %s)" % (self.int_(d1, vs), r.choice(["2", "3", "-1"]))
        if k == 3:
            return "(if %s %s %s)" % (self.bool_(d1, vs), self.int_(d1, vs), self.int_(d1, vs))
        if k == 4:
            v = self.fresh()
            return "(let ((%s %s)) %s)" % (v, self.int_(d1, vs), self.int_(d1, vs + [v]))
        if k == 5:
            v, w = self.fresh(), self.fresh()
            return "(let* ((%s %s) (%s %s)) %s)" % (v, self.int_(d1, vs), w, self.int_(d1, vs + [v]), self.int_(d1, vs + [v, w]))
        if k == 6:
            self.features.add("named-let")
            i, a = self.fresh(), self.fresh()
            return "(let lp ((%s %d) (%s 0)) (if (= %s 0) %s (lp (- %s 1) (+ %s %s))))" % (
                i, r.randint(1, 6), a, i, a, i, a, self.int_(d1 - 1, vs + [i]))
        if k == 7:
            v = self.fresh()
            return "((lambda (%s) %s) %s)" % (v, self.int_(d1, vs + [v]), self.int_(d1, vs))
        if k == 8:
            return "(%s (list %s %s))" % (r.choice(["car", "cadr"]), self.int_(d1, vs), self.int_(d1, vs))
        if k == 9:
            self.features.add("callcc-escape")
            kk = self.fresh()
            return "(call/cc (lambda (%s) (+ 1 (%s %s))))" % (kk, kk, self.int_(d1, vs))
        if k == 10:
            self.features.add("callcc-noescape")
            kk = self.fresh()
            return "(call/cc (lambda (%s) %s))" % (kk, self.int_(d1, vs))
        if k == 11:
            self.features.add("apply")
            return "(apply + (list %s %s))" % (self.int_(d1, vs), self.int_(d1, vs))
        if k == 12 and self.effects:
            self.features.add("display")
            v = self.fresh()
            return "(let ((%s %s)) (display %s) %s)" % (v, self.int_(d1, vs), v, v)
        if k == 13 and self.effects:
            self.features.add("set!")
            self.use("g")
            g = r.choice(["g1", "g2"])
            return "(let () (set! %s %s) (+ %s 1))" % (g, self.int_(d1, vs), g)
        if k == 14:
            return "(cond ((< %s %s) %s) (%s %s) (else %s))" % (self.int_(d1, vs), self.int_(d1, vs), self.int_(d1, vs),
                                                              self.bool_(d1, vs), self.int_(d1, vs), self.int_(d1, vs))
        if k == 15:
            return "(case %s ((0 1 2) %s) ((3 5 7) %s) (else %s))" % (self.int_(d1, vs), self.int_(d1, vs), self.int_(d1, vs), self.int_(d1, vs))
        if k == 16:
            return "(or (and %s %s) %s)" % (self.bool_(d1, vs), self.int_(d1, vs), self.int_(d1, vs))
        if k == 17:
            self.features.add("eval")
            return "(eval (list '+ %s %s))" % (self.int_(d1, vs), self.lit())
        if k == 18:
            self.features.add("recursion")
            return "(%s %d)" % (self.use("fact"), r.randint(0, 6))
        if k == 19:
            self.features.add("recursion")
            return "(%s %d)" % (self.use("fib"), r.randint(0, 7))
        if k == 20:
            self.features.add("loop")
            return "(%s %d %s)" % (self.use("sum-to"), r.randint(0, 12), self.int_(d1, vs))
        if k == 21:
            self.features.add("depth")
            return "(%s %d (lambda () %s))" % (self.use("deep"), r.randint(1, 12), self.int_(d1, vs))
        if k == 22:
            self.features.add("map")
            v = self.fresh()
            return "(apply + (map (lambda (%s) %s) (list %s %s %s)))" % (v, self.int_(d1 - 1, vs + [v]), self.lit(), self.lit(), self.int_(d1, vs))
        if k == 23:
            return "(cdr (assv %s (list (cons 1 10) (cons 2 20) (cons %s 30))))" % (r.choice(["1", "2"]), self.lit())
        if k == 24:
            self.features.add("closure")
            c = self.fresh()
            return "(let ((%s (%s))) (%s) (+ (%s) %s))" % (c, self.use("make-counter"), c, c, self.int_(d1, vs))
        if k == 25:
            self.features.add("closure")
            a = self.fresh()
            return "(let ((%s (%s %s))) (%s 5) (%s %s))" % (a, self.use("make-acc"), self.int_(d1, vs), a, a, self.int_(d1, vs))
        if k == 26:
            self.features.add("fold")
            self.use("iota")
            return "(%s + 0 (iota-up %d %d))" % (self.use("fold"), r.randint(0, 3), r.randint(3, 7))
        if k == 27:
            self.features.add("callcc-escape")
            self.use("find-first")
            # always found (1000 exceeds every literal): #f must not reach integer arithmetic
            return "(find-first (lambda (x) (> x %s)) (list 1 5 9 %s 1000))" % (self.lit(), self.int_(d1, vs))
        if k == 28:
            self.features.add("callcc-escape")
            kk = self.fresh()
            return "(%s (lambda (%s) (+ 1 (if %s (%s %s) %s))))" % (self.use("try"), kk, self.bool_(d1, vs), kk, self.int_(d1, vs), self.int_(d1, vs))
        if k == 29:
            self.features.add("length")
            return "(length (list %s %s %s))" % (self.int_(d1, vs), self.lit(), self.lit())
        return "(+ %s 1)" % self.int_(d1, vs)

    def bool_(self, d, vs):
        r = self.rng
        if d <= 0 or r.random() < 0.2:
            return r.choice(["#t", "#f", "(= 1 1)", "(< 2 1)"])
        k = r.randrange(9)
        d1 = d - 1
        if k == 0:
            return "(< %s %s)" % (self.int_(d1, vs), self.int_(d1, vs))
        if k == 1:
            return "(= %s %s)" % (self.int_(d1, vs), self.int_(d1, vs))
        if k == 2:
            return "(not %s)" % self.bool_(d1, vs)
        if k == 3:
            return "(null? (cdr (list %s)))" % self.int_(d1, vs)
        if k == 4:
            return "(pair? (cons %s 1))" % self.int_(d1, vs)
        if k == 5:
            return "(and %s %s)" % (self.bool_(d1, vs), self.bool_(d1, vs))
        if k == 6:
            return "(or %s %s)" % (self.bool_(d1, vs), self.bool_(d1, vs))
        if k == 7:
            return "(eq? 'a '%s)" % r.choice(["a", "b"])
        self.use("even?")
        return "(ev? %d)" % r.randint(0, 9)

    def any_(self, d, vs):
        """a value of any printable type"""
        r = self.rng
        k = r.randrange(8)
        if k == 0:
            return self.bool_(d, vs)
        if k == 1:
            return "(list %s '%s (cons %s %s))" % (self.int_(d, vs), r.choice(["a", "foo", "x1"]), self.int_(d - 1, vs), self.int_(d - 1, vs))
        if k == 2:
            return r.choice(["'(1 (2 3) . 4)", "'()", "'sym", "(quote (a b c))", "car", "(lambda (x) x)", "#\\a", "\"str\""])
        if k == 3:
            self.use("iota"), self.use("rev")
            self.features.add("loop")
            return "(rev (iota-up 0 %d) '())" % r.randint(0, 8)
        if k == 4:
            self.use("iota"), self.use("filter"), self.use("even?")
            self.features.add("recursion")
            return "(filter ev? (iota-up 0 %d))" % r.randint(0, 8)
        if k == 5:
            v = self.fresh()
            self.features.add("map")
            return "(map (lambda (%s) %s) (list 1 2 %s))" % (v, self.int_(d - 1, vs + [v]), self.int_(d - 1, vs))
        return self.int_(d, vs)


def scenario_reentry(rng, g):
    """a continuation captured by one top-level form and re-entered by later ones"""
    g.use("k")
    g.features.add("callcc-reentry")
    body = g.int_(1, ["v"])
    forms = ["(let ((v (call/cc (lambda (c) (set! k0 c) 0)))) (set! kn (+ kn 1)) (display v) (+ v %s))" % body]
    for i in range(rng.randint(1, 3)):
        forms.append("(if (< kn %d) (k0 (+ kn %d)) 'done)" % (rng.randint(2, 4), rng.randint(1, 20)))
    forms.append("(list kn (procedure? k0))")
    return forms


def scenario_generator(rng, g):
    """re-entry inside one evaluation: a list is built by jumping back into a binding"""
    g.use("k")
    g.features.add("callcc-reentry")
    n = rng.randint(2, 5)
    return ["(define r '())",
            "(let () (set! r (cons (call/cc (lambda (c) (set! k0 c) 1)) r)) (if (< (length r) %d) (k0 (+ 1 (length r))) r))" % n,
            "r"]


def scenario_error_depth(rng, g):
    g.use("deep")
    g.features.add("error")
    g.features.add("depth")
    d = rng.choice([0, 1, 2, 5, 10, 30])
    e = rng.choice(ERRORS)
    pre = g.int_(1, [])
    return ["(deep %d (lambda () (let () (display %s) %s)))" % (d, pre, e), "(deep 2 (lambda () 5))"]


def scenario_deep_reentry(rng, g):
    """a continuation captured deep inside a non-tail recursion (the VM stack has grown past its initial
    256 slots from depth 42 on), the evaluation ends, something else runs (possibly a failing form), and the
    continuation is re-entered from later top-level forms"""
    g.use("k"), g.use("deep")
    g.features.add("callcc-reentry"), g.features.add("deep-capture")
    d = rng.choice([5, 41, 42, 43, 64, 100, 200])
    mid = rng.choice(["(+ 1 2)", rng.choice(ERRORS), "(deep 3 (lambda () 1))"])
    return ["(deep %d (lambda () (call/cc (lambda (c) (set! k0 c) 0))))" % d, mid,
            "(k0 %d)" % rng.choice([1, 1000]), "(begin (set! kn (+ kn 1)) (k0 kn))"]


def scenario_effects(rng, g):
    g.use("g")
    g.features.add("set!")
    return ["(set! g1 %s)" % g.int_(2, []), "(set-car! (cdr gc1) %s)" % g.int_(1, ["g1"]),
            "(for-each (lambda (x) (display x) (set! g2 (+ g2 x))) gc1)", "(list g1 g2 gc1)"]


def scenario_define(rng, g):
    f, x = "f%d" % rng.randint(1, 9), g.fresh()
    g.features.add("define")
    body = g.int_(2, [x])
    return ["(define (%s %s) %s)" % (f, x, body), "(%s %s)" % (f, g.lit()), "(map %s (list 1 2))" % f,
            "(define (%s %s) (* 2 %s))" % (f, x, x), "(%s 4)" % f]


def scenario_syntax(rng, g):
    g.features.add("error")
    return [rng.choice(SYNTAX_ERRORS + ["(car", ")", "#<x>", "(1 . )"]), g.int_(1, [])]


SCENARIOS = [scenario_reentry, scenario_deep_reentry, scenario_generator, scenario_error_depth, scenario_effects, scenario_define, scenario_syntax]


def gen_program(rng, size=2, err_p=0.04):
    """-> (forms, features): forms = library definitions used + 1..4 generated forms
    (several data per form text sometimes) + a probe of the global effects"""
    g = Gen(rng, err_p=err_p)
    body = []
    for _ in range(rng.randint(1, 3)):
        r = rng.random()
        if r < 0.45:
            body.append(g.int_(size + 1, []))
        elif r < 0.6:
            body.append(g.any_(size, []))
        else:
            body += rng.choice(SCENARIOS)(rng, g)
    if "g" in g.used:
        body.append("(list g1 g2 gc1)")
    # sometimes several data in one text
    if len(body) >= 2 and rng.random() < 0.3:
        i = rng.randrange(len(body) - 1)
        body[i:i + 2] = [body[i] + " " + body[i + 1]]
    # dependencies of the library entries
    used = set(g.used)
    defs = [LIB[n] for n in LIB if n in used]
    return defs + body, sorted(g.features)


def reduce_forms(forms):
    """candidate reductions of a form list: drop one form"""
    for i in range(len(forms)):
        yield forms[:i] + forms[i + 1:]


def shrink_group(ctx, mod, group, profile, keep_first=0, budget=60):
    """Cross-case failures: group[0] is the reported case, the others the cases it is
    compared with; all have form lists of the same length.  Greedily drops form j from
    every case while mod.cross_oracle still reports group[0]."""
    def fails(g):
        lines = ctx.impl(g, profile)
        return any(i == 0 for i, _ in mod.cross_oracle(g, lines))
    decoded = [dec(c) for c in group]
    if any(f is None for _, f in decoded) or len({len(f) for _, f in decoded}) != 1:
        return group
    if not fails(group):
        return group
    heads = [h for h, _ in decoded]
    forms = [f for _, f in decoded]
    progress, spent = True, 0
    while progress and spent < budget:
        progress = False
        for j in range(len(forms[0]) - 1, keep_first - 1, -1):
            cand = [f[:j] + f[j + 1:] for f in forms]
            g = [enc(h, f) for h, f in zip(heads, cand)]
            spent += 1
            if fails(g):
                forms, progress = cand, True
                break
            if spent >= budget:
                break
    return [enc(h, f) for h, f in zip(heads, forms)]
