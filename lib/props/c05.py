"""C05 — first-class continuations: escape, re-entry and cross-evaluation invocation.

Python side (work package "ref"): the continuation grammar (lib/scheme_gen.py G05), the
reference interpreter with full re-entrant continuations as the specification oracle
(lib/scheme_ref.py).  The theorems are in coq/Props/C05.v (integrator)."""
import os
import common as C
import scheme_ref as R
import scheme_gen as G
import scheme_oracle as O

os.environ.setdefault("MW_IMPL_CASE_BUDGET", "0.25")   # sessions are programs: bound a hanging implementation
PID = "C05"
ALLOWED_AXIOMS = ["Classical_Prop.classic", "ClassicalDedekindReals.sig_forall_dec",
                  "ClassicalDedekindReals.sig_not_dec", "FunctionalExtensionality.functional_extensionality_dep"]
CORRESPONDENCE = ("call/cc capture (builtin/procedure.rs), continuation.rs, stack.rs, continuation invocation in run.rs "
                  "vs Model/Vm.v (wire interface 70)")
RULE = ("sessions composed of 1-3 scenarios from a continuation grammar: call/cc at operand, tail and nested positions "
        "(12 wrapping contexts with display markers showing what re-executes), receivers that return normally, k "
        "stored in globals, pairs and lists (vectors in the wider-vocabulary stream), stored continuations invoked 0-3 "
        "times under a counter from later top-level forms, from inside their own extent, from map/for-each callbacks, "
        "from inside another continuation's extent, generator-style producer/consumer re-entry, k through apply/map, "
        "k with zero arguments, errors in receivers and after re-entry; oracle = reference interpreter whose "
        "continuations are immutable frame lists (re-entrant by construction); non-trivial = the reference run "
        "invokes a continuation at least once (measured by the machine, not inferred from the text); distinct by case hash")
ASSUMPTIONS = [
    "a continuation captured in top-level form i and invoked in form j finishes form i's computation and delivers its "
    "value as the result of form j (the read-eval loop is not part of the captured continuation), as in every REPL",
    "a continuation called with several arguments is outside R7RS's single-value continuations: such sessions are skipped",
    "operator evaluated after the operands; unspecified values and procedure print forms are wildcards (see C01)",
]
KERNEL_SAMPLE = {"quick": 120, "thorough": 1000}
KERNEL_MAXLEN = 2500
TRUSTED_BASE = ["lib/scheme_ref.py: reference interpreter written from R7RS (an oracle used to classify outputs, not a proof)"]
MODEL_VOCAB_WIDE = True       # the merged model has the list/vector/predicate builtins: wide sessions go three-way

MANIFEST = dict(
    text='Coq theorems (coq/Props/C05.v) about the VM model for ANY builtin table: call/cc captures slots 0..=sp, sp/ep/bp and the address after the call, then re-dispatches as an ordinary application; invoking a continuation from any state restores exactly the saved slots and registers, delivers the value in %acc and leaves heap, Rc payloads, globals and output untouched; it does not modify the continuation object (reusable); zero arguments is an error; one instruction after the CALL/TCALL of call/cc the machine is literally in the pre-CALL state of (f k) with k in a fresh heap cell, for a closure, a plain lambda, another continuation or a builtin as receiver (callcc_is_call); the clause -continues as if call/cc had returned v- as a state equation (C05_invoke_equals_return): the state after the RET of the receiver with value v and the state after invoking k with v from ANY later state in which the continuation object is still live agree on sp, bp, ep, the next instruction, %acc = v and every stack slot up to sp, while heap, globals and output are those of the invoking state (mutations since capture stay visible), any number of times; frames pushed between capture and an escaping invocation are discarded whatever the depth. a continuation captured in one evaluation is live in every later state - after any instructions, slices, compilations and whole evaluations with any outcome - so the state equation applies from a later top-level evaluation, any number of times, with no side condition (C05_invoke_equals_return_later); the TCALL-site variant holds one RET later under a frame hypothesis checked on an example. Not covered: receivers with captured variables. Tie: generated call/cc sessions (operand/tail/nested positions, stored and re-entered continuations, later top-level forms), three-way differential + independent CPS reference interpreter as oracle.',
    design="DESIGN.md section 5 C05",
    note="The theorems are in coq/Props/C05.v. "
         "The reference interpreter is an ORACLE for classifying the implementation's output, not a proof. "
         "Correspondence is sampling.",
    technique="Rocq/Coq proof over an executable model + model/implementation correspondence check + reference-interpreter oracle")

_NONTRIVIAL = {}


def corpus():
    out = []
    for s in [
        ["(define k1 #f)", "(+ 1 (call/cc (lambda (k) (set! k1 k) 1)))", "(k1 10)", "(k1 20)", "(+ 100 (k1 5))"],
        ["(define r '())", "(define k #f)", "(begin (set! r (cons (call/cc (lambda (c) (set! k c) 0)) r)) r)",
         "(if (< (length r) 3) (k (length r)) r)", "r"],
        ["(call/cc (lambda (k) (+ 1 (k 42))))", "(call/cc (lambda (k) 7))", "(call/cc call/cc)", "((call/cc call/cc) (lambda (x) 5))",
         "(call/cc (lambda (k) (k)))"],
        ["(define (gen lst) (define return #f) (define (g) (call/cc (lambda (r) (set! return r) (for-each (lambda (x) "
         "(call/cc (lambda (next) (set! g (lambda () (next #f))) (return x)))) lst) (return 'done)))) (lambda () (g)))",
         "(define g1 (gen '(1 2 3)))", "(g1)", "(g1)", "(g1)", "(g1)"],
        ["(define ks '()) (define n 0)", "(define r (map (lambda (o) (call/cc (lambda (c) (set! ks (cons c ks)) o))) '(1 2 3)))", "r",
         "(if (< n 2) (begin (set! n (+ n 1)) ((cadr ks) (* 10 n))) 'stop)", "r"],
        ["(define k #f) (define n 0)", "(list (begin (display 'first) n) (call/cc (lambda (c) (set! k c) 'captured)) (begin (display 'third) n))",
         "(begin (set! n (+ n 1)) (if (< n 3) (k 'again) 'over))"],
    ]:
        out.append(G.encode(s))
    return out


def _keep(sessions, meta, tag):
    refs = O.ref_many(sessions)
    cases = []
    for s, r in zip(sessions, refs):
        if r[0] in ("OK", "BUG"):
            c = G.encode(s)
            O.remember(c, r)
            cases.append(c)
        else:
            k = "ref_limit" if r[0] == "LIMIT" else "ref_unspecified"
            meta[k] = meta.get(k, 0) + 1
    meta[tag] = len(cases)
    return cases


def generate(rng, tier):
    dist = G.Dist()
    meta = {}
    n = 9000 if tier == "quick" else 120000
    nw = 1500 if tier == "quick" else 15000
    cases = _keep([G.c05_session(rng, dist) for _ in range(n)], meta, "sessions")
    wdist = G.Dist()
    wide = _keep([G.c05_session(rng, wdist, wide=True) for _ in range(nw)], meta, "wide_vocab_sessions")
    if MODEL_VOCAB_WIDE:
        cases += wide
    else:
        lines = C.run_impl(C.build_harness("debug"), wide)
        bad = 0
        for c, il in zip(wide, lines):
            if O.compare(c, il) is not None:
                bad += 1
                if bad <= 20:
                    cases.append(c)
        meta["wide_vocab_failures"] = bad
    invoked = sum(1 for c in cases if "continuation-invoked" in O.expected(c)[2])
    reentered = sum(1 for c in cases if "continuation-reentered" in O.expected(c)[2])
    meta["sessions_invoking_a_continuation"] = invoked
    meta["sessions_reentering_after_extent"] = reentered
    meta["exhaustive"] = False
    meta["scenarios_and_contexts"] = dict(sorted(dist.items()))
    return cases, meta


def oracle(case, impl_line):
    return O.compare(case, impl_line)


def known_class(case, impl_line, model_line):
    return None


def nontrivial(case, impl_line):
    return "continuation-invoked" in O.expected(case)[2]


describe = O.describe
reductions = O.reductions
neighbours = O.neighbours
