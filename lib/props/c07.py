"""C07 — a failed evaluation leaves no trace beyond its completed effects; repeated failures
do not accumulate stack depth or memory."""
import sys
import vmgen
from vmgen import enc, dec

PID = "C07"
# the machine state contains numbers (Model/Num.v, Flocq binary64): Print Assumptions lists the four
# standard axioms behind Coq's Reals for statements that mention the vm record
ALLOWED_AXIOMS = ["Classical_Prop.classic", "ClassicalDedekindReals.sig_forall_dec",
                  "ClassicalDedekindReals.sig_not_dec", "FunctionalExtensionality.functional_extensionality_dep"]
PROFILES = ["debug"]
SHARD_TIMEOUT = {"quick": 150, "thorough": 900}   # seconds per implementation shard; a hang becomes TIMEOUT lines, not a stalled check
CASES_PER_SHARD = 40      # sessions are expensive on the model: use all cores
CORRESPONDENCE = ("Vm::eval error path (run.rs run_count error arm, mod.rs prepare_eval), Vm::last_stacktrace and the "
                  "sp/bp/stack-capacity hooks (wire 74) vs Model/Vm.v run_loop / eval, Model/WireVm.v state_text_all")
RULE = ("session pairs over one VM (wire 74: result + [sp bp cap frames] after every datum).  A generated program tree "
        "(let/let*/begin bodies, if/cond/and/or, lambda application, calls at depth through (deep d thunk), apply, "
        "call/cc with and without escape, named-let and for-each loops, with set!/set-car!/display effects at its "
        "nodes) gets a failure injected at EACH node position in turn: unbound variable, wrong type (car 5), wrong "
        "arity, (error ..), calling a non-procedure, run-time bad syntax through eval, compile-time bad syntax "
        "(if)/(lambda), read errors (unbalanced bracket after a completed datum, unterminated string).  The failing "
        "form runs at top level, as a define/set! right-hand side, at call depth, inside a continuation extent that "
        "was captured by the failing evaluation itself (invoked later), or by re-entering a continuation captured by "
        "an earlier form; it is repeated k times, k in {1,2,10,1000}.  Session A interleaves succeeding forms, the "
        "failing forms and probes (global/heap readers, successful calls, failing calls with a stack trace, compile "
        "and read errors, invocations of the captured continuations); session B has every failing form replaced by "
        "literal set!/set-car!/display statements for the effects an independent Python interpreter of the tree "
        "language says were completed before the failure.  cross-case oracle: every datum of every form outside the "
        "replaced ones gives the same value/failure and the same last_stacktrace frame count in A and B.  per-line: "
        "sp=0 and bp=0 after every datum, stack capacity constant along consecutive repetitions of a failing form.  "
        "non-trivial = an A session in which a replaced form failed and a later datum succeeded; distinct by case hash")
ASSUMPTIONS = ["heap memory after failures is covered by C12 (heap statistics); here 'memory' is the VM stack capacity",
               "the Python interpreter of the tree language (evaluation order left to right, as compile.rs emits "
               "operands) predicts the completed effects; a misprediction shows up as an A/B difference, never as a "
               "missed one"]
KERNEL_SAMPLE = {"quick": 40, "thorough": 300}
KERNEL_MAXLEN = 1500
TRUSTED_BASE = ["lib/props/vmgen.py result-line parsers; lib/props/c07.py tree-language interpreter (completed effects)"]
MANIFEST = dict(
    text="Coq theorems over the hand-written model of run.rs/mod.rs (after fixes f6f5af0 and 9a27905): whatever instruction fails at whatever depth, inside or outside a continuation, the machine exits with sp=0, bp=0, ep and acc reset, every stack slot wiped, and heap/globals/output exactly those at the failing instruction (completed effects only); a completed evaluation wipes the stack too; a read/compile failure reports no stack trace; a failing run decomposes exactly into n successful instructions, the failing instruction, the captured trace and reset_regs (C07_failure_state_equation, with its converse): what it leaves changed is what the completed instructions changed; after k consecutive run-time failures of any forms sp = bp = 0, ep and acc are reset and the stack is empty (C07_k_failures_no_accumulation); the stack capacity after failures is the maximum reached and does not grow by failing, unconditionally for the real builtin table (no instruction, builtin, compilation or continuation invocation ever shrinks the capacity: C07_cap_monotone_other_builtin); a read or compile failure leaves stack, capacity and all registers untouched and only appends Undefined global slots (C07_prepare_eval_error_frame); any mix of k run-time and compile-time failures leaves sp = bp = 0 as soon as one of them is a run-time failure and moves nothing otherwise (C07_mixed_failures_no_accumulation). Tied to /repo by session pairs with a failure injected at every node position of generated programs (seven error kinds, top level / call depth / continuation extents / re-entry, k in {1,2,10,1000} repetitions): implementation = extracted model = vm_compute on value, failure, sp, bp, stack capacity and trace length after every datum, and the cross-case oracle 'session with failures = session with only their completed effects' on the implementation itself.",
    design="DESIGN.md section 5 C07",
    note="Trusted: Coq kernel; hand-written model tied by sampling correspondence ; Rust harness + sp/bp/capacity accessors (cfg marwood_verif, read-only); Python tree-language interpreter that predicts completed effects. Heap memory growth under repeated failures is C12's concern. Axioms: the four standard-library axioms of Coq's Reals inherited through Flocq's binary64 in the number type of the machine state.",
    technique="Rocq/Coq proof (case analysis of the run loop's error arm, invariants) + model/implementation correspondence check + cross-case oracle")

SETUP = ["(define g1 1) (define g2 20) (define g3 300)", "(define c1 (list 4000 50000))", "(define k0 #f) (define kr #f)",
         "(define (deep n th) (if (= n 0) (th) (+ 1 (deep (- n 1) th))))", "(define (id x) x)",
         # a continuation captured while the VM stack had grown beyond its initial 256 slots (depth >= 42); the probes
         # re-enter it after the failed forms
         "(define kd #f)", "(deep 60 (lambda () (call/cc (lambda (c) (set! kd c) 0))))"]
GLOBALS = ["g1", "g2", "g3"]
RUNTIME_FAIL = [("unbound", "nope-var"), ("type", "(car 5)"), ("arity", "((lambda (x) x))"), ("user", "(error \"inj\" 1 'z)"),
                ("eval-syntax", "(eval '(if))"), ("nonproc", "(5 5)"), ("unbound", "(nope-fn 1)"), ("type", "(apply car '(1 2))"),
                ("arity", "(id)"), ("user", "(error 'inj)")]
COMPILE_FAIL = [("syntax", "(if)"), ("syntax", "(lambda)"), ("syntax", "(let ((x)) x)")]
READ_FAIL = [("read-incomplete", "(car"), ("read-lex", "\"abc"), ("read-lex", "#<")]
KS = [1, 2, 10, 1000]


# ------------------------------------------------------------ tree language
class Fail(Exception):
    pass


class Tree:
    """node = [kind, id, args...]; ids are assigned in pre-order by number()"""
    def __init__(self, rng):
        self.rng = rng
        self.n = 0

    def nid(self):
        self.n += 1
        return self.n - 1

    def gen(self, d, vs, loopok=True):
        r = self.rng
        i = self.nid()
        if d <= 0 or r.random() < 0.15:
            k = r.random()
            if vs and k < 0.4:
                return ["var", i, r.choice(vs)]
            if k < 0.55:
                return ["getg", i, r.choice(GLOBALS)]
            return ["lit", i, r.choice([0, 1, 2, 3, 5, 7, 11, -2, 13, 17, 64, 99])]
        k = r.randrange(20)
        g = lambda dd=d - 1, v=vs, l=loopok: self.gen(dd, v, l)
        if k == 0:
            return ["add", i, g(), g()]
        if k == 1:
            return ["seq", i, r.choice(["let", "begin"]), [g() for _ in range(r.randint(2, 3))]]
        if k == 2:
            return ["if", i, r.choice(["if", "cond"]), g(), g(), g(), g()]
        if k == 3:
            return ["or", i, g(), g()]
        if k == 4:
            return ["and", i, g(), g()]
        if k == 5:
            v = "x%d" % i
            e = g()
            return ["let", i, v, e, self.gen(d - 1, vs + [v], loopok)]
        if k == 6:
            v, w = "x%d" % i, "y%d" % i
            e1 = g()
            e2 = self.gen(d - 1, vs + [v], loopok)
            return ["let2", i, v, e1, w, e2, self.gen(d - 1, vs + [v, w], loopok)]
        if k in (7, 8, 9):
            return ["setg", i, r.choice(GLOBALS), g()]
        if k in (10, 11):
            return ["setcar", i, r.choice(["c1", "(cdr c1)"]), g()]
        if k in (12, 13):
            return ["disp", i, g()]
        if k == 14:
            return ["call", i, r.choice([1, 2, 3, 8, 40]), g()]
        if k == 15:
            v = "x%d" % i
            e = g()
            return ["lam", i, v, e, self.gen(d - 1, vs + [v], loopok)]
        if k == 16:
            return ["callcc", i, g()]
        if k == 17:
            return ["esc", i, g()]
        if k == 18:
            return ["app", i, r.choice(["apply", "car"]), g()]
        if loopok:
            v = "x%d" % i
            if r.random() < 0.5:
                return ["loop", i, r.randint(1, 3), v, self.gen(d - 1, vs + [v], False)]
            return ["foreach", i, v, self.gen(d - 1, vs + [v], False)]
        return ["add", i, g(), g()]


def emit(t, inj):
    """text of the tree; inj = (node id, failing text) or None"""
    k, i = t[0], t[1]
    if inj is not None and inj[0] == i:
        return inj[1]
    e = lambda x: emit(x, inj)
    if k == "lit":
        return str(t[2])
    if k in ("var", "getg"):
        return t[2]
    if k == "add":
        return "(+ %s %s)" % (e(t[2]), e(t[3]))
    if k == "seq":
        return ("(let () %s)" if t[2] == "let" else "(begin %s)") % " ".join(e(x) for x in t[3])
    if k == "if":
        if t[2] == "if":
            return "(if (< %s %s) %s %s)" % (e(t[3]), e(t[4]), e(t[5]), e(t[6]))
        return "(cond ((< %s %s) %s) (else %s))" % (e(t[3]), e(t[4]), e(t[5]), e(t[6]))
    if k == "or":
        return "(or %s %s)" % (e(t[2]), e(t[3]))
    if k == "and":
        return "(and %s %s)" % (e(t[2]), e(t[3]))
    if k == "let":
        return "(let ((%s %s)) %s)" % (t[2], e(t[3]), e(t[4]))
    if k == "let2":
        return "(let* ((%s %s) (%s %s)) %s)" % (t[2], e(t[3]), t[4], e(t[5]), e(t[6]))
    if k == "setg":
        return "(let ((t%d %s)) (set! %s t%d) t%d)" % (i, e(t[3]), t[2], i, i)
    if k == "setcar":
        return "(let ((t%d %s)) (set-car! %s t%d) t%d)" % (i, e(t[3]), t[2], i, i)
    if k == "disp":
        return "(let ((t%d %s)) (display t%d) t%d)" % (i, e(t[2]), i, i)
    if k == "call":
        return "(deep %d (lambda () %s))" % (t[2], e(t[3]))
    if k == "lam":
        return "((lambda (%s) %s) %s)" % (t[2], e(t[4]), e(t[3]))
    if k == "callcc":
        return "(call/cc (lambda (kk%d) %s))" % (i, e(t[2]))
    if k == "esc":
        return "(call/cc (lambda (kk%d) (+ 100 (kk%d %s))))" % (i, i, e(t[2]))
    if k == "app":
        return ("(apply id (list %s))" if t[2] == "apply" else "(car (list %s 1))") % e(t[3])
    if k == "loop":
        return "(let lp%d ((%s %d) (a%d 0)) (if (= %s 0) a%d (lp%d (- %s 1) (+ a%d %s))))" % (
            i, t[3], t[2], i, t[3], i, i, t[3], i, e(t[4]))
    if k == "foreach":
        return "(let ((a%d 0)) (for-each (lambda (%s) (set! a%d (+ a%d %s))) (list 1 2 3)) a%d)" % (i, t[2], i, i, e(t[3]), i)
    raise ValueError(k)


class State:
    def __init__(self):
        self.g = {"g1": 1, "g2": 20, "g3": 300}
        self.c1 = [4000, 50000]
        self.effects = []       # completed effects of the current form, as statement texts

    def copy(self):
        s = State()
        s.g, s.c1 = dict(self.g), list(self.c1)
        return s


def interp(t, env, st, inj):
    """value of the tree; completed effects are applied to st and logged; raises Fail at the injected node"""
    k, i = t[0], t[1]
    if inj is not None and inj == i:
        raise Fail()
    ev = lambda x, e=env: interp(x, e, st, inj)
    if k == "lit":
        return t[2]
    if k == "var":
        return env[t[2]]
    if k == "getg":
        return st.g[t[2]]
    if k == "add":
        a = ev(t[2])
        return a + ev(t[3])
    if k == "seq":
        v = 0
        for x in t[3]:
            v = ev(x)
        return v
    if k == "if":
        a = ev(t[3])
        b = ev(t[4])
        return ev(t[5]) if a < b else ev(t[6])
    if k == "or":
        return ev(t[2])              # integers are true: the second operand is never evaluated
    if k == "and":
        ev(t[2])
        return ev(t[3])
    if k == "let":
        v = ev(t[3])
        return interp(t[4], dict(env, **{t[2]: v}), st, inj)
    if k == "let2":
        v = ev(t[3])
        e1 = dict(env, **{t[2]: v})
        w = interp(t[5], e1, st, inj)
        return interp(t[6], dict(e1, **{t[4]: w}), st, inj)
    if k == "setg":
        v = ev(t[3])
        st.g[t[2]] = v
        st.effects.append("(set! %s %d)" % (t[2], v))
        return v
    if k == "setcar":
        v = ev(t[3])
        st.c1[0 if t[2] == "c1" else 1] = v
        st.effects.append("(set-car! %s %d)" % (t[2], v))
        return v
    if k == "disp":
        v = ev(t[2])
        st.effects.append("(display %d)" % v)
        return v
    if k == "call":
        return t[2] + ev(t[3])
    if k == "lam":
        v = ev(t[3])                 # the operand is evaluated before the body
        return interp(t[4], dict(env, **{t[2]: v}), st, inj)
    if k in ("callcc", "esc"):
        return ev(t[2])
    if k == "app":
        return ev(t[3])
    if k == "loop":
        acc = 0
        for x in range(t[2], 0, -1):
            acc += interp(t[4], dict(env, **{t[3]: x}), st, inj)
        return acc
    if k == "foreach":
        acc = 0
        for x in (1, 2, 3):
            acc += interp(t[3], dict(env, **{t[2]: x}), st, inj)
        return acc
    raise ValueError(k)


def is_node(x):
    return isinstance(x, list) and len(x) >= 2 and isinstance(x[0], str) and x[0] in KINDS and isinstance(x[1], int)


def node_ids(t, out=None):
    """ids of all nodes, pre-order"""
    out = [] if out is None else out
    out.append(t[1])
    for x in t[2:]:
        if is_node(x):
            node_ids(x, out)
        elif isinstance(x, list):
            for y in x:
                if is_node(y):
                    node_ids(y, out)
    return out


KINDS = {"lit", "var", "getg", "add", "seq", "if", "or", "and", "let", "let2", "setg", "setcar", "disp", "call", "lam",
         "callcc", "esc", "app", "loop", "foreach"}

# wrappers of the failing form: (name, A template, B template when the form failed)
WRAPPERS = [
    ("top", "%s", "%s"),
    ("top", "%s", "%s"),
    ("define-rhs", "(define g3 %s)", "%s"),
    ("define-new", "(define fresh1 %s)", "%s"),
    ("set-rhs", "(set! g2 %s)", "%s"),
    ("depth", "(deep 6 (lambda () %s))", "%s"),
    ("depth-nontail", "(+ 1 (deep 30 (lambda () (+ 1 %s))))", "%s"),
    ("captured-extent", "(+ 1 (call/cc (lambda (c) (set! k0 c) %s)))", "(+ 1 (call/cc (lambda (c) (set! k0 c) %s)))"),
    ("operand", "(list 1 %s 2)", "%s"),
]
PROBES = ["(list g1 g2 g3 c1)", "(deep 3 (lambda () (car 5)))", "(if)", "(deep 2 (lambda () (+ g1 1)))", "(k0 7)",
          "(error \"probe\" g2 (car c1))", "(car", "(kr 0)", "fresh1", "(define fresh1 5) fresh1", "nope-var",
          "(deep 50 (lambda () (nope-fn)))", "(+ g1 g2 g3)", "(call/cc (lambda (k) (k (cadr c1))))", "(display g1)",
          "(kd 1000)", "(+ 1 (kd g1))"]


def effects_form(effects, btmpl="%s"):
    body = "0" if not effects else "(let () %s 0)" % " ".join(effects)
    return btmpl % body


def run_form(tree, st, inj_id, wname=None):
    """-> (failed?, completed effects) and updates st (including the wrapper's own
    assignment when the form completes)"""
    st.effects = []
    try:
        v = interp(tree, {}, st, inj_id)
    except Fail:
        return True, list(st.effects)
    if wname == "define-rhs":
        st.g["g3"] = v
    elif wname == "set-rhs":
        st.g["g2"] = v
    return False, list(st.effects)


def build_pair(rng, tree_gen_depth, pair_id, k=1, tree=None, inj=None, wrapper=None, fixed_kind=None):
    """one (A, B) pair of sessions: setup, a succeeding tree, the failing form k times, probes"""
    st = State()
    forms_a, forms_b = [], []
    # a succeeding form first (effects in both)
    t0 = Tree(rng).gen(2, [])
    run_form(t0, st, None)
    forms_a.append(emit(t0, None))
    forms_b.append(forms_a[-1])
    T = Tree(rng)
    if tree is None:
        tree = T.gen(tree_gen_depth, [])
    ids = node_ids(tree)
    pos = rng.choice(ids) if inj is None else inj
    kind_class = rng.random()
    if fixed_kind is not None:
        kname, ftext = fixed_kind
    elif kind_class < 0.72:
        kname, ftext = rng.choice(RUNTIME_FAIL)
    elif kind_class < 0.86:
        kname, ftext = rng.choice(COMPILE_FAIL)
    else:
        kname, ftext = rng.choice(READ_FAIL)
    wname, wa, wb = wrapper if wrapper is not None else rng.choice(WRAPPERS)
    meta = {"kind": kname, "wrapper": wname, "k": k, "nodes": len(ids), "pos": pos}
    mode = rng.random()
    if kname.startswith("read"):
        # text = one completed datum, then the datum with the read error
        d1 = Tree(rng).gen(1, [])
        text_a = emit(d1, None) + " " + wa % emit(tree, (pos, ftext))
        for _ in range(k):
            if kname == "read-incomplete":
                st.effects = []
                interp(d1, {}, st, None)          # the first datum runs, the second is never read
                forms_b.append(effects_form(list(st.effects)))
            else:
                forms_b.append("0")               # the whole text fails to scan: nothing runs
            forms_a.append(text_a)
        meta["wrapper"] = "after-datum"
        meta["failed"] = True
    elif kname == "syntax":
        # compile-time failure: nothing of the form runs
        for _ in range(k):
            forms_a.append(wa % emit(tree, (pos, ftext)))
            forms_b.append("0")
        meta["failed"] = True
    elif mode < 0.2 and wname in ("top", "depth"):
        # re-entry: the tree sits in an earlier form behind a continuation; the failing form is (kr 1)
        meta["wrapper"] = "reentry"
        cap = "(let ((v (call/cc (lambda (c) (set! kr c) 0)))) (if (= v 0) 'first %s))" % emit(tree, (pos, ftext))
        forms_a.append(cap)
        forms_b.append(cap)
        failed = False
        for _ in range(k):
            failed, eff = run_form(tree, st, pos)
            forms_a.append("(kr 1)")
            forms_b.append(effects_form(eff) if failed else "(kr 1)")
        meta["failed"] = failed
    else:
        failed = False
        for _ in range(k):
            failed, eff = run_form(tree, st, pos, wname)
            text_a = wa % emit(tree, (pos, ftext))
            forms_a.append(text_a)
            if failed:
                forms_b.append(effects_form(eff, wb))
            else:
                forms_b.append(text_a)            # the injected expression is never reached: nothing to replace
        meta["failed"] = failed
    # probes and one more succeeding form (same text in both)
    probes = rng.sample(PROBES, rng.randint(3, 6))
    t9 = Tree(rng).gen(2, [])
    probes.insert(rng.randrange(len(probes) + 1), emit(t9, None))
    if rng.random() < 0.5:
        probes.append("(list g1 g2 g3 c1)")
    forms_a += probes
    forms_b += probes
    tag = "'(c07 %s %d)"
    a = enc([74], [tag % ("A", pair_id)] + SETUP + forms_a)
    b = enc([74], [tag % ("B", pair_id)] + SETUP + forms_b)
    return a, b, meta


def corpus():
    out = []
    sessions = [
        ["(car 5)", "(if)"],
        ["(deep 50 (lambda () (car 5)))"] * 5 + ["(deep 2 (lambda () 1))"],
        ["(let () (set! g1 5) (display 1) (car 5) (set! g2 6))", "(list g1 g2)"],
    ]
    for s in sessions:
        out.append(enc([74], SETUP + s))
    return out


_PAIR = [0]


def generate(rng, tier):
    ntrees = 200 if tier == "quick" else 3000
    cases, dist = [], {"kinds": {}, "wrappers": {}, "k": {}, "failed": 0, "not_reached": 0, "positions": 0, "trees": ntrees}

    def add(a, b, meta):
        cases.append(a)
        cases.append(b)
        for key, field in (("kinds", "kind"), ("wrappers", "wrapper"), ("k", "k")):
            v = str(meta[field])
            dist[key][v] = dist[key].get(v, 0) + 1
        dist["failed" if meta["failed"] else "not_reached"] += 1

    # every position of every generated tree in turn, k = 1 (and 2 for some)
    for _ in range(ntrees):
        tree = Tree(rng).gen(rng.choice([3, 4, 4]), [])
        ids = node_ids(tree)
        if len(ids) > 24:
            ids = sorted(rng.sample(ids, 24))
        w = rng.choice(WRAPPERS)
        for pos in ids:
            _PAIR[0] += 1
            dist["positions"] += 1
            add(*build_pair(rng, 3, _PAIR[0], k=rng.choice([1, 1, 1, 2]), tree=tree, inj=pos, wrapper=w))
    # k consecutive failures
    nk = {1: 0, 2: 40, 10: 40, 1000: 6} if tier == "quick" else {1: 0, 2: 400, 10: 400, 1000: 40}
    for k, n in nk.items():
        for _ in range(n):
            _PAIR[0] += 1
            depth = 1 if k == 1000 else 3
            add(*build_pair(rng, depth, _PAIR[0], k=k))
    dist["pairs"] = len(cases) // 2
    # the same failing sessions evaluated by slices (prepare_eval + run_count(budget), wire 77): a failure inside a
    # later slice must leave the same canonical registers, and the session must answer as the uninterrupted one
    a_cases = [c for c in cases if c[0] == 74 and (_tag(dec(c)[1]) or ("", 0))[0] == "A"]
    nsl = min(len(a_cases), 150 if tier == "quick" else 2500)
    for c in rng.sample(a_cases, nsl):
        cases.append([77, rng.choice([1, 2, 3, 7, 20, 64])] + c[1:])
    dist["sliced_variants"] = nsl
    return cases, dist


# ------------------------------------------------------------------ oracles
def _tag(forms):
    """-> (role, pair id) from the leading tag form, or None"""
    if forms and forms[0].startswith("'(c07 "):
        w = forms[0][2:-1].split()
        if len(w) == 3 and w[1] in ("A", "B") and w[2].isdigit():
            return w[1], int(w[2])
    return None


def oracle(case, impl_line):
    head, forms = dec(case)
    if forms is None or head[0] not in (74, 77):
        return None
    if any(w in impl_line for w in ("PANIC", "ABORT", "TIMEOUT")):
        return "panic: an evaluation must return a value or an error (%s)" % impl_line[:80]
    res = vmgen.parse74(impl_line)
    if res is None or len(res) != len(forms):
        return "malformed: %r" % impl_line[:80]
    prev = None          # (form text, failed?, cap) of the previous datum
    for f, ds in zip(forms, res):
        for (r, sp, bp, cap, frames) in ds:
            if sp is None:
                prev = None
                continue
            if sp != 0 or bp != 0:
                return "registers: after %r the machine is left with sp=%d bp=%d (a later evaluation starts above dead frames)" % (
                    f[:60], sp, bp)
            failed = r.startswith("ERR")
            if prev is not None and prev[0] == f and prev[1] and failed and cap != prev[2]:
                return "capacity: stack capacity changed from %d to %d across consecutive failures of %r" % (prev[2], cap, f[:60])
            prev = (f, failed, cap)
    return None


def _pairs(cases):
    idx = {}
    for i, c in enumerate(cases):
        if c and c[0] == 74:
            _, forms = dec(c)
            t = _tag(forms) if forms else None
            if t:
                idx.setdefault(t[1], {})[t[0]] = i
    return idx


def cross_oracle(cases, impl_lines):
    out = []
    # sliced (77) vs uninterrupted (74) evaluation of the same forms: same results, registers and trace lengths
    whole = {}
    for i, c in enumerate(cases):
        if c and c[0] == 74:
            whole[tuple(c[1:])] = i
    for i, c in enumerate(cases):
        if c and c[0] == 77 and tuple(c[2:]) in whole:
            j = whole[tuple(c[2:])]
            ra, rb = vmgen.parse74(impl_lines[i]), vmgen.parse74(impl_lines[j])
            if ra is None or rb is None:
                continue
            if ra != rb:
                k = next((n for n, (x, y) in enumerate(zip(ra, rb)) if x != y), min(len(ra), len(rb)))
                out.append((i, "sliced-differs: evaluated by slices of %d instructions, form %d answers %r but %r when evaluated without interruption"
                            % (c[1], k, (ra[k] if k < len(ra) else None), (rb[k] if k < len(rb) else None))))
    for pid, d in sorted(_pairs(cases).items()):
        if "A" not in d or "B" not in d:
            continue
        ia, ib = d["A"], d["B"]
        fa, fb = dec(cases[ia])[1], dec(cases[ib])[1]
        ra, rb = vmgen.parse74(impl_lines[ia]), vmgen.parse74(impl_lines[ib])
        if ra is None or rb is None or len(fa) != len(fb) or len(ra) != len(fa) or len(rb) != len(fb):
            continue                      # reported by the per-line oracle
        for j in range(1, len(fa)):
            if fa[j] != fb[j]:
                continue                  # a failing form and its replacement
            if len(ra[j]) != len(rb[j]):
                out.append((ia, "trace-of-failure: form %d %r evaluates %d data after the failures but %d without them" % (
                    j, fa[j][:60], len(ra[j]), len(rb[j]))))
                break
            bad = None
            for da, db in zip(ra[j], rb[j]):
                if da[0] != db[0]:
                    bad = "result %r, but %r in the session that only performed the completed effects" % (da[0][:60], db[0][:60])
                elif da[4] != db[4]:
                    bad = "a stack trace of %s frames, but %s frames in the session that only performed the completed effects" % (da[4], db[4])
                if bad:
                    break
            if bad:
                out.append((ia, "trace-of-failure: after the failed form(s) the later form %d %r gives %s" % (j, fa[j][:60], bad)))
                break
    return out


def related(cases, i):
    if cases[i] and cases[i][0] == 77:
        return [[74] + list(cases[i][2:])]        # the uninterrupted twin
    _, forms = dec(cases[i])
    t = _tag(forms) if forms else None
    if not t:
        return []
    d = _pairs(cases).get(t[1], {})
    other = d.get("B" if t[0] == "A" else "A")
    return [cases[other]] if other is not None else []


def shrink_group(ctx, case, rel, profile):
    g = vmgen.shrink_group(ctx, sys.modules[__name__], [case] + list(rel), profile, keep_first=1 + len(SETUP))
    return g[0], g[1:]


def nontrivial(case, impl_line):
    head, forms = dec(case)
    if forms is None:
        return False
    t = _tag(forms)
    if not t or t[0] != "A":
        return False
    res = vmgen.parse74(impl_line)
    if not res:
        return False
    flat = [d for ds in res[1 + len(SETUP):] for d in ds]
    seen_err = False
    for d in flat:
        if d[0].startswith("ERR"):
            seen_err = True
        elif seen_err and d[0].startswith("OK"):
            return True
    return False


def describe(case):
    head, forms = dec(case)
    if forms is None:
        return {"raw": case[:50]}
    t = _tag(forms)
    body = forms[1 + len(SETUP):] if t else forms
    # collapse runs of identical forms
    out, i = [], 0
    while i < len(body):
        j = i
        while j < len(body) and body[j] == body[i]:
            j += 1
        out.append(body[i] if j - i == 1 else "%d x %s" % (j - i, body[i]))
        i = j
    return {"iface": "state-session", "role": t[0] if t else None, "pair": t[1] if t else None,
            "setup": "SETUP" if t else None, "forms": out}


def reductions(case):
    head, forms = dec(case)
    if forms is None:
        return
    keep = 1 + len(SETUP) if _tag(forms) else 0
    for j in range(len(forms) - 1, keep - 1, -1):
        yield enc(head, forms[:j] + forms[j + 1:])


def neighbours(case, rng):
    head, forms = dec(case)
    if forms is None:
        return []
    return [enc(head, forms[:j]) for j in range(1, len(forms) + 1)]
