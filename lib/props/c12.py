"""C12 — memory is bounded by live data: garbage of every kind is reclaimed.

Own flow (heap statistics through the hooks):
 * per allocation kind (pairs, vectors, strings, closures+environments, continuations, code compiled by eval,
   code compiled by successive top-level evaluations, interned symbols, bignums, mixed) a garbage loop with a
   live set of size 0 / 10 / 1000 runs n and 10n iterations: the heap capacity after 10n iterations must equal
   the capacity after n (the heap stops growing once warm), the harness's independent traversal must find
   allocated = reachable after every collection, and every observed capacity must be dominated by the PROVED
   bound g(L, B) of Props/C12.v instantiated with the constants the translator read from the source
   (coq/Gen/GcParams.v), with L = the largest live set the harness measured and B = cadence x the largest number
   of cells allocated between two instruction boundaries (hook counter).
 * the abstract counter machine itself (Model/Growth.v) is a Coq definition; its parameters are not compared by
   behaviour (a different growth factor is a harmless change): they are read from the source on every run and
   Props/C12.v re-proves admissibility by computation.
NOT covered (C12 is partial): process memory outside the VM heap — Rc cycles (a vector stored into itself),
Vec capacities that never shrink (the stack vector), the allocator.
"""
import json, os, random, re, sys, time
import common as C
import c03

PID = "C12"
ALLOWED_AXIOMS = []
PROFILES = ["debug"]
CORRESPONDENCE = "heap statistics of the real VM (hooks) vs the proved bound of Model/Growth.v with coq/Gen/GcParams.v"
RULE = ("garbage-loop templates, one per allocation kind {pairs, vectors, strings, closures, continuations, eval code, eval code with fresh local names, "
        "top-level code, symbols, bignums, mixed} x live-set size {0, 10, 1000} x heap chunk {8192, 1024} x iteration "
        "counts n and 10n (quick n = 2000, thorough n = 100000; top-level-code kind: n = 300 / 3000 forms); a pair "
        "(n, 10n) is non-trivial when at least one collection ran in the 10n run and all were checked by the independent "
        "traversal; distinct by (kind, live, chunk, n)")
ASSUMPTIONS = [
    "process memory outside the VM heap (Rc cycles, Vec capacities such as the stack vector, allocator) is NOT covered: C12 is decided for the VM heap only (partial)",
    "B (allocations between two collection points) is measured as cadence x the largest tick-to-tick allocation count seen by the hook; L is the largest reachable-cell count the harness's own traversal saw (or the used count when no collection ran)",
    "the f64 utilisation tests of run_gc coincide with the rational tests of the counter machine for capacities below 2^52 (proved: C12_util_test_rational, C12_util_test_rational_gt)",
]
TRUSTED_BASE = ["hooks marwood/src/vm/verif.rs (heap capacity/used, forced-collection observer, allocation counter)",
                "lib/gen_coq.py translator of the GC constants (coq/Gen/GcParams.v)"]
MANIFEST = dict(
    text="Coq theorems: after a collection allocated = reachable for every cell kind (from mark_exact/sweep_exact), the wiped stack holds no reference, the interning table has exactly one entry per allocated symbol, and for ALL admissible parameters of the abstract (capacity, used) machine the capacity is bounded by max(cap0, g(L,B)) and the number of growth events of any run is bounded (heap_plateau); instantiated with the constants regenerated from the source on every run (admissibility by computation). Tied to /repo by heap statistics: capacity(10n) = capacity(n) per allocation kind and live-set size, allocated = reachable after every collection (independent traversal), observed capacities dominated by g.",
    design="DESIGN.md section 5 C12",
    note="PARTIAL: decided for the VM heap; process memory outside it (Rc cycles, Vec capacities, allocator) is not covered. The f64 utilisation tests are proved equal to the rational tests for capacities below 2^52 (C12_util_test_rational, with Flocq: the four standard Reals axioms); the other theorems are closed under the global context. No OPEN statement.",
    technique="Rocq/Coq proof (invariant of a parametric counter machine; reachability) + heap-statistics correspondence check")

KINDS = {
    "pairs": "(cons i (cons i '()))",
    "vectors": "(make-vector 3 i)",
    "strings": "(string-append (number->string i) \"-x\")",
    "closures": "((lambda (x) (lambda () (+ x 1))) i)",
    "continuations": "(call/cc (lambda (k) k))",
    "eval-code": "(eval (list '+ i 1))",
    # code with FRESH local identifiers each time: what the compiler allocates per name
    # (interned symbols, bindings, slots) must be garbage too
    "eval-fresh-names": "(eval (list (list 'lambda (list (string->symbol (string-append \"fv\" (number->string i)))) "
                        "(string->symbol (string-append \"fv\" (number->string i)))) i))",
    # ... also when the fresh local name is the TARGET OF AN ASSIGNMENT (set!, and what letrec / named let expand to)
    "eval-fresh-set-names": "(eval (list (list 'lambda (list (string->symbol (string-append \"fs\" (number->string i)))) "
                            "(list 'set! (string->symbol (string-append \"fs\" (number->string i))) 1) "
                            "(string->symbol (string-append \"fs\" (number->string i)))) i))",
    "eval-fresh-letrec-names": "(eval (list 'letrec (list (list (string->symbol (string-append \"fl\" (number->string i))) "
                               "(list 'lambda '() i))) (list (string->symbol (string-append \"fl\" (number->string i))))))",
    "symbols": "(string->symbol (string-append \"gs\" (number->string i)))",
    "bignums": "(* 123456789012345678901234567890 (+ i 1))",
    "mixed": "(list (make-vector 2 i) (number->string i) (lambda () i) (string->symbol (number->string i)))",
}


def loop_forms(kind, live, n):
    setup = ("(define live (let mk ((i 0) (acc '())) (if (= i %d) acc (mk (+ i 1) (cons (vector i) acc))))) "
             "(define (garbage i) %s) "
             "(define (loop i) (if (= i 0) (length live) (begin (garbage i) (loop (- i 1)))))" % (live, KINDS[kind]))
    return [setup, "(loop %d)" % n]


def toplevel_forms(live, n):
    setup = "(define live (let mk ((i 0) (acc '())) (if (= i %d) acc (mk (+ i 1) (cons (vector i) acc)))))" % live
    # every form uses its own local variable names
    return [setup] + ["((lambda (x%d . r%d) (set! x%d (+ x%d 1)) (let loop%d ((j%d 0)) (if (< j%d 1) (loop%d (+ j%d 1)) (list x%d r%d %d)))) %d)"
                      % (i, i, i, i, i, i, i, i, i, i, i, i, i) for i in range(n)]


def stats_case(chunk, forms):
    c = [63, chunk, len(forms)]
    for f in forms:
        c += [len(f)] + [ord(ch) for ch in f]
    return c


def parse_stats(line):
    """H cap:used:gc ... | results ## checked=.. indep=.. maxlive=.. maxalloc=.."""
    if not line.startswith("H "):
        return None
    head, rest = line.split(" | ", 1)
    pts = [tuple(int(x) for x in p.split(":")) for p in head[2:].split(" ")]
    info = dict(kv.split("=", 1) for kv in rest.split("## ", 1)[1].split(" ") if "=" in kv)
    return pts, info, rest.split("## ", 1)[0]


def read_params():
    src = open(os.path.join(C.COQ, "Gen", "GcParams.v")).read()
    def one(name):
        m = re.search(r"Definition %s : option [^:]*:= Some \(?(\d+)(?:, (\d+)\))?" % name, src)
        if not m:
            return None
        return (int(m.group(1)), int(m.group(2))) if m.group(2) else int(m.group(1))
    return {k: one(k) for k in ("heap_chunk_size", "gc_cadence", "gc_skip_below", "gc_grow_above", "heap_growth_factor")}


def ceil_div(a, b):
    return (a + b - 1) // b


def gbound(P, chunk, L, B):
    """Model/Growth.v gbound, with the chunk actually used by the run"""
    fn, fd = P["heap_growth_factor"]
    ln, ld = P["gc_skip_below"]
    hn, hd = P["gc_grow_above"]
    base = max(L + B, ceil_div(B * ld, ld - ln), ceil_div(L * hd, hn))
    return ceil_div(base * fn, fd) + chunk


def describe(case):
    i, forms = 3, []
    for _ in range(case[2]):
        n = case[i]
        forms.append("".join(chr(c) for c in case[i + 1:i + 1 + n]))
        i += 1 + n
    return {"iface": "heap-stats", "chunk": case[1] or 8192, "forms": len(forms),
            "first": forms[0][:200], "last": forms[-1][:120]}


def main(tier="quick", seed=0, replay=None):
    rep = C.Report(PID, tier, seed)
    rng = random.Random((seed, PID).__repr__())
    try:
        exe = C.build_harness("debug")
        C.build_model()
    except C.BuildError as e:
        print("CHECK-ERROR: " + str(e)[-3000:])
        return 2
    if replay:
        data = json.load(open(replay))
        for c in data.get("cases") or ([data["case"]] if data.get("case") else []):
            print("readable :", json.dumps(describe(c))[:1500])
            print("impl     :", C.run_impl(exe, [c])[0][:3000])
        if data.get("broken"):
            print("broken   :", data["broken"])
        if data.get("oracle"):
            print("oracle   :", data["oracle"])
        return 0

    props = C.check_props(PID, ALLOWED_AXIOMS, thorough=(tier == "thorough"))
    P = read_params()
    broken = []
    if any(v is None for v in P.values()):
        broken.append("translator: a GC constant was not found in the source: %s" % P)

    n = 2000 if tier == "quick" else 100000
    ntop = 300 if tier == "quick" else 3000
    cases, meta = [], []
    for kind in list(KINDS) + ["toplevel-code"]:
        for live in (0, 10, 1000):
            for chunk in (0, 1024):
                for mult in (1, 10):
                    if kind == "toplevel-code":
                        forms = toplevel_forms(live, ntop * mult)
                        nn = ntop * mult
                    else:
                        forms = loop_forms(kind, live, n * mult)
                        nn = n * mult
                    meta.append((kind, live, chunk or 8192, nn, mult))
                    cases.append(stats_case(chunk, forms))
    C.log("[C12] %d heap-statistics cases" % len(cases))
    t0 = time.time()
    lines = C.run_impl(exe, cases, timeout=3000)
    C.log("[C12] ran in %.1fs" % (time.time() - t0))

    nontrivial, viol, observed = set(), [], []
    table = {}
    for c, m, line in zip(cases, meta, lines):
        kind, live, chunk, nn, mult = m
        ps = parse_stats(line)
        if ps is None:
            viol.append((c, "crash: heap-statistics session died or malformed line %r" % line[:120]))
            continue
        pts, info, res = ps
        if info.get("indep") != "ok":
            viol.append((c, "allocated-neq-reachable: " + info.get("indep", "?")[:300]))
            continue
        caps = [p[0] for p in pts]
        gcs = pts[-1][2]
        L = max(int(info.get("maxlive", 0)), pts[-1][1] if gcs == 0 else 0)
        A = int(info.get("maxalloc", 0))
        cad = P["gc_cadence"] or 8192
        B = cad * max(A, 1)
        if not broken:
            g = max(chunk, gbound(P, chunk, L, B))
            observed.append({"kind": kind, "live": live, "chunk": chunk, "n": nn, "capacity": max(caps),
                             "L": L, "B": B, "g": g, "collections": gcs})
            if max(caps) > g:
                viol.append((c, "capacity-above-proved-bound: capacity %d > g(L=%d,B=%d)=%d" % (max(caps), L, B, g)))
                continue
        table[(kind, live, chunk, mult)] = (caps[-1], gcs, nn, c, int(info.get("checked", 0)))
    for (kind, live, chunk, mult), (cap10, gcs10, nn10, c10, chk10) in list(table.items()):
        if mult != 10 or (kind, live, chunk, 1) not in table:
            continue
        cap1, gcs1, nn1, c1, _ = table[(kind, live, chunk, 1)]
        if cap10 != cap1:
            viol.append((c10, "heap-grows-with-work: kind=%s live=%d chunk=%d capacity(%d)=%d but capacity(%d)=%d"
                         % (kind, live, chunk, nn1, cap1, nn10, cap10)))
        elif gcs10 > 0 and chk10 > 0:
            nontrivial.add(C.digest((kind, live, chunk, nn10)))

    seen = set()
    for c, msg in viol:
        key = msg.split(":")[0]
        if key in seen:
            continue
        seen.add(key)
        rep.violation({"case": c, "readable": describe(c), "oracle": msg,
                       "impl": C.run_impl(exe, [c])[0][:2000]})
    if not props["ok"]:
        broken.append("proof: " + "; ".join(props["problems"])[:1500])
    if broken and not rep.violations:
        rep.violation({"broken": "proof obligation no longer checks: %s (%s)"
                                 % (props.get("broken_at", props["file"]), "; ".join(broken)[:1500]),
                       "cases": []}, no_input=True)

    samples = [{"readable": describe(cases[i]), "impl": lines[i][:300]} for i in (0, 5, len(cases) - 1) if i < len(cases)]
    samples += observed[:3]
    for t in props["theorems"][:4]:
        samples.append({"obligation": "%s.%s" % (props["file"], t)})
    rep.coverage = {
        "obligations": props["obligations"], "discharged": props["discharged"],
        "checker_cmd": "make -C coq %so  (coqc 8.16.1, full .vo; property file recompiled in this run%s)"
                       % (props["file"], "; cone rebuilt from clean + coqchk -o" if tier == "thorough" else ""),
        "trusted_base": C.TRUSTED_BASE_COMMON + TRUSTED_BASE,
        "theorems": props["theorems"], "axioms_reported": props["axioms"],
        "cone_files": props.get("cone_files", []), "proof_problems": props["problems"],
        "open_statements": [],
        "evaluations": len(cases), "distinct_nontrivial": len(nontrivial),
        "rule": RULE, "samples": samples, "exhaustive": False, "profiles": PROFILES,
        "gc_params_from_source": {k: (list(v) if isinstance(v, tuple) else v) for k, v in P.items()},
        "max_observed_capacity": max([o["capacity"] for o in observed] or [0]),
        "min_bound_slack": min([o["g"] - o["capacity"] for o in observed] or [0]),
        "pairs_n_10n_compared": sum(1 for k in table if k[3] == 10),
        "oracle_failures": len(viol),
        "distribution": {"kinds": sorted(set(m[0] for m in meta)), "live": [0, 10, 1000], "chunks": [8192, 1024],
                         "n": [n, 10 * n], "toplevel_forms": [ntop, 10 * ntop]},
        "partial": "process memory outside the VM heap (Rc cycles, Vec capacities, allocator) is not covered",
        "known_findings_seen": sorted(rep.known_seen), "broken": broken,
    }
    if "coqchk" in props:
        rep.coverage["coqchk"] = props["coqchk"]
    rep.assumptions = ASSUMPTIONS
    return rep.finish()
