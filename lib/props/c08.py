"""C08 — exact arithmetic is exact; inexactness is never silently dropped."""
from fractions import Fraction
from math import gcd
import numlib as L
from numlib import model_view, describe  # noqa: F401  (hooks used by the runner)

PID = "C08"
PROFILES = ["debug", "release"]
ALLOWED_AXIOMS = ["ClassicalDedekindReals.sig_not_dec", "ClassicalDedekindReals.sig_forall_dec",
                  "FunctionalExtensionality.functional_extensionality_dep", "Classical_Prop.classic"]
KERNEL_SAMPLE = {"quick": 300, "thorough": 2000}
CORRESPONDENCE = ("marwood/src/number.rs (Add Sub Mul Div quotient Rem modulo abs floor ceil truncate round "
                  "numerator denominator pow) + vm/builtin/number.rs + num-rational/num-integer on Ratio<i32> "
                  "vs Model/NumArith.v over Model/Ratio32.v")
RULE = ("the property's boundary palette (0, +-1, +-2^31, +-2^63, everything within 3 of those, +-2^32, 2^62, random "
        "32/64/128/256-bit integers, rationals with components up to 2^31-1 incl. i32::MIN numerators), every value in "
        "EVERY representation that can carry it (Fixnum / BigInt also for small values / n/1 rational); all ordered pairs "
        "(thorough) or a 1/8 sample (quick) x {+ - * / quotient remainder modulo} through the Number API and through "
        "Vm::eval of (op a b) with the numbers embedded in the AST; every value x the unary procedures; expt with "
        "exponents 0..100 in three representations; random variadic + and * lists; representation-independence cases "
        "(one operation on all representations of two values). Non-trivial = operands in different representations "
        "or within 2 of a representation boundary (0, 2^31, 2^63); distinct by case hash")
ASSUMPTIONS = [
    "num-bigint arithmetic is exact integer arithmetic (modelled as Z); BigInt::to_f64 and `as f64` round to nearest even",
    "libm (powf) is not modelled: expt with an inexact base is outside the claim",
    "round is modelled and tied but not claimed (C08 does not list it; num-rational rounds half away from zero)",
]
TRUSTED_BASE = ["Python oracle lib/props/c08.py + numlib.py (fractions.Fraction arithmetic)"]
MANIFEST = dict(
    text="Coq theorems over a hand-written model of number.rs and of the num-rational/num-integer algorithms it calls on "
         "Ratio<i32> (explicit i32 overflow outcomes per build profile): the Stein gcd port equals Z.gcd, reduce and "
         "checked add/sub/mul return None or the reduced exact value in Q; for all 9 exact representation pairs and both "
         "profiles an exact result of + - * equals the true value and is well-formed, and + - * never panic; quotient and "
         "remainder of exact integers (Fixnum/BigInt/n/1, incl. i64::MIN by -1) are the truncating results; refutation "
         "witnesses for the three recorded defect classes; / on exact operands with an exact result is the true quotient "
         "(C08_div_exact, all 9 pairs, both profiles) and C08_div_outcome says when it panics or is inexact; the result of "
         "+ - * is inexact IFF the operand pair takes one of the spelled-out overflow branches (C08_op_inexact_iff), the "
         "recorded fallback class = those branches with a representable true value is decidable, sound, complete and tight "
         "(every member is a defect instance), and outside it the full statement holds word for word (C08_full_outside); "
         "modulo is the flooring remainder outside a decidable class of two Fixnum-Rational cases that are refuted by "
         "witnesses. The earlier full-strength statements of modulo, inexact-only-if and float comparison were FALSE as "
         "written and are kept with their refutations. abs numerator denominator truncate floor ceiling round and expt "
         "(exact base, exponent fitting u32) return the exact value outside decidable overflow classes, and in a debug build panic EXACTLY in "
         "those classes (the recorded ratio32-overflow-panic finding, now characterised by arithmetic conditions); round is proved to be "
         "half-away-from-zero, which differs from R7RS round-to-even exactly on n/2 with n div 2 even (C08 does not list round; noted in DESIGN.md 10.4); the variadic + * - "
         "equal the n-ary sum/product whenever the result is exact, min/max return an argument bounding all; quotient/remainder/modulo of two "
         "integer-valued rationals complete the representation pairs. OPEN (oracle-checked on every run only): the 2^-50 error bound, when an "
         "inexact FOLD is justified (a witness shows it need not be), expt of a rational base beyond i32 exponents (libm). Tied to /repo by all pairs of the property's palette in every representation, through the Number API and "
         "through Vm::eval, debug and release builds, 3-way (impl / extracted model / vm_compute), with an independent "
         "exact-rational oracle for every clause of the property incl. representation independence.",
    design="DESIGN.md section 5 C08",
    note="Trusted: Coq kernel, the hand-written model (tied by differential correspondence), num-bigint as Z, rustc integer "
         "semantics per profile, extraction+OCaml driver (cross-checked in-kernel), Rust harness, Python oracle. Axioms: the "
         "Ratio32-level theorems (gcd, reduce, checked add/sub/mul) are closed under the global context; every theorem "
         "whose statement mentions a number.rs function (num_add ...) reports the four standard-library axioms behind "
         "Coq's reals (ClassicalDedekindReals.sig_not_dec, sig_forall_dec, functional_extensionality_dep, "
         "Classical_Prop.classic) because the float arms of the same functions are Flocq operations whose validity "
         "proofs are built over R; no other axiom. OPEN (oracle-checked only): error bound, justification of inexact "
         "folds, libm-dependent expt.",
    technique="Rocq/Coq proof (Z/Q arithmetic, gcd reasoning) + model/implementation correspondence check")

API_ARITH = [0, 1, 2, 3]          # + - * /
API_INTDIV = [4, 5, 6]            # quotient % modulo
VM_ARITH = [0, 1, 2, 3]
VM_INTDIV = [17, 18, 19]
API_UNARY = [0, 1, 2, 3, 4, 5, 6]
VM_UNARY = [16, 20, 21, 22, 23, 24, 25]
EXPONENTS = [0, 1, 2, 3, 4, 5, 7, 10, 16, 30, 31, 32, 33, 40, 62, 63, 64, 65, 100]


# ------------------------------------------------------------------ generation
def corpus():
    e = L.enc
    out = [
        [12, 3, *e(('fix', 1)), *e(('fix', -2**31))],            # (/ 1 -2147483648)
        [12, 3, *e(('fix', -2**31)), *e(('fix', -1))],           # (/ -2147483648 -1)
        [12, 16, *e(('rat', -2**31, 3))],                        # (abs -2147483648/3)
        [12, 26, *e(('rat', 1, 2)), *e(('fix', 40))],            # (expt 1/2 40)
        [12, 17, *e(('fix', -2**63)), *e(('fix', -1))],          # (quotient i64::MIN -1)
        [12, 19, *e(('fix', -2**63)), *e(('fix', -1))],          # (modulo i64::MIN -1)
        [12, 18, *e(('fix', -2**63)), *e(('fix', -1))],
        [12, 2, *e(('fix', 2**32)), *e(('rat', 1, 2))],          # (* 4294967296 1/2)
        [12, 3, *e(('fix', 10**10)), *e(('fix', 2))],            # (/ 10000000000 2)
        [12, 3, *e(('fix', 0)), *e(('fix', 2**31))],
        [12, 0, *e(('big', 5)), *e(('rat', 1, 2))],              # BigInt 5 + 1/2
        [12, 0, *e(('fix', 5)), *e(('rat', 1, 2))],
        [10, 4, *e(('rat', 7, 1)), *e(('rat', 2, 1))],           # quotient of integer-valued rationals
        [12, 20, *e(('rat', -2**31, 3))],                        # (floor -2147483648/3)
        [12, 17, *e(('rat', -2**31, 1)), *e(('rat', -1, 1))],
        [14, 0, 3, *e(('fix', 5)), *e(('big', 5)), *e(('rat', 5, 1)), *e(('rat', 1, 2))],
    ]
    return out


def _pairs(rng, items, tier, frac=8):
    allp = [(a, b) for a in items for b in items]
    if tier == "thorough":
        return allp
    return rng.sample(allp, len(allp) // frac)


def generate(rng, tier):
    pal = L.exact_palette(rng, 2, 6)
    ints = L.int_palette(rng, 1)
    fracs = L.frac_palette(rng, 2)
    cases = []
    dist = {"palette_values": len(pal)}

    def count(k, n=1):
        dist[k] = dist.get(k, 0) + n

    for a, b in _pairs(rng, pal, tier):
        ea, eb = L.enc(a), L.enc(b)
        vb = L.value(b)
        both_int = L.value(a).denominator == 1 and vb.denominator == 1
        for op in API_ARITH:
            if op == 3 and vb == 0:
                continue
            cases.append([10, op] + ea + eb)
        for op in VM_ARITH:
            cases.append([12, op] + ea + eb)
        if both_int:
            for op in API_INTDIV:
                if vb != 0:
                    cases.append([10, op] + ea + eb)
            for op in VM_INTDIV:
                cases.append([12, op] + ea + eb)
        elif rng.random() < 0.05:
            cases.append([12, rng.choice(VM_INTDIV)] + ea + eb)
        count("pair:%s-%s" % (a[0], b[0]))
    n_pairs = len(cases)
    for a in pal:
        for op in API_UNARY:
            cases.append([11, op] + L.enc(a))
        for op in VM_UNARY:
            cases.append([12, op] + L.enc(a))
        for e in (EXPONENTS if tier == "thorough" else rng.sample(EXPONENTS, 6)):
            if abs(L.value(a)) > 2**64 and e > 40:
                continue
            cases.append([11, 16, e] + L.enc(a))
            for er in L.reprs_of(e):
                if er[0] == 'fix' or rng.random() < 0.3:
                    cases.append([12, 26] + L.enc(a) + L.enc(er))
    n_unary = len(cases) - n_pairs
    nvar = 3000 if tier == "quick" else 25000
    for _ in range(nvar):
        n = rng.choice([0, 1, 1, 2, 3, 3, 4])
        args = []
        for _ in range(n):
            args += L.enc(rng.choice(pal))
        cases.append([12, rng.choice([0, 2, 0, 2, 1]), *args])
    vals = [Fraction(z) for z in ints] + fracs
    vp = [(x, y) for x in vals for y in vals]
    if tier == "quick":
        vp = rng.sample(vp, len(vp) // 8)
    n_ind = 0
    for x, y in vp:
        rx, ry = L.reprs_of(x), L.reprs_of(y)
        if len(rx) * len(ry) < 2:
            continue
        ops = [0, 1, 2, 3] + ([4, 5, 6] if x.denominator == 1 and y.denominator == 1 else [])
        for op in ops:
            if op >= 3 and y == 0:
                continue
            flat = [t for r in rx for t in L.enc(r)] + [t for r in ry for t in L.enc(r)]
            cases.append([14, op, len(rx)] + flat)
            n_ind += 1
    dist.update({"pair_cases": n_pairs, "unary_expt_cases": n_unary, "variadic_cases": nvar,
                 "independence_cases": n_ind, "exhaustive_pairs": tier == "thorough"})
    return cases, dist


# ---------------------------------------------------------------------- oracle
def trunc_div(a, b):
    q = abs(a) // abs(b)
    return q if (a >= 0) == (b >= 0) else -q


def floor_q(q):
    return q.numerator // q.denominator


def ceil_q(q):
    return -((-q.numerator) // q.denominator)


def trunc_q(q):
    return floor_q(q) if q >= 0 else ceil_q(q)


def check_value(res, true, mags, what):
    """the C08 clause for one operation: exact => equal and well-formed; inexact => only if not
    representable and within 2^-50 * max magnitude"""
    k = res[0]
    if k == 'panic':
        return "panic: %s panicked" % what
    if k == 'err':
        return "error: %s on valid exact operands signalled an error" % what
    if k != 'num':
        return "malformed: %s -> %r" % (what, res)
    x = res[1]
    if L.is_exact(x):
        if not L.wf(x):
            return "ill-formed: %s returned the ill-formed exact value %s" % (what, L.show(x))
        if L.value(x) != true:
            return "exact-wrong: %s returned exact %s but the true value is %s" % (what, L.show(x), true)
        return None
    if L.representable(true):
        return "inexact-though-representable: %s returned %s although the true value %s is representable exactly" % (
            what, L.show(x), true)
    v = L.value(x)
    if not isinstance(v, Fraction):
        return "error-bound: %s returned the non-finite %s" % (what, L.show(x))
    bound = Fraction(1, 2**50) * max([abs(m) for m in mags] + [abs(true)])
    if abs(v - true) > bound:
        return "error-bound: %s returned %s, off by more than 2^-50 * max magnitude" % (what, L.show(x))
    return None


def check_int(res, true, what):
    k = res[0]
    if k == 'panic':
        return "panic: %s panicked" % what
    if k in ('err', 'none'):
        return "error: %s on exact integers has no answer" % what
    if k != 'num':
        return "malformed: %s -> %r" % (what, res)
    x = res[1]
    if not L.is_exact(x):
        return "inexact-integer-division: %s returned the inexact %s" % (what, L.show(x))
    if not L.wf(x):
        return "ill-formed: %s returned %s" % (what, L.show(x))
    if L.value(x) != true:
        return "exact-wrong: %s returned %s but the true value is %s" % (what, L.show(x), true)
    return None


def expected(kind, vals):
    """the true value of an operation on exact values; None = no claim"""
    if kind == '+':
        return sum(vals, Fraction(0))
    if kind == '*':
        r = Fraction(1)
        for v in vals:
            r *= v
        return r
    if kind == '-':
        return -vals[0] if len(vals) == 1 else vals[0] - sum(vals[1:], Fraction(0))
    if kind == '/':
        return 1 / vals[0] if len(vals) == 1 else vals[0] / vals[1]
    a = vals[0]
    if kind == 'abs':
        return abs(a)
    if kind == 'floor':
        return Fraction(floor_q(a))
    if kind == 'ceil':
        return Fraction(ceil_q(a))
    if kind == 'truncate':
        return Fraction(trunc_q(a))
    if kind == 'numerator':
        return Fraction(a.numerator)
    if kind == 'denominator':
        return Fraction(a.denominator)
    b = vals[1]
    t = trunc_div(a.numerator, b.numerator)
    if kind == 'quotient':
        return Fraction(t)
    if kind == 'remainder':
        return a - b * t
    if kind == 'modulo':
        return a - b * floor_q(a / b)
    raise ValueError(kind)


API_KIND = {0: '+', 1: '-', 2: '*', 3: '/', 4: 'quotient', 5: 'remainder', 6: 'modulo'}
UN_KIND = {0: 'abs', 1: 'floor', 2: 'ceil', 3: 'truncate', 5: 'numerator', 6: 'denominator'}
VM_KIND = {0: '+', 1: '-', 2: '*', 3: '/', 16: 'abs', 17: 'quotient', 18: 'remainder', 19: 'modulo',
           20: 'floor', 21: 'ceil', 22: 'truncate', 24: 'numerator', 25: 'denominator', 26: 'expt'}


def classify(case):
    """(kind, operands) of a single-operation case, or None"""
    iface = case[0]
    if iface == 10:
        return API_KIND.get(case[1]), L.dec_args(case[2:])
    if iface == 11:
        if case[1] == 16:
            return 'expt', L.dec_args(case[3:]) + [('fix', case[2])]
        return UN_KIND.get(case[1]), L.dec_args(case[2:])
    if iface == 12:
        return VM_KIND.get(case[1]), L.dec_args(case[2:])
    return None, []


def oracle_single(kind, args, res, vm):
    if kind is None:
        return None
    if any(a[0] == 'other' or not L.is_exact(a) or not L.wf(a) for a in args):
        return None            # the property speaks about exact operands only
    vals = [L.value(a) for a in args]
    what = "(%s %s)" % (kind, " ".join(L.show(a) for a in args))
    if kind in ('+', '*'):
        return check_value(res, expected(kind, vals), vals, what)
    if kind == '-':
        if not vals:
            return None
        return check_value(res, expected(kind, vals), vals, what)
    if kind == '/':
        if len(vals) not in (1, 2):
            return None
        if vals[-1] == 0:
            if vm and res[0] != 'err':
                return "zero-divisor: %s did not signal an error: %r" % (what, res)
            return None
        return check_value(res, expected(kind, vals), vals, what)
    if kind in ('abs', 'floor', 'ceil', 'truncate', 'numerator', 'denominator'):
        if len(vals) != 1:
            return None
        return check_value(res, expected(kind, vals), vals, what)
    if kind in ('quotient', 'remainder', 'modulo'):
        if len(vals) != 2 or vals[0].denominator != 1 or vals[1].denominator != 1:
            return None
        if vals[1] == 0:
            if vm and res[0] != 'err':
                return "zero-divisor: %s did not signal an error: %r" % (what, res)
            return None
        return check_int(res, expected(kind, vals), what)
    if kind == 'expt':
        if len(vals) != 2 or vals[1].denominator != 1 or vals[1] < 0 or vals[1] >= 2**32:
            return None
        return check_value(res, vals[0] ** int(vals[1]), vals, what)
    return None


def split_parts(line):
    """'ALL;r1;r2' -> [r1, r2]"""
    return line.split(";")[1:]


def oracle(case, impl_line):
    iface = case[0]
    if iface in (10, 11, 12):
        kind, args = classify(case)
        return oracle_single(kind, args, L.parse_result(impl_line), iface == 12)
    if iface == 14:
        if not impl_line.startswith("ALL"):
            return "panic: independence case -> %s" % impl_line[:60]
        parts = [L.parse_result(p) for p in split_parts(impl_line)]
        sig = set()
        for r in parts:
            if r[0] == 'num':
                x = r[1]
                sig.add(('exact', L.value(x)) if L.is_exact(x) else ('inexact', x[1]))
            else:
                sig.add(r)
        if len(sig) > 1:
            return "repr-dependent: the same values in different representations give different answers: %s" % (
                sorted(map(str, sig))[:4],)
        return None
    return None


# ------------------------------------------------------------------ known classes
def _fits32(z):
    return L.I32_MIN <= z <= L.I32_MAX


def _as_ratio(x):
    """the Rational32 an operand becomes on the checked route, or None"""
    if x[0] == 'rat':
        return (x[1], x[2])
    if x[0] in ('fix', 'big') and _fits32(x[1]):
        return (x[1], 1)
    return None


def ratio_checked_some(op, a, b):
    """does num-rational's checked_{add,sub,mul,div} on Ratio<i32> return Some? (independent port of the
    overflow conditions of lib.rs:805-894)"""
    an, ad = a
    bn, bd = b
    if op in '+-':
        g = gcd(ad, bd)
        lcm = ad // g * bd
        if not _fits32(lcm):
            return False
        ln, rn = lcm // ad * an, lcm // bd * bn
        if not (_fits32(ln) and _fits32(rn)):
            return False
        return _fits32(ln + rn if op == '+' else ln - rn)
    if op == '*':
        gad, gbc = gcd(an, bd), gcd(ad, bn)
        return _fits32((an // gad) * (bn // gbc)) and _fits32((ad // gbc) * (bd // gad))
    if op == '/':
        if bn == 0:
            return False
        if ad == bd:
            n, d = an, bn
        elif an == bn:
            n, d = bd, ad
        else:
            gac, gbd = gcd(an, bn), gcd(ad, bd)
            n, d = (an // gac) * (bd // gbd), (ad // gbd) * (bn // gac)
            if not (_fits32(n) and _fits32(d)):
                return False
        if n == 0 or n == d:
            return True
        g = gcd(n, d)
        n, d = n // g, d // g
        if d < 0:
            return _fits32(-n) and _fits32(-d)
        return True
    return True


def fallback_class(op, a, b):
    """the float-fallback branches of number.rs Add/Sub/Mul/Div that a pair of exact operands takes:
    returns a finding id or None"""
    ka, kb = a[0], b[0]
    ints = ('fix', 'big')
    if op == '/' and ka in ints and kb in ints:
        if not (_fits32(a[1]) and _fits32(b[1])):
            return "float-fallback-representable"          # number.rs:716,723,741,748
        return None
    if (ka in ints and kb == 'rat') or (ka == 'rat' and kb in ints):
        i, r = (a, b) if ka in ints else (b, a)
        nonint = r[2] != 1
        if i[0] == 'big' and op in '+-*':
            if nonint:
                return "bigint-small-repr-dependence" if _fits32(i[1]) else "float-fallback-representable"
            return None
        if not _fits32(i[1]):
            return "float-fallback-representable"          # the `else` branches on to_i32().is_some()
    ra, rb = _as_ratio(a), _as_ratio(b)
    if ra is not None and rb is not None and (ka == 'rat' or kb == 'rat'):
        if not ratio_checked_some(op, ra, rb):
            return "float-fallback-representable"          # checked_* returned None
    return None


def sim_step(op, acc, arg):
    """one `acc op arg` of number.rs on exact operands: (finding id, None) when the pair takes a float
    fallback branch, else (None, representation of the exact result)"""
    fid = fallback_class(op, acc, arg)
    if fid:
        return fid, None
    va, vb = L.value(acc), L.value(arg)
    v = va + vb if op == '+' else va - vb if op == '-' else va * vb if op == '*' else va / vb
    ka, kb = acc[0], arg[0]
    if ka == 'rat' or kb == 'rat':
        if 'big' in (ka, kb) and op != '/':
            return None, ('big', v.numerator)
        return None, ('rat', v.numerator, v.denominator)
    if op == '/':
        return None, ('rat', v.numerator, v.denominator)
    if ka == 'big' or kb == 'big' or not (L.I64_MIN <= v.numerator <= L.I64_MAX):
        return None, ('big', v.numerator)
    return None, ('fix', v.numerator)


def fold_class(kind, args):
    """the fold of builtin/number.rs plus/minus/multiply/divide over its argument list (last argument
    first), following the representation of the exact intermediate results; the finding id of the first
    step that takes a float fallback branch, or None"""
    steps = []
    if kind in ('+', '*'):
        acc = ('fix', 0 if kind == '+' else 1)
        for a in reversed(args):
            steps.append((kind, a))
    elif kind == '-':
        acc = ('fix', 0)
        for a in reversed(args[1:]):
            steps.append(('+', a))
    elif kind == '/':
        if len(args) == 1:
            return fallback_class('/', ('fix', 1), args[0])
        return fallback_class('/', args[0], args[1]) if len(args) == 2 else None
    for op, a in steps:
        fid, acc = sim_step(op, acc, a)
        if fid:
            return fid
    if kind == '-':
        fid, acc = sim_step('-', args[0], acc)
        if fid:
            return fid
        if len(args) == 1:
            fid, acc = sim_step('*', acc, ('fix', -1))
            return fid
    return None


def _debug_part(ml):
    return ml.split("|", 1)[0]


def _known_single(kind, args, res, ml, vm):
    if kind is None or any(a[0] == 'other' or not L.is_exact(a) for a in args):
        return None
    # (A) an overflow inside a num-rational / num-integer primitive on Ratio<i32>: the Debug run of the
    # model reaches a Panic (the Release run continues with wrapped garbage)
    if "PANIC" in _debug_part(ml) and (any(a[0] == 'rat' for a in args) or kind == '/'):
        return "ratio32-overflow-panic"
    # (B) float fallbacks
    if res[0] == 'num' and res[1][0] == 'flo' and kind in ('+', '-', '*', '/') and len(args) >= 1:
        if not vm:
            return fallback_class(kind, args[0], args[1]) if len(args) == 2 else None
        return fold_class(kind, args)
    if res[0] == 'num' and res[1][0] == 'flo' and kind == 'modulo' and len(args) == 2:
        return modulo_class(args[0], args[1])
    return None


def modulo_class(a, b):
    """modulo is `(a % b + b) % b`: the intermediate sum of two integer-valued rationals overflows i32"""
    if a[0] != 'rat' and b[0] != 'rat':
        return None
    va, vb = L.value(a), L.value(b)
    if va.denominator == 1 and vb.denominator == 1 and vb != 0:
        rem = va - vb * trunc_div(va.numerator, vb.numerator)
        if not _fits32((rem + vb).numerator):
            return "float-fallback-representable"
    return None


def known_class(case, impl_line, model_line):
    iface = case[0]
    if iface in (10, 11, 12):
        kind, args = classify(case)
        return _known_single(kind, args, L.parse_result(impl_line), model_line, iface == 12)
    if iface == 14:
        nums = L.dec_args(case[3:])
        xs, ys = nums[:case[2]], nums[case[2]:]
        kind = API_KIND.get(case[1])
        if "PANIC" in _debug_part(model_line):
            return "ratio32-overflow-panic"
        ids = set()
        for a in xs:
            for b in ys:
                fid = None
                if kind in ('+', '-', '*', '/'):
                    fid = fallback_class(kind, a, b)
                elif kind == 'modulo':
                    fid = modulo_class(a, b)
                if fid:
                    ids.add(fid)
        if "bigint-small-repr-dependence" in ids:
            return "bigint-small-repr-dependence"
        if ids:
            return "float-fallback-representable"
    return None


# ------------------------------------------------------------------- bookkeeping
def _near_boundary(x):
    if not L.is_exact(x):
        return False
    v = L.value(x)
    if v.denominator != 1:
        return abs(v.numerator) >= 2**31 - 3 or v.denominator >= 2**31 - 3
    z = abs(v.numerator)
    return z <= 2 or abs(z - 2**31) <= 2 or abs(z - 2**63) <= 2


def nontrivial(case, impl_line):
    if case[0] == 14:
        return True
    try:
        _, args = classify(case)
    except Exception:  # noqa
        return False
    args = [a for a in args if a[0] != 'other']
    if not args:
        return False
    return len({a[0] for a in args}) > 1 or any(_near_boundary(a) for a in args)


def _simpler(x):
    k = x[0]
    if k in ('fix', 'big'):
        z = x[1]
        for c in (0, 1, -1, z // 2, z - 1 if z > 0 else z + 1):
            if c != z and (k == 'big' or L.I64_MIN <= c <= L.I64_MAX):
                yield (k, c)
        if k == 'big' and L.I64_MIN <= z <= L.I64_MAX:
            yield ('fix', z)
    elif k == 'rat':
        n, d = x[1], x[2]
        for c in ((1, 2), (n // 2, d), (n, d // 2), (n, 1)):
            if c[1] > 0 and c != (n, d) and gcd(c[0], c[1]) == 1:
                yield ('rat', c[0], c[1])


def reductions(case):
    iface = case[0]
    if iface == 10:
        head, args = case[:2], L.dec_args(case[2:])
    elif iface == 12:
        head, args = case[:2], L.dec_args(case[2:])
        if len(args) > 2:
            for i in range(len(args)):
                rest = args[:i] + args[i + 1:]
                yield head + [t for a in rest for t in L.enc(a)]
    elif iface == 11 and case[1] != 16:
        head, args = case[:2], L.dec_args(case[2:])
    else:
        return
    for i, a in enumerate(args):
        for s in _simpler(a):
            new = args[:i] + [s] + args[i + 1:]
            yield head + [t for x in new for t in L.enc(x)]


def neighbours(case, rng):
    iface = case[0]
    if iface not in (10, 12) or (iface == 11):
        return []
    head, args = case[:2], L.dec_args(case[2:])
    out = []
    for i, a in enumerate(args):
        if not L.is_exact(a):
            continue
        v = L.value(a)
        cands = []
        for dv in (-2, -1, 1, 2):
            cands += L.reprs_of(v + dv)
        cands += L.reprs_of(v)
        for c in cands:
            new = args[:i] + [c] + args[i + 1:]
            out.append(head + [t for x in new for t in L.enc(x)])
    return out
