"""C16 — number->string and string->number are mutually inverse."""
import math, re, struct
from fractions import Fraction

PID = "C16"
ALLOWED_AXIOMS = ["sig_forall_dec", "sig_not_dec", "functional_extensionality_dep", "classic"]
PROFILES = ["debug"]
CORRESPONDENCE = ("number.rs Number::parse/parse_with_exactness/to_exact/Display/LowerHex/Octal/Binary, "
                  "vm/builtin/number.rs number_string/string_number (with the num crates and std float "
                  "formatting/parsing they run) vs Model/NumFmt.v, F64Fmt.v, NumProc.v")
RULE = ("numbers: the C08/C09 boundary palette (0, +-1, +-2^31, +-2^63 and neighbours, 2^53, 1e10+-ulp, subnormals, max, "
        "+-0.0, non-finite) in every representation that can carry the value (fixnum, bignum also for small values, "
        "rational reduced / integer-valued / as stored, float), random fixnums, bignums up to 2000 bits, reduced rationals "
        "of both signs, finite doubles by bit pattern (uniform over sign/exponent/mantissa) and short decimals; radices "
        "2 8 10 16 (and others for the argument handling). For each (number, radix): the round trip "
        "(string->number (number->string z r) r) through Vm::eval, the printed spelling re-read as a source literal with "
        "the matching #b/#o/#d/#x prefix through Vm::eval_text, the printer per representation, and the parser on every "
        "token shape the lexer can hand over (digits signs . / e _ hex letters inf nan, mutated printed spellings) with "
        "each exactness. non-trivial = a round-trip/literal case on an exact number or a finite double in radix 10, or a "
        "parse case whose result is a number; distinct by case hash")
ASSUMPTIONS = [
    "std float formatting ({} {:e} {:.1}) and str::parse::<f64> are trusted: Model/F64Fmt.v states what they are specified "
    "to compute (shortest round-trip digits closest to the value, exact fixed expansion, correct rounding) and the "
    "correspondence check samples that they do; the float theorems are about that model",
    "num-bigint to_f64 / num-rational ratio_to_f64 modelled as correct rounding; BigInt as Z",
    "the VM's argument evaluation and heap round trip leave numbers and strings unchanged (sampled through Vm::eval)",
]
TRUSTED_BASE = ["Flocq 4 BinarySingleNaN (binary_normalize, Bdiv_correct_aux, Bplus..: executable definitions; their "
                "correctness lemmas over R bring the standard real-number axioms)"]
KERNEL_SAMPLE = {"quick": 200, "thorough": 2000}
KERNEL_MAXLEN = 120
MANIFEST = dict(
    text="Coq theorems over a hand-written model of Number::parse/Display/radix printers and the two procedures "
         "(after two fix: commits): digit strings invert in every radix >= 2; every exact number (fixnum, bignum, reduced "
         "rational, both signs) round-trips through number->string/string->number in radix 2 8 10 16 with its exactness; a "
         "spelling scanned as one token after #b/#o/#d/#x denotes what string->number gives, and every printed exact "
         "spelling is such a literal for the number itself; a radix outside 2..36 is an error, never a panic; the printed "
         "form of a finite double always reaches the float parser. Finite doubles round-trip in radix 10 RELATIVE TO two "
         "statements about the executable specification of std's shortest formatting / correctly rounded parsing that are "
         "kept OPEN (checked in-kernel on 160 doubles and against the real std on every run); float spellings are one Number token given a third such statement. Tied to /repo by a 3-way "
         "differential (impl / extracted model / vm_compute) over palettes x radices.",
    design="DESIGN.md section 5 C16",
    note="OPEN (stated as Definitions in Props/C16.v, hypotheses of C16_float_roundtrip / C16_float_literal): "
         "C16_std_roundtrip_stmt (dec2flt (display x) = x on the std specification), C16_display_point_stmt and "
         "C16_no_inner_minus_stmt; each is decidable per double and checked in-kernel on 160 doubles. Trusted: Coq kernel, the hand-written model (sampling correspondence), std's float formatting "
         "and parsing (specified, not verified: Model/F64Fmt.v is the function Grisu/Dragon and dec2flt are specified to "
         "compute), num-bigint as Z, extraction+OCaml driver (cross-checked in-kernel), Rust harness, Python oracle. "
         "Axioms: the standard library real-number axioms (sig_forall_dec, sig_not_dec, functional_extensionality_dep, "
         "classic) through Flocq, because the statements mention binary64 operations; the digit-string theorems are closed.",
    technique="Rocq/Coq proof (induction over digit strings and token scans, Flocq for binary64) + model/implementation correspondence check")

I64_MIN, I64_MAX = -2**63, 2**63 - 1
I32_MIN, I32_MAX = -2**31, 2**31 - 1


# ------------------------------------------------------------------ encoding
def fix(z): return [0, 1 if z < 0 else 0, abs(z)]
def big(z): return [1, 1 if z < 0 else 0, abs(z)]
def rat(n, d): return [2, 1 if n < 0 else 0, abs(n), 1 if d < 0 else 0, abs(d)]
def flob(b): return [3, b]
def f2b(x): return struct.unpack("<Q", struct.pack("<d", x))[0]
def b2f(b): return struct.unpack("<d", struct.pack("<Q", b))[0]
def flo(x): return flob(f2b(x))
def txt(s): return [ord(c) for c in s]


def take_num(c):
    """-> (descr, rest); descr = ('fix'|'big', z) | ('rat', n, d) | ('flo', bits)"""
    t = c[0]
    if t == 0:
        return ("fix", -c[2] if c[1] else c[2]), c[3:]
    if t == 1:
        return ("big", -c[2] if c[1] else c[2]), c[3:]
    if t == 2:
        return ("rat", -c[2] if c[1] else c[2], -c[4] if c[3] else c[4]), c[5:]
    return ("flo", c[1]), c[2:]


def parse_shown(tokens):
    """parse 'FIX s a' / 'BIG s a' / 'RAT s n s d' / 'FLO hex' from a token list -> descr, rest"""
    k = tokens[0]
    if k in ("FIX", "BIG"):
        v = int(tokens[2]); v = -v if tokens[1] == "1" else v
        return (k.lower(), v), tokens[3:]
    if k == "RAT":
        n = int(tokens[2]); n = -n if tokens[1] == "1" else n
        d = int(tokens[4]); d = -d if tokens[3] == "1" else d
        return ("rat", n, d), tokens[5:]
    if k == "FLO":
        return ("flo", int(tokens[1], 16)), tokens[2:]
    return None, tokens


def is_exact(d): return d[0] in ("fix", "big", "rat")


def value(d):
    """exact value as a Fraction; None for non-finite floats / zero denominators"""
    if d[0] in ("fix", "big"):
        return Fraction(d[1])
    if d[0] == "rat":
        return Fraction(d[1], d[2]) if d[2] != 0 else None
    x = b2f(d[1])
    if math.isinf(x) or math.isnan(x):
        return None
    return Fraction(x)


def finite_float(d):
    return d[0] == "flo" and value(d) is not None


def show_descr(d):
    if d is None:
        return None
    if d[0] == "flo":
        return "float %r (bits %x)" % (b2f(d[1]), d[1])
    if d[0] == "rat":
        return "rational %d/%d" % (d[1], d[2])
    return "%s %d" % ("fixnum" if d[0] == "fix" else "bignum", d[1])


def unesc(s):
    return re.sub(r"\\u\{([0-9a-f]+)\}", lambda m: chr(int(m.group(1), 16)), s)


# ---------------------------------------------------------------- generators
INT_PALETTE = sorted(set(
    [0, 1, -1, 2, -2, 7, -7, 10, -10, 255, -255, 12345, -98765]
    + [s * (2**k + o) for s in (1, -1) for k in (31, 32, 53, 62, 63, 64, 127, 128) for o in (-2, -1, 0, 1, 2)]
    + [10**k for k in (9, 10, 18, 19, 20, 30)] + [-10**k for k in (10, 19, 20)]))

FLOAT_PALETTE_BITS = sorted(set(
    [0, 1 << 63, 1, 2, 3, (1 << 63) | 1, 0x000fffffffffffff, 0x0010000000000000, 0x0010000000000001,
     0x7fefffffffffffff, 0xffefffffffffffff, 0x7ff0000000000000, 0xfff0000000000000, 0x7ff8000000000000,
     0x3ff0000000000000, 0xbff0000000000000, 0x3fe0000000000000, 0x3fb999999999999a]
    + [f2b(1e10) + o for o in (-2, -1, 0, 1, 2)] + [f2b(-1e10) + o for o in (-1, 0, 1)]
    + [f2b(2.0**k) + o for k in (31, 52, 53, 54, 62, 63, 64, 127, 128) for o in (-1, 0, 1)]
    + [f2b(-(2.0**k)) + o for k in (31, 53, 63, 64, 127) for o in (-1, 0, 1)]
    + [f2b(x) for x in (1e22, 1e23, 9.999999999999999e22, 1e21, 1e16, 123456789012.5, 2.0**50 + 0.25, 5e-324, 2e-323,
                        2.2250738585072014e-308, 2.225073858507201e-308, 0.1, 0.3, 1.5, -42.42, 42.5, 1e-7, 1e-5, 9.5,
                        0.000123, 6.02214076e23, 1.7976931348623157e308, 4.35, 0.5, 2.5, 1e300, -1e300, 8.41e21,
                        2147483647.5, 2147483648.5, 0.99999999999, 1e-10, 3.141592653589793)]))

RADICES = [2, 8, 10, 16]


def rand_int(rng):
    r = rng.random()
    if r < 0.25:
        return rng.choice(INT_PALETTE)
    if r < 0.45:
        return rng.randint(-1000, 1000)
    if r < 0.7:
        return rng.randint(I64_MIN, I64_MAX)
    bits = rng.choice([32, 64, 65, 70, 100, 128, 200, 256, 300])
    if r > 0.98:
        bits = rng.choice([1000, 2000])
    v = rng.getrandbits(bits)
    return -v if rng.random() < 0.5 else v


def rand_int_repr(rng):
    z = rand_int(rng)
    if I64_MIN <= z <= I64_MAX and rng.random() < 0.7:
        return fix(z)
    return big(z)


def rand_rational(rng, reduced=True):
    r = rng.random()
    if r < 0.3:
        n = rng.randint(-50, 50); d = rng.randint(1, 50)
    elif r < 0.5:
        n = rng.choice([I32_MIN, I32_MIN + 1, I32_MAX, I32_MAX - 1, 1, -1, 2**30, -2**30]); d = rng.choice([1, 2, 3, 7, I32_MAX, I32_MAX - 1, 2**30])
    else:
        n = rng.randint(I32_MIN, I32_MAX); d = rng.randint(1, I32_MAX)
    if reduced:
        g = math.gcd(n, d)
        n //= g; d //= g
        if n == 0:
            d = 1
    return n, d


def rand_rational_raw(rng):
    """as stored: also unreduced, negative or unit denominators, integer-valued"""
    r = rng.random()
    if r < 0.6:
        n, d = rand_rational(rng)
        return rat(n, d)
    if r < 0.75:
        return rat(rng.randint(-100, 100), 1)
    if r < 0.9:
        return rat(rng.randint(-100, 100) * 2, rng.choice([2, 4, 6, -2]))
    return rat(rng.randint(I32_MIN, I32_MAX), rng.choice([-1, -3, I32_MIN, -7]))


def rand_float_bits(rng, finite=False):
    r = rng.random()
    if r < 0.2:
        b = rng.choice(FLOAT_PALETTE_BITS)
    elif r < 0.6:
        b = rng.getrandbits(64)
    elif r < 0.75:
        # short decimals
        x = rng.randint(0, 10**rng.randint(1, 17)) / 10.0**rng.randint(0, 20)
        if rng.random() < 0.3:
            x *= 10.0**rng.randint(-300, 300)
        b = f2b(x if rng.random() < 0.7 else -x)
    elif r < 0.85:
        # integer-valued
        x = float(rng.randint(-2**rng.randint(1, 70), 2**rng.randint(1, 70)))
        b = f2b(x)
    elif r < 0.93:
        # around 1e10 and the fixnum edges
        base = rng.choice([1e10, 1e10, 2.0**53, 2.0**63, 1.0, 1e15, 1e16, 1e17, 1e21, 1e22])
        b = f2b(base) + rng.randint(-40, 40)
        if rng.random() < 0.3:
            b |= 1 << 63
    else:
        # subnormals
        b = rng.getrandbits(rng.randint(1, 52)) | (rng.getrandbits(1) << 63)
    if finite and ((b >> 52) & 0x7ff) == 0x7ff:
        b &= ~(1 << 62)
    return b


def rand_number(rng, finite=True, raw_rational=False):
    r = rng.random()
    if r < 0.35:
        return rand_int_repr(rng)
    if r < 0.5:
        if raw_rational:
            return rand_rational_raw(rng)
        n, d = rand_rational(rng)
        return rat(n, d)
    return flob(rand_float_bits(rng, finite))


def py_radix(z, r):
    if z == 0:
        return "0"
    digs = "0123456789abcdefghijklmnopqrstuvwxyz"
    s, a = "", abs(z)
    while a:
        s = digs[a % r] + s; a //= r
    return ("-" if z < 0 else "") + s


SOUP = "0123456789" * 3 + "+-./e" * 3 + "_abcdefABCDEFpPxX#infINFnaNyt i" + "\u00e9\u0663"


def rand_spelling(rng):
    """(text, radix): every token shape the lexer can hand to Number::parse, and more"""
    radix = rng.choice(RADICES + [10, 10, 10, 16])
    r = rng.random()
    digs = "0123456789abcdefghijklmnopqrstuvwxyz"[:radix]

    def digits(n, rdx=None):
        dd = digs if rdx is None else "0123456789abcdefghijklmnopqrstuvwxyz"[:rdx]
        return "".join(rng.choice(dd) for _ in range(n))

    def sign():
        return rng.choice(["", "", "", "-", "+", "-", "+-", "--", "-+", "++"])
    if r < 0.12:
        s = "".join(rng.choice(SOUP) for _ in range(rng.randint(0, 12)))
    elif r < 0.27:
        s = sign() + digits(rng.choice([1, 2, 3, 9, 10, 18, 19, 20, 21, 40, 64, 65]))
        if rng.random() < 0.2:
            k = rng.randint(0, len(s)); s = s[:k] + "_" + s[k:]
    elif r < 0.32:
        z = rng.choice(INT_PALETTE) + rng.randint(-1, 1)
        s = py_radix(z, radix)
        if rng.random() < 0.3:
            s = s.upper()
    elif r < 0.47:
        a = sign() + digits(rng.choice([1, 2, 5, 9, 10, 11, 20]))
        b = rng.choice(["", "", "-", "+"]) + digits(rng.choice([1, 2, 5, 9, 10, 11, 20]))
        if rng.random() < 0.25:
            a = py_radix(rng.choice([I32_MIN, I32_MAX, I32_MIN - 1, I32_MAX + 1, -I32_MAX]), radix)
        if rng.random() < 0.25:
            b = py_radix(rng.choice([I32_MIN, I32_MAX, I32_MAX + 1, 0, 1, -1, -3, 2]), radix)
        if rng.random() < 0.1:
            k = rng.randint(0, len(a)); a = a[:k] + "_" + a[k:]
        s = a + "/" + b
        if rng.random() < 0.05:
            s += "/" + digits(1)
    elif r < 0.75:
        # decimal / positional fraction shapes
        ip = digits(rng.choice([0, 1, 1, 2, 5, 17, 25]))
        fp = digits(rng.choice([0, 1, 1, 2, 5, 17, 30]))
        s = sign() + ip + rng.choice([".", ".", ""]) + fp
        if rng.random() < 0.5:
            e = rng.choice(["e", "E", "p", "P"]) if radix != 10 else rng.choice(["e", "e", "E"])
            s += e + rng.choice(["", "", "-", "+", "+-"]) + "".join(rng.choice("0123456789") for _ in range(rng.choice([0, 1, 1, 2, 3, 3, 5, 12, 25])))
        if rng.random() < 0.03:
            k = rng.randint(0, len(s)); s = s[:k] + rng.choice("_x/ ") + s[k:]
    elif r < 0.80:
        s = rng.choice(["", "-", "+", "--"]) + rng.choice(["inf", "nan", "infinity", "Inf", "NaN", "INFINITY", "iNf", "infinit", "nann", "in"])
    elif r < 0.86:
        # extreme exponents and long mantissas (radix 10)
        radix = 10
        s = rng.choice(["1e400", "1e-400", "1e308", "1.8e308", "1e309", "4.9e-324", "2.5e-324", "2.4e-324", "1e99999", "1e-99999",
                        "0e999999999999999999999", "1e65535", "1e65536", "1e-65537", "0." + "0" * 400 + "1e400", "1" + "0" * 400 + "e-400",
                        "1" + "0" * 400, "0." + "0" * 330 + "1", "9007199254740993", "9007199254740993.0", "9007199254740992.5",
                        "9007199254740993.00000000000000000000000001", "1.00000000000000011102230246251565404236316680908203125",
                        "1.00000000000000011102230246251565404236316680908203124", "1.00000000000000011102230246251565404236316680908203126",
                        "179769313486231580793728971405303415079934132710037826936173778980444968292764750946649017977587207096330286416692887910946555547851940402630657488671505820681908902000708383676273854845817711531764475730270069855571366959622842914819860834936475292719074168444365510704342711559699508093042880177904174497791.9",
                        "179769313486231580793728971405303415079934132710037826936173778980444968292764750946649017977587207096330286416692887910946555547851940402630657488671505820681908902000708383676273854845817711531764475730270069855571366959622842914819860834936475292719074168444365510704342711559699508093042880177904174497792.0"])
    elif r < 0.93:
        # a printed float, possibly mutated
        x = b2f(rand_float_bits(rng, True))
        radix = 10
        s = rng.choice([repr(x), "%.17g" % x, "%.1f" % x if abs(x) < 1e30 else repr(x), "%e" % x])
        if rng.random() < 0.3 and s:
            k = rng.randrange(len(s)); s = s[:k] + rng.choice("0123456789.e-+_/") + s[k + rng.randint(0, 1):]
    else:
        # big rationals
        a = sign() + digits(rng.choice([12, 25, 40, 400]))
        b = digits(rng.choice([1, 12, 25, 40, 400]))
        s = a + "/" + b
    if rng.random() < 0.05:
        radix = rng.choice([3, 7, 11, 12, 25, 26, 35, 36, 0, 1, 37, 100])
    return s, radix


def gen_parse_case(rng):
    s, radix = rand_spelling(rng)
    ex = rng.choice([0, 0, 0, 1, 1, 2])
    return [20, ex, radix] + txt(s)


def gen_display_case(rng):
    fmt = rng.choice([10, 10, 10, 16, 8, 2])
    return [21, fmt] + rand_number(rng, finite=(rng.random() < 0.97), raw_rational=True)


def rand_radix_arg(rng):
    r = rng.random()
    if r < 0.6:
        return fix(rng.choice(RADICES))
    if r < 0.75:
        return fix(rng.choice([0, 1, 3, 7, 9, 11, 36, 37, 100, -2, -16, 2**32 + 10, 2**32 + 16, 2**63 - 1]))
    if r < 0.82:
        return big(rng.choice([16, 10, 2, 2**64 + 16, -16, 2**64 - 1, 0]))
    if r < 0.9:
        return rat(rng.choice([16, 10, 2, 32, -16]), rng.choice([1, 1, 2]))
    return flo(rng.choice([16.0, 10.0, 2.0, 2.5, -1.0]))


def gen_proc_case(rng):
    if rng.random() < 0.5:
        if rng.random() < 0.25:
            return [22, 1] + rand_number(rng)
        return [22, 2] + rand_radix_arg(rng) + rand_number(rng)
    s, radix = rand_spelling(rng)
    if rng.random() < 0.25:
        return [23, 1] + txt(s)
    ra = rand_radix_arg(rng) if rng.random() < 0.4 else fix(radix if radix >= 0 else 10)
    return [23, 2] + ra + txt(s)


def gen_roundtrip_case(rng, iface):
    r = rng.random()
    if r < 0.5:
        return [iface, rng.choice(RADICES)] + (rand_int_repr(rng) if rng.random() < 0.7 else rat(*rand_rational(rng)))
    return [iface, 10 if rng.random() < 0.85 else rng.choice([2, 8, 16])] + flob(rand_float_bits(rng, True))


def palette_cases():
    out = []
    for z in INT_PALETTE:
        reps = [big(z)]
        if I64_MIN <= z <= I64_MAX:
            reps.append(fix(z))
        if I32_MIN <= z <= I32_MAX:
            reps.append(rat(z, 1))
        for rep in reps:
            for r in RADICES:
                out.append([24, r] + rep)
                out.append([25, r] + rep)
                out.append([21, r] + rep)
    for n, d in [(1, 2), (-1, 2), (12, 7), (-12, 7), (I32_MAX, 2), (I32_MIN, 3), (I32_MIN + 1, I32_MAX), (1, I32_MAX), (-1, I32_MAX),
                 (5, 7), (-255, 16), (1, 3), (-2, 3), (1, 10), (314159, 100000)]:
        for r in RADICES:
            out.append([24, r] + rat(n, d))
            out.append([25, r] + rat(n, d))
            out.append([21, r] + rat(n, d))
    for b in FLOAT_PALETTE_BITS:
        for r in RADICES:
            out.append([21, r] + flob(b))
        out.append([24, 10] + flob(b))
        out.append([25, 10] + flob(b))
        fin = ((b >> 52) & 0x7ff) != 0x7ff
        if fin:
            for r in (2, 8, 16):
                out.append([24, r] + flob(b))
    return out


def corpus():
    out = []
    # the two repaired defects and their neighbours
    for z in (-5, -1, I64_MIN, -255):
        for r in (2, 8, 16):
            out.append([24, r] + fix(z)); out.append([25, r] + fix(z)); out.append([21, r] + fix(z))
    for r in (2, 8, 16):
        out.append([24, r] + rat(-1, 2)); out.append([25, r] + rat(-1, 2))
    for rad in (0, 1, 37, 100, 2**32 + 10, 2**32 + 16):
        out.append([23, 2] + fix(rad) + txt("1"))
        out.append([23, 2] + big(rad) + txt("ff"))
    for s in ("12", "-5", "1_0", "+_1", "1/2", "4/2", "1/0", "1e400", "-0.0", "inf", "nan", "-nan", "+inf", "+", "-", "1.", ".5", ".",
              "1e", "1e5", "9223372036854775808", "-9223372036854775808", "3000000000/7", "6000000000/3", "1/-2",
              "-2147483648/-3", "1/-2147483648", "1_/2", "1/2/3", "1e23", "4.9e-324"):
        for ex in (0, 1, 2):
            out.append([20, ex, 10] + txt(s))
    for s in ("ff", "-ff", "1.8", "1p3", "1e3", "inf", "nan", "-nan", ".", "-.", "p5", "1p-1030", "1p1024", "123456789abcdef01.8", "1p++5", "+1.8"):
        out.append([20, 0, 16] + txt(s))
    return out + palette_cases()


def generate(rng, tier):
    n = 60000 if tier == "quick" else 1200000
    mix = {"parse": 0.34, "display": 0.16, "proc": 0.1, "roundtrip": 0.25, "literal": 0.15}
    cases, dist = [], {k: 0 for k in mix}
    for _ in range(n):
        r = rng.random()
        if r < 0.34:
            cases.append(gen_parse_case(rng)); dist["parse"] += 1
        elif r < 0.50:
            cases.append(gen_display_case(rng)); dist["display"] += 1
        elif r < 0.60:
            cases.append(gen_proc_case(rng)); dist["proc"] += 1
        elif r < 0.85:
            cases.append(gen_roundtrip_case(rng, 24)); dist["roundtrip"] += 1
        else:
            cases.append(gen_roundtrip_case(rng, 25)); dist["literal"] += 1
    reps = {}
    for c in cases:
        if c[0] in (21, 24, 25):
            k = ("fix", "big", "rat", "flo")[c[2]] + "@%d" % c[1]
            reps[k] = reps.get(k, 0) + 1
    return cases, {"interfaces": dist, "representation_at_radix": reps, "palette_cases": len(palette_cases())}


# -------------------------------------------------------------------- oracle
def same_number(a, b):
    """b denotes the same number as a with the same exactness"""
    if is_exact(a) != is_exact(b):
        return False
    if is_exact(a):
        return value(a) is not None and value(a) == value(b)
    return a[1] == b[1]          # floats: same bits (distinguishes -0.0)


def applicable(radix, d):
    """the property's quantifier: exact z with r in {2,8,10,16}; finite inexact z with r = 10"""
    if is_exact(d):
        return radix in (2, 8, 10, 16) and value(d) is not None
    return radix == 10 and finite_float(d)


def oracle(case, line):
    iface = case[0]
    if iface == 24:
        radix = case[1]
        z, _ = take_num(case[2:])
        if not applicable(radix, z):
            return None
        if not line.startswith("OK "):
            return "roundtrip-failed: (string->number (number->string z r) r) did not return a value: %s" % line[:60]
        got, _ = parse_shown(line[3:].split(" "))
        if got is None:
            return "not-a-number: %s printed in radix %d reads back as a non-number (%s)" % (show_descr(z), radix, line[:60])
        if not same_number(z, got):
            return "different-number: %s printed in radix %d reads back as %s" % (show_descr(z), radix, show_descr(got))
        return None
    if iface == 25:
        radix = case[1]
        z, _ = take_num(case[2:])
        if not line.startswith("OK "):
            return None if not applicable(radix, z) else "literal-failed: %s" % line[:60]
        m = re.match(r"OK (.*) LIT (.*) S2N (.*)$", line)
        if not m:
            return "malformed: %s" % line[:80]
        lit, s2n = m.group(2), m.group(3)
        if not applicable(radix, z):
            return None
        if not lit.endswith(" END"):
            return "literal-not-one-datum: the spelling %r after the prefix does not read as exactly one datum (%s)" % (unesc(m.group(1)), lit[:60])
        if lit[:-4] != s2n:
            return "literal-differs: literal %r denotes %s but string->number gives %s" % (unesc(m.group(1)), lit[:-4], s2n)
        got, _ = parse_shown(s2n.split(" "))
        if got is None or not same_number(z, got):
            return "different-number: %s printed in radix %d reads back as %s" % (show_descr(z), radix, s2n[:60])
        return None
    if iface == 21:
        # library-level statement of the same property: the text of an exact integer is its sign-magnitude numeral,
        # the decimal text of a finite double converts back to it (Python's float() is correctly rounded)
        fmt = case[1]
        z, _ = take_num(case[2:])
        if not line.startswith("OK "):
            return None
        s = unesc(line[3:])
        if z[0] in ("fix", "big") and fmt in (2, 8, 10, 16):
            try:
                ok = re.match(r"^-?[0-9a-z]+$", s) and int(s, fmt) == z[1]
            except ValueError:
                ok = False
            if not ok:
                return "wrong-numeral: %s printed in radix %d as %r" % (show_descr(z), fmt, s)
        if finite_float(z) and fmt == 10:
            try:
                ok = "_" not in s and f2b(float(s)) == z[1]
            except ValueError:
                ok = False
            if not ok:
                return "float-text: %s printed as %r which does not convert back" % (show_descr(z), s)
        return None
    if iface == 23:
        # radix guard: a radix argument outside 2..36 is an error, never a panic (other panics, e.g. i32::MIN inside
        # num-rational's reduce, belong to C06 and are left to the correspondence)
        if line == "PANIC" and case[1] == 2:
            r, _ = take_num(case[2:])
            v = value(r) if r[0] != "flo" else None
            if v is None or v.denominator != 1 or not (2 <= v <= 36):
                return "radix-panic: string->number panicked on the radix argument %s" % show_descr(r)
        return None
    if iface == 22:
        if line == "PANIC":
            return "panic: number->string panicked"
        return None
    if iface == 20:
        ex, radix = case[1], case[2]
        s = "".join(chr(c) for c in case[3:])
        if not line.startswith("OK ") or line == "OK NONE":
            return None
        got, _ = parse_shown(line[3:].split(" "))
        if got is None:
            return "malformed: %s" % line[:80]
        if ex == 0 and 2 <= radix <= 36 and re.match(r"^[+-]?[0-9a-zA-Z]+$", s):
            try:
                v = int(s, radix)
            except ValueError:
                v = None
            if v is not None and (not is_exact(got) or value(got) != v):
                return "wrong-integer: %r in radix %d parsed as %s" % (s, radix, show_descr(got))
        if ex == 0 and radix == 10 and got[0] == "flo" and re.match(r"^[+-]?(\d+\.?\d*|\.\d+)([eE][+-]?\d+)?$", s):
            if f2b(float(s)) != got[1]:
                return "wrong-float: %r parsed as %s" % (s, show_descr(got))
        return None
    return None


def nontrivial(case, line):
    iface = case[0]
    if iface in (24, 25):
        z, _ = take_num(case[2:])
        return applicable(case[1], z)
    if iface == 20:
        return line.startswith("OK ") and line != "OK NONE"
    if iface == 21:
        return line.startswith("OK ")
    return line.startswith("OK ")


def known_class(case, line, model_line):
    return None


def describe(case):
    iface = case[0]
    try:
        if iface == 20:
            return {"iface": "parse_with_exactness", "exactness": ["unspecified", "exact", "inexact"][case[1] % 3], "radix": case[2],
                    "text": "".join(chr(c) for c in case[3:])}
        if iface == 21:
            return {"iface": "format", "radix": case[1], "number": show_descr(take_num(case[2:])[0])}
        if iface == 22:
            if case[1] == 1:
                return {"iface": "number->string", "number": show_descr(take_num(case[2:])[0])}
            r, rest = take_num(case[2:])
            return {"iface": "number->string", "radix": show_descr(r), "number": show_descr(take_num(rest)[0])}
        if iface == 23:
            if case[1] == 1:
                return {"iface": "string->number", "text": "".join(chr(c) for c in case[2:])}
            r, rest = take_num(case[2:])
            return {"iface": "string->number", "radix": show_descr(r), "text": "".join(chr(c) for c in rest)}
        if iface in (24, 25):
            return {"iface": "roundtrip" if iface == 24 else "literal", "radix": case[1], "number": show_descr(take_num(case[2:])[0]),
                    "scheme": "(string->number (number->string z %d) %d)" % (case[1], case[1])}
    except Exception as e:  # noqa
        return {"iface": iface, "undecodable": str(e)}
    return {"iface": iface}


def reductions(case):
    iface = case[0]
    if iface == 20:
        head, t = case[:3], case[3:]
        for i in range(len(t)):
            yield head + t[:i] + t[i + 1:]
        if case[1] != 0:
            yield [20, 0, case[2]] + t
        return
    if iface in (21, 24, 25):
        z, _ = take_num(case[2:])
        head = case[:2]
        if z[0] in ("fix", "big"):
            v = z[1]
            enc = fix if z[0] == "fix" else big
            for c in (-1 if v < 0 else 1, -(abs(v) >> 64) if v < 0 else v >> 64, -(abs(v) >> 8) if v < 0 else v >> 8, v // 2, -(-v // 2), v + 1 if v < 0 else v - 1):
                if c != v and (z[0] == "big" or I64_MIN <= c <= I64_MAX):
                    yield head + enc(c)
        elif z[0] == "rat":
            n, d = z[1], z[2]
            for a, b in ((n // 2, d), (n, d // 2), (-1 if n < 0 else 1, d), (n, 2)):
                if b != 0 and (a, b) != (n, d):
                    yield head + rat(a, b)
        else:
            b = z[1]
            for c in (b & ~0xffffffff, b & ~0xffff, b & ~0xff, b & ~(1 << 63)):
                if c != b:
                    yield head + flob(c)


def neighbours(case, rng):
    out = []
    iface = case[0]
    if iface == 20:
        t = case[3:]
        for r in RADICES + [36]:
            for ex in (0, 1, 2):
                out.append([20, ex, r] + t)
        for i in range(len(t)):
            for c in txt("0159./e-+_af"):
                out.append(case[:3] + t[:i] + [c] + t[i + 1:])
    elif iface in (21, 24, 25):
        z, _ = take_num(case[2:])
        for r in RADICES:
            for k in (21, 24, 25):
                out.append([k, r] + case[2:])
        if z[0] == "flo":
            for o in range(-8, 9):
                b = (z[1] + o) % (1 << 64)
                out.append([24, 10] + flob(b)); out.append([21, 10] + flob(b))
        elif z[0] in ("fix", "big"):
            for o in range(-3, 4):
                for r in RADICES:
                    out.append([24, r] + (fix(z[1] + o) if I64_MIN <= z[1] + o <= I64_MAX else big(z[1] + o)))
    else:
        out.append(case)
    return out
