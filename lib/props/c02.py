"""C02 — lexical scoping: innermost binding wins, closures share mutable locations.

Python side (work package "ref"): exhaustive scope skeletons and random deeper ones
(lib/scheme_gen.py), the reference interpreter with environments as chains of mutable
locations as the specification oracle (lib/scheme_ref.py).  The theorems are in
coq/Props/C02.v (integrator)."""
import os
import common as C
import scheme_ref as R
import scheme_gen as G
import scheme_oracle as O

os.environ.setdefault("MW_IMPL_CASE_BUDGET", "0.25")   # sessions are programs: bound a hanging implementation
PID = "C02"
ALLOWED_AXIOMS = ["Classical_Prop.classic", "ClassicalDedekindReals.sig_forall_dec",
                  "ClassicalDedekindReals.sig_not_dec", "FunctionalExtensionality.functional_extensionality_dep"]
CORRESPONDENCE = ("environment.rs (free symbols, internal definitions, environment maps), lambda.rs binding_location, "
                  "run.rs closure/activation environments and slot loads/stores vs Model/Compile.v, Model/Vm.v (wire interface 70)")
RULE = ("scope skeletons: D nested procedures over names a b c (also defined globally); per level and name a binding mode "
        "{free, parameter, rest parameter, internal definition} (<= 1 rest per level) and an action {none, read, set!+read} "
        "placed before or after the creation of the next-level closure; the closure is invoked inside its creator, after "
        "the creator returned, repeatedly (two activations sharing the creator's), or created twice in a loop that also "
        "binds a loop variable each closure reads; every read is logged with display, a set! conses a level tag onto the "
        "old value so that mutation order is visible (a third of the skeletons use bare assignments (set! x 'wL) instead, with no read in the assigning "
        "procedure; the closure slot alternates between a parameter and an internal definition).  Enumerated EXHAUSTIVELY for the reduced skeletons (every binding "
        "is used) within the caps (actions, bindings): quick D=1 (3,3), D=2 (2,2) complete, D=3 and D=4 (2,2) by a fixed "
        "stride; thorough D=1 (3,3), D=2 (3,3), D=3 (2,2), D=4 (2,2) complete; plus random skeletons up to 5 levels with "
        "per-level invocation patterns and unused bindings, and a stream whose reads go through a quasiquote template "
        "(exhibits qq-free-var).  Oracle = reference interpreter.  non-trivial = a captured variable is mutated after "
        "capture (decided on the skeleton); distinct by case hash")
ASSUMPTIONS = [
    "the closure of the next level is stored by set! into a parameter or an internal definition of its creator (so "
    "that actions can precede and follow its creation inside a <body> whose definitions come first); with the "
    "internal-definition style procedures that bind none of the names are thunks",
    "operator evaluated after the operands; values of define/set!/display are unspecified (wildcards), see C01",
]
KERNEL_SAMPLE = {"quick": 150, "thorough": 1200}
KERNEL_MAXLEN = 4000
TRUSTED_BASE = ["lib/scheme_ref.py: reference interpreter written from R7RS (an oracle used to classify outputs, not a proof)"]

MANIFEST = dict(
    text="Coq theorems (coq/Props/C02.v): compile-time resolution of a name in a lambda built from its enclosing lambda — own parameter first, then internal definition, then the enclosing lambda's lexical binding, else global (binding_location over EnvironmentMap::new_from_iof, all argument lists); run-time: closure environment slots are pointers to the creating activation's locations, loads/stores go through exactly one location, an assignment through one name is visible through every name of the same location; ENTER allocates the activation's environment at a heap address that was free (fresh id, every existing environment unchanged at a different address: separate activations get separate locations), a store rewrites exactly one slot of one environment and nothing else, RET leaves heap and environments untouched (a binding outlives its creator: every closure still reads the same slots), and flatness of locations (no LexPtr chains): an invariant finv (no LexPtr value in any heap cell, global slot, vector payload, bytecode operand or saved continuation stack; no MOV destination is a raw pointer) holds initially and is preserved by EVERY instruction of run_one on the success and on the error path (all of CALL/TCALL, every builtin of the real table - lists, vectors, numbers, strings, symbols, apply, call/cc, eval - proved), the compiler emits only bytecode satisfying the operand condition from any datum (by induction on the compiler's fuel, one lemma per syntactic form), prepare_eval and boot preserve the invariant, hence C02_locations_flat holds UNCONDITIONALLY in every state reachable from the booted machine by any sequence of evaluations (by preservation; the boot is never evaluated in a proof). The statement over ALL states is refuted by an unreachable hand-made state and kept visible. Tie: exhaustive/random scope skeletons, three-way differential + independent reference interpreter as oracle.",
    design="DESIGN.md section 5 C02",
    note="The reference interpreter is an ORACLE for classifying the implementation's output, not a proof. The "
         "enumeration is exhaustive only within the stated caps (reduced skeletons, actions/bindings caps, one "
         "invocation pattern per skeleton); beyond them it is sampling. Known finding: qq-free-var (a variable read "
         "through a quasiquote inside a nested procedure).",
    technique="Rocq/Coq proof over an executable model + model/implementation correspondence check + reference-interpreter oracle")

_NONTRIVIAL = {}
QUICK_CAPS = {1: (3, 3), 2: (2, 2), 3: (2, 2), 4: (2, 2)}
QUICK_STRIDE = {1: 1, 2: 1, 3: 5, 4: 17}     # coprime to the 4 invocation patterns
THOROUGH_CAPS = {1: (3, 3), 2: (3, 3), 3: (2, 2), 4: (2, 2)}
WITNESS_QQ = ["(define a 'a0)", "(define p1 (lambda (k1 a) (set! k1 (lambda (k2) (display `(,a)) 'r2)) (k1 #f)))", "(p1 #f 'a1)"]


def corpus():
    out = [G.encode(WITNESS_QQ)]
    for s in [
        ["(define (mk) (let ((n 0)) (lambda () (set! n (+ n 1)) n)))", "(define c1 (mk)) (define c2 (mk))", "(c1) (c1) (c2)"],
        ["(define x 'g)", "(define (f x) (define y x) (lambda (x) (list x y)))", "((f 1) 2)", "x"],
        ["(define (f . x) (lambda () (set! x (cons 's x)) x))", "(define g (f 1 2))", "(g) (g)"],
        ["(define (f a) (lambda (b) (lambda (c) (lambda (d) (set! a (cons d a)) (list a b c d)))))", "((((f 1) 2) 3) 4)"],
        ["(define fs (let loop ((i 0) (acc '())) (if (< i 3) (loop (+ i 1) (cons (lambda () i) acc)) acc)))", "(map (lambda (f) (f)) fs)"],
    ]:
        out.append(G.encode(s))
    return out


def generate(rng, tier):
    dist = G.Dist()
    meta = {}
    sessions, flags = [], []
    caps = QUICK_CAPS if tier == "quick" else THOROUGH_CAPS
    counts = {}
    idx = {}
    for D, pat, cols in G.c02_enumerate(caps):
        i = idx[D] = idx.get(D, 0) + 1
        if tier == "quick" and i % QUICK_STRIDE[D] != 0:
            continue
        # the closure slot alternates between a parameter and an internal definition (thunks)
        sessions.append(G.sk_program(D, pat, cols, kstyle="param" if (i // 4) % 2 == 0 else "idef",
                                     pure_set=(i // 8) % 3 == 2))
        flags.append(G.sk_nontrivial(D, cols))
        counts[D] = counts.get(D, 0) + 1
        dist.hit("pattern:" + pat)
    meta["enumerated_space_by_depth"] = idx
    meta["enumerated_run_by_depth"] = counts
    meta["caps_actions_bindings_by_depth"] = {str(k): list(v) for k, v in caps.items()}
    nrand = 2500 if tier == "quick" else 25000
    for _ in range(nrand):
        D, pats, cols = G.c02_random(rng, dist)
        sessions.append(G.sk_program(D, None, cols, pats, kstyle=rng.choice(["param", "idef"]), pure_set=rng.random() < 0.3,
                                     helper=rng.random() < 0.3))
        flags.append(G.sk_nontrivial(D, cols))
    nqq = 600 if tier == "quick" else 4000
    for _ in range(nqq):
        D, pats, cols = G.c02_random(rng, dist)
        qq = set(l for l in range(D) if rng.random() < 0.5) or {D - 1}
        sessions.append(G.sk_program(D, None, cols, pats, qq_levels=qq, kstyle=rng.choice(["param", "idef"])))
        flags.append(G.sk_nontrivial(D, cols))
    meta["random_skeletons"] = nrand
    meta["quasiquote_read_skeletons"] = nqq
    refs = O.ref_many(sessions)
    cases = []
    for s, f, r in zip(sessions, flags, refs):
        if r[0] in ("OK", "BUG"):
            c = G.encode(s)
            O.remember(c, r)
            _NONTRIVIAL[C.digest(c)] = f
            cases.append(c)
        else:
            k = "ref_limit" if r[0] == "LIMIT" else "ref_unspecified"
            meta[k] = meta.get(k, 0) + 1
    meta["exhaustive"] = True
    meta["exhaustive_note"] = ("complete within the caps for the depths whose stride is 1 (quick: D<=2; thorough: D<=4); "
                               "reduced skeletons only; random and quasiquote streams are sampling")
    meta["nontrivial_skeletons"] = sum(1 for f in flags if f)
    meta["patterns"] = dict(sorted(dist.items()))
    return cases, meta


def oracle(case, impl_line):
    return O.compare(case, impl_line)


def known_class(case, impl_line, model_line):
    return O.known_class(case, impl_line, model_line, allowed=("qq-free-var",))


def nontrivial(case, impl_line):
    return _NONTRIVIAL.get(C.digest(case), False)


describe = O.describe
reductions = O.reductions
neighbours = O.neighbours
