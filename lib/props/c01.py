"""C01 — evaluation agrees with the language semantics (core and derived forms).

Python side of the property (work package "ref"): generators (lib/scheme_gen.py), an
independent reference interpreter written from R7RS used as the specification oracle
(lib/scheme_ref.py), the syntactic predicates of the recorded defect classes
(lib/scheme_oracle.py).  The theorems are in coq/Props/C01.v (integrator)."""
import os
import common as C
import scheme_ref as R
import scheme_gen as G
import scheme_oracle as O

os.environ.setdefault("MW_IMPL_CASE_BUDGET", "0.25")   # sessions are programs: bound a hanging implementation
PID = "C01"
# the parser's number-literal decoder goes through Flocq's binary64 (see C11)
ALLOWED_AXIOMS = ["Classical_Prop.classic", "ClassicalDedekindReals.sig_forall_dec",
                  "ClassicalDedekindReals.sig_not_dec", "FunctionalExtensionality.functional_extensionality_dep"]
CORRESPONDENCE = ("Vm::eval over one VM per session (transform.rs, compile.rs, environment.rs, lambda.rs, run.rs, "
                  "builtin/procedure.rs, prelude.scm) vs Model/Transform.v, Compile.v, Vm.v, Builtins.v (wire interface 70)")
RULE = ("sessions of 1-8 top-level form texts from a typed, well-scoped-by-construction grammar over the forms of the "
        "statement (lambda with fixed/variadic/dotted formals, define incl. internal, set!, if, quote, quasiquote with "
        "nested levels and vectors, let, let*, letrec, named let, begin, cond incl. => and else, case, and, or, when, "
        "unless, delay/force, apply, eval, higher-order calls, (re)definition of globals between forms, calls to "
        "earlier-compiled procedures after redefinition, variadic procedures through apply inside cond arms, "
        "quasiquote templates in returned closures) with injected errors (unbound variable, arity, type, "
        "non-procedure, error); identifiers exclude keywords, builtins and the prelude's macro variables; a separate "
        "small stream uses exactly the prelude's macro variable names and the recorded defect shapes; exhaustive "
        "core-form expressions of depth<=2 over 2 names/2 constants; a wider-vocabulary stream (builtins the Coq "
        "model does not have yet) is compared implementation-vs-oracle only inside generate().  The oracle is the "
        "reference interpreter; sessions on which R7RS leaves the behaviour open (UNSPEC) or that exceed the step "
        "limit (LIMIT) are dropped and counted.  non-trivial = the session uses >= 2 distinct special forms and "
        ">= 1 procedure call; distinct by case hash")
ASSUMPTIONS = [
    "operator position is evaluated after the operands (R7RS leaves it open; marwood's choice); let inits, map "
    "callbacks and unquotes run left to right; eq? on numbers/characters behaves as eqv?; when/unless return the "
    "value of their last expression (R7RS 7.3 derived forms)",
    "values R7RS calls unspecified (results of define, set!, one-armed if, for-each, display...) and the printed "
    "representation of promises are wildcards in the comparison; procedures are compared by the #<procedure prefix "
    "(a continuation's #<continuation> counts as a procedure)",
    "sessions whose behaviour R7RS leaves open (reading a letrec variable before initialisation, set! of an unbound "
    "variable, testing an unspecified value, inspecting a promise, mutating a literal...) are skipped, counted in "
    "distribution.ref_unspecified",
    "wrong-type arguments to builtins are expected to raise an error (R7RS: 'it is an error'); the implementation's "
    "silent answers for comparisons and '-' on non-numbers are recorded as finding numeric-type-unchecked",
]
KERNEL_SAMPLE = {"quick": 120, "thorough": 1000}
KERNEL_MAXLEN = 2500
TRUSTED_BASE = ["lib/scheme_ref.py: reference interpreter written from R7RS (an oracle used to classify outputs, not a proof)"]
MODEL_VOCAB_WIDE = True       # the merged model has the list/vector/predicate builtins: wide sessions go three-way

MANIFEST = dict(
    text="Coq theorems (coq/Props/C01.v) about the hand-written model of the real pipeline (macro expansion over the GENERATED prelude, compiler, VM): bytecode shape of applications (operand order, CALL protocol) and of `if` (tail flag inherited), refutation witnesses for the recorded defect classes computed in-kernel; and a SEMANTIC compile-and-run correctness theorem for a fragment, by induction over every expression of it (C01_fragment_correct, C01_eval_fragment: constants, quote of any datum, both forms of if, global variable reference, define and set! of globals, application of a value-level builtin to argument expressions, arbitrarily nested): compiling appends a code segment, and running that segment from any machine extending the compile-time state reaches its end with %acc representing the value the big-step reference semantics (ref_eval, in Coq) assigns, the globals updated as it says, and sp/bp/ep/output/stack below sp unchanged; lifted to Vm::eval up to the final conversion of the value; the fragment is extended (C01_fragment2_correct, C01_eval_fragment2) with lambda expressions applied in place - ((lambda (x1 ... xn) body) e1 ... en), what let expands to - with parameter references, in tail position (TCALL, both frame-rebuild branches) and non-tail position (CALL, ENTER, RET), arbitrarily nested, no capture of locals by inner lambdas (a syntactic condition proved to imply the compiler's own free-symbol analysis finds nothing to capture); closures as VALUES (C01_fragment3_correct, C01_eval_fragment3, by induction on the reference derivation): lambda expressions in any position, inner lambdas capturing variables of enclosing ones, applications whose operator evaluates to a closure or a builtin, (define f (lambda ...)) with calls by name from later forms and recursion through the global; the state a completed evaluation leaves satisfies the premises again (C01_done_state_ok), so sessions compose. bodies of several expressions (C01_fragment4_correct) and set! on local variables, captured or not, with a reference semantics over a store of locations in which closures capture locations (C01_fragment6_correct, C01_eval_fragment6; the counter ((lambda (n) ((lambda (inc) (inc) (inc)) (lambda () (set! n ...) n))) ...) is inside the fragment); the machine invariant these theorems assume is proved for the BOOTED machine and every state reachable from it by any sequence of evaluations of ANY data, by preservation through the compiler, every instruction and every builtin (C01_booted_minv, C01_session_minv, C01_eval_preserves_rinv), so the fragment theorems apply in real sessions (C01_eval_fragment6_session). the (define (f x1 ... xn) body ...) spelling compiles to exactly the same computation as (define f (lambda ...)) (C01_define_spelling) and the fragment theorems are lifted to it; the VARARG instruction binds the rest parameter to a fresh proper list of the surplus arguments in order (C01_vararg_rest_list, machine level). Not covered: internal definitions, variadic lambdas as expressions of the fragment, the dotted define spelling, lambdas, macros, call/cc. The model's fuel for the final conversion of the value (heap size + 1) is shown INSUFFICIENT by a witness (a vector nested 8 deep on a 2-cell-chunk heap): the Rust conversion has no bound, so the honest premise 'the conversion does not run out of model fuel' is explicit in the Done-form theorems and a structural bound (twice the nesting) is proved for heaps without pointer cells. The statement for the whole language (lambda, closures, macros, call/cc) stays OPEN (C01_compile_correct_stmt) — the mechanisms it would compose are proved under C02 (scoping), C04 (frames), C05 (continuations), C07/C13 (run loop). Tie: three-way differential on generated sessions (implementation / extracted model / vm_compute sub-sample); the implementation's own output is classified against an independent reference interpreter written from R7RS (lib/scheme_ref.py), which is an oracle, not a proof.",
    design="DESIGN.md section 5 C01",
    note="The reference interpreter is an ORACLE for classifying the implementation's output, not a proof, and it is "
         "trusted (written from R7RS, independent of marwood's code). Known findings (status open, narrow syntactic "
         "classes, witnesses replayed): qq-free-var, qq-vector-shared, qq-dotted-unquote, qq-expands-macros, "
         "begin-define-toplevel, macro-hygiene, unquote-splicing, numeric-type-unchecked. Correspondence is sampling. "
         "Builtins without a model (libm, rand, time) are compared implementation-vs-oracle only.",
    technique="Rocq/Coq proof over an executable model + model/implementation correspondence check + reference-interpreter oracle")

WITNESSES = {
    "qq-free-var": ["(define (f x) (lambda () `(,x)))", "((f 1))"],
    "qq-vector-shared": ["(define (g) `#(1 2))", "(g)", "(g)"],
    "qq-dotted-unquote": ["`(a . ,(+ 1 2))"],
    "qq-expands-macros": ["`(and 1 2)"],
    "begin-define-toplevel": ["(begin (define z 1))", "z"],
    "macro-hygiene": ["(let ((var1 5)) (or #f var1))"],
    "unquote-splicing": ["`(1 ,@(list 2 3) 4)"],
    "numeric-type-unchecked": ["(- 'a 1)", "(< 1 'b)"],
}


def corpus():
    out = [G.encode(w) for w in WITNESSES.values()]
    for s in [
        ["(let ((temp 5)) (cond (#f 1) (6 => (lambda (x) temp))))", "(let ((atom-key 1)) (case (+ 1 1) ((2) atom-key) (else 0)))"],
        ["(define (memv x l) #t)", "(case 5 ((1) 'one) (else 'other))"],
        ["(define (not x) x)", "(unless #f 'ran)"],
        ["(define (f x) (begin `(,x)))", "(f 1)"],
        ["(define (f x) (let* ((y 2)) `(,x ,y)))", "(f 1)"],
        ["(define (f x) (if x `(,x) 0))", "(f 1)"],
        ["(define x 10) (define (f) x) (f)", "(define x 20) (f)", "(define (g) (h))", "(g)", "(define (h) 'late) (g)"],
        ["(define (v a . r) (cons a r))", "(cond ((null? '()) (apply v 1 2 '(3 4))) (else 0))"],
        ["(define (mk x) (lambda (y) (list x `(,y))))", "((mk 1) 2)"],
        ["(define p (delay (begin (display 'x) 5)))", "(force p)", "(force p)"],
        ["(eval '(+ 1 2))", "(eval (list 'define 'zz 5)) zz"],
        ["(car 5)", "(car)", "(foo)", "(1 2)", "((lambda (x) x))", "(error \"boom\" '(1 \"two\" #\\3))", "'still-alive"],
    ]:
        out.append(G.encode(s))
    return out


def _filter_by_reference(sessions, meta, tag):
    """run the reference interpreter; keep the sessions it can judge"""
    refs = O.ref_many(sessions)
    cases = []
    for s, r in zip(sessions, refs):
        if r[0] == "OK":
            c = G.encode(s)
            O.remember(c, r)
            cases.append(c)
        elif r[0] == "LIMIT":
            meta["ref_limit"] = meta.get("ref_limit", 0) + 1
        elif r[0] == "UNSPEC":
            meta["ref_unspecified"] = meta.get("ref_unspecified", 0) + 1
        else:
            c = G.encode(s)
            O.remember(c, r)
            cases.append(c)       # a crash of the oracle must surface as a failure
    meta[tag] = len(cases)
    return cases


def generate(rng, tier):
    dist = G.Dist()
    meta = {}
    n_main = 12000 if tier == "quick" else 150000
    n_hyg = 1500 if tier == "quick" else 12000
    n_wide = 2500 if tier == "quick" else 25000
    main = [G.c01_session(rng, dist) for _ in range(n_main)]
    hyg = [G.c01_hygiene_session(rng, dist) for _ in range(n_hyg)]
    core = G.c01_core_exhaustive(2 if tier == "quick" else 3)
    cases = _filter_by_reference(main, meta, "main_sessions")
    cases += _filter_by_reference(hyg, meta, "hygiene_stream_sessions")
    cases += _filter_by_reference(core, meta, "core_exhaustive_sessions")
    sdist = G.Dist()
    for c in cases[:3000]:
        G.source_stats(G.decode(c), sdist)
    # wider vocabulary: implementation vs oracle only (the model answers PANIC for these builtins)
    wdist = G.Dist()
    wide = _filter_by_reference([G.c01_session(rng, wdist, wide=True) for _ in range(n_wide)], meta, "wide_vocab_sessions")
    if MODEL_VOCAB_WIDE:
        cases += wide
    else:
        exe = C.build_harness("debug")
        lines = C.run_impl(exe, wide)
        bad = 0
        for c, il in zip(wide, lines):
            if O.compare(c, il) is not None:
                if O.known_class(c, il, None) is None:
                    bad += 1
                    if bad <= 20:
                        cases.append(c)       # surfaces through the runner as an oracle failure with a replay
                else:
                    meta["wide_known_class"] = meta.get("wide_known_class", 0) + 1
        meta["wide_vocab_failures_outside_known_classes"] = bad
    meta["exhaustive"] = False
    meta["generator_choices_all_sessions"] = dict(sorted(dist.items()))
    meta["source_measured_on_first_3000_sessions"] = dict(sorted(sdist.items()))
    return cases, meta


def oracle(case, impl_line):
    return O.compare(case, impl_line)


def known_class(case, impl_line, model_line):
    return O.known_class(case, impl_line, model_line)


def nontrivial(case, impl_line):
    d = G.Dist()
    try:
        G.source_stats(G.decode(case), d)
    except Exception:
        return False
    forms = set(k for k in d if k.startswith("form:") and k[5:] in R.SPECIAL_NAMES)
    return len(forms) >= 2 and d.get("application", 0) >= 1


describe = O.describe
reductions = O.reductions
neighbours = O.neighbours
